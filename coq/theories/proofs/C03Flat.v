(* C03Flat.v — programs with one plain FOR block, closed: a text whose lines in front of the block, the
   block's body written out count times, and the lines behind render a program with a meaning is
   assembled to that meaning.  The block has no labels and no counter, its body is unlabelled
   instruction and comment lines; the count is any expression that evaluates in front of the block. *)
From GM Require Import Base Text Token Lexer Scanner ExprSpec ExprEval ForExpand Parser Sim Compile
     Prog Meaning AsmSpec C03Lexer C05Lexer C05Fuel C03Proof C07Model C10Proof C14Proof C16Proof ScanProof
     C08Proof C08Block C08Scan C08Passes C08Flat C14Expand C09Parse C09Asm C09GenCompile C09GenLex
     C03Parse C03Compile C03Labels C03EquCompile C03EquLabels.
From Coq Require Import Lia.
Open Scope Z_scope.

Section Flat.
Variable spell : N -> text.

(* ---------- a document in front of other lines renders a program of its own ---------- *)
Lemma r2_app_inv : forall es1 es' org (its : list Prog.item), renders_doc2 spell org its (es1 ++ es') ->
  exists org1 its1 its2, its = its1 ++ its2 /\ renders_doc2 spell org1 its1 es1 /\ (org = None -> org1 = None).
Proof.
  induction es1 as [|[x k] es1 IH]; intros es' org its H.
  - exists None, [], its. split; [reflexivity|]. split; [constructor|auto].
  - cbn [app] in H.
    inversion H as [ | org0 l its0 t k0 es0 Hl Hr | org0 c k0 its0 es0 Hc Hr | e kw cmt k0 its0 es0 Hkw Hnn Hr
                     | org0 n e labs kw cmt k0 its0 es0 Hl Hkw Hnn Hr | org0 c e k0 its0 es0 Hac Hr]; subst.
    + destruct (IH _ _ _ Hr) as [org1 [its1 [its2 [E [R Ho]]]]]. exists org1, (IInstr l :: its1), its2.
      split; [cbn [app]; rewrite E; reflexivity|]. split; [constructor; assumption|exact Ho].
    + destruct (IH _ _ _ Hr) as [org1 [its1 [its2 [E [R Ho]]]]]. exists org1, its1, its2.
      split; [exact E|]. split; [constructor; assumption|exact Ho].
    + destruct (IH _ _ _ Hr) as [org1 [its1 [its2 [E [R Ho]]]]]. rewrite (Ho eq_refl) in R. exists (Some e), its1, its2.
      split; [exact E|]. split; [constructor; assumption|intros X; discriminate X].
    + destruct (IH _ _ _ Hr) as [org1 [its1 [its2 [E [R Ho]]]]]. exists org1, (IEqu n e :: its1), its2.
      split; [cbn [app]; rewrite E; reflexivity|]. split; [constructor; assumption|exact Ho].
    + destruct (IH _ _ _ Hr) as [org1 [its1 [its2 [E [R Ho]]]]]. exists org1, (IAssert e :: its1), its2.
      split; [cbn [app]; rewrite E; reflexivity|]. split; [apply R2assert; assumption|exact Ho].
Qed.

Lemma equs_app (a b : list Prog.item) : equs (a ++ b) = equs a ++ equs b.
Proof. induction a as [|[l|n e|ls c ce bd|e] a IH]; cbn [app equs]; rewrite ?IH; reflexivity. Qed.

Definition line_rendered (x : lelem) : Prop :=
  match x with LInstr t => exists l, renders_line spell l t | _ => True end.
Lemma r2_lines org its es : renders_doc2 spell org its es -> Forall (fun xk => line_rendered (fst xk)) es.
Proof. induction 1; constructor; try assumption; cbn [fst line_rendered]; try exact I. eexists; eassumption. Qed.

(* ---------- labels without colons or line ends: the expander hands the line on as it is ---------- *)
Definition is_name (l : ltok) : Prop := match l with LName _ => True | _ => False end.
Definition junk_free (x : lelem) : Prop := Forall is_name (fst (line_rest x)).

Lemma group_acc_junkfree : forall l cur, Forall is_name l ->
  (match cur with Some (_, j) => j = [] | None => True end) -> Forall (fun vj => snd vj = []) (group_acc cur l).
Proof.
  induction l as [|a l IH]; intros cur Hl Hc.
  - destruct cur as [[n j]|]; cbn [group_acc]; [constructor; [exact Hc|constructor]|constructor].
  - inversion Hl as [|x y Ha Hl']; subst. destruct a as [n| |]; try contradiction. cbn [group_acc].
    apply Forall_app. split; [destruct cur as [[n0 j]|]; [constructor; [exact Hc|constructor]|constructor]|].
    apply IH; [exact Hl'|reflexivity].
Qed.
Lemma pl_out_junkfree p : Forall (fun vj => snd vj = []) (pl_labels p) -> pl_out p = pl_toks p.
Proof.
  intros H. unfold pl_out, pl_toks. f_equal. induction H as [|[v j] ls Hj _ IH]; [reflexivity|].
  cbn [snd] in Hj. subst j. cbn [map fst plbl_seg flat_map snd app] in *. rewrite IH. reflexivity.
Qed.
Lemma elem_out_junkfree xk : junk_free (fst xk) -> flat_map pl_out (elem_plines xk) = flat_map pl_toks (elem_plines xk).
Proof.
  intros H. unfold elem_plines. cbn [flat_map]. f_equal.
  - apply pl_out_junkfree. cbn [pl_labels]. apply group_acc_junkfree; [exact H|exact I].
  - induction (pred (snd xk)) as [|k IH]; [reflexivity|]. cbn [repeat flat_map]. rewrite IH. reflexivity.
Qed.
Lemma doc_out_junkfree lead es : Forall (fun xk => junk_free (fst xk)) es ->
  flat_map pl_out (doc_plines lead es) = flat_map pl_toks (doc_plines lead es).
Proof.
  intros H. unfold doc_plines. rewrite !flat_map_app. f_equal.
  - induction lead as [|k IH]; [reflexivity|]. cbn [repeat flat_map]. rewrite IH. reflexivity.
  - induction H as [|xk es Hx _ IH]; [reflexivity|]. cbn [flat_map]. rewrite !flat_map_app, IH, (elem_out_junkfree xk Hx). reflexivity.
Qed.

(* ---------- the lines of the body ---------- *)
Definition flat_elem (x : lelem) : Prop :=
  match x with LInstr t => tl_labs t = [] | LComment _ => True | _ => False end.
Definition elem_blines (xk : lelem * nat) : list bline := map (fun p => mkBL [] (pl_rest p)) (elem_plines xk).

Lemma blines_of_plines ps : Forall (fun p => pl_labels p = []) ps ->
  flat_map bl_toks (map (fun p => mkBL [] (pl_rest p)) ps) = flat_map pl_toks ps.
Proof.
  induction 1 as [|p ps Hp _ IH]; [reflexivity|]. cbn [map flat_map]. rewrite IH. f_equal.
  unfold bl_toks, pl_toks. cbn [bl_labels bl_rest]. rewrite Hp. reflexivity.
Qed.
Lemma flat_elem_nolabels xk : flat_elem (fst xk) -> Forall (fun p => pl_labels p = []) (elem_plines xk).
Proof.
  intros H. unfold elem_plines. constructor.
  - cbn [pl_labels]. destruct xk as [[t|c|kw e cmt|labs kw e cmt] k]; cbn [fst flat_elem] in H; try contradiction;
      cbn [fst line_rest]; [rewrite H|]; reflexivity.
  - apply Forall_forall. intros p Hp. apply repeat_spec in Hp. subst p. reflexivity.
Qed.
Lemma flat_body_toks es : Forall (fun xk => flat_elem (fst xk) /\ labs_shape (fst xk) /\ (1 <= snd xk)%nat) es ->
  flat_map bl_toks (flat_map elem_blines es) = body es.
Proof.
  induction 1 as [|[x k] es [Hf [Hs Hk]] _ IH]; [reflexivity|]. cbn [flat_map body]. rewrite flat_map_app, IH.
  unfold elem_blines. rewrite (blines_of_plines _ (flat_elem_nolabels (x, k) Hf)).
  cbn [fst snd] in Hs, Hk. rewrite (elem_plines_toks x k Hs Hk). rewrite <- app_assoc. reflexivity.
Qed.

Hypothesis Hne : forall id, spell id <> [].

Lemma etoks_nonempty_texts e : Forall (fun t => t_typ t = tokText -> t_val t <> []) (etoks spell e).
Proof.
  apply Forall_forall. intros tk Hin Ht. destruct (etoks_text spell e tk Hin Ht) as [id [_ Hv]]. rewrite Hv. apply Hne.
Qed.

Lemma flat_elem_blines xk : flat_elem (fst xk) -> lelem_ok (fst xk) -> line_rendered (fst xk) ->
  Forall pline_ok (elem_plines xk) -> Forall flat_bline (elem_blines xk).
Proof.
  intros Hf Hok Hr Hpl. unfold elem_blines, elem_plines in *. cbn [map]. inversion Hpl as [|p0 ps0 Hp0 _]; subst. constructor.
  - (* the line itself *)
    destruct Hp0 as [_ [Hplain _]]. cbn [pl_rest] in Hplain.
    split; [reflexivity|]. split; [exact Hplain|]. cbn [bl_rest pl_rest].
    destruct xk as [[t|c|kw e cmt|labs kw e cmt] k]; cbn [fst flat_elem] in Hf; try contradiction; cbn [fst snd line_rest] in *.
    + destruct Hok as [_ [_ [[O1 [O2 O3]] _]]]. split.
      * exists true. unfold bl_first. cbn [bl_rest app hd]. unfold wclass. rewrite O1, O3, O2. reflexivity.
      * destruct Hr as [l [_ [_ [[_ [EA _]] HB]]]].
        assert (Hm : forall m, Forall (fun t0 => t_typ t0 = tokText -> t_val t0 <> []) (mode_toks m))
          by (intros [a|]; cbn [mode_toks]; repeat constructor; intros X; discriminate X).
        assert (Hc : Forall (fun t0 => t_typ t0 = tokText -> t_val t0 <> []) (cmt_toks (tl_cmt t)))
          by (destruct (tl_cmt t); cbn [cmt_toks]; repeat constructor; intros X; discriminate X).
        assert (HA : Forall (fun t0 => t_typ t0 = tokText -> t_val t0 <> []) (tl_A t)) by (rewrite EA; apply etoks_nonempty_texts).
        constructor.
        { intros _ X. cbn [t_val] in X. unfold tok_is_op in O2. cbn [t_typ t_val] in O2. rewrite X in O2. discriminate O2. }
        apply Forall_app. split; [apply Hm|]. apply Forall_app. split.
        { destruct (tl_B t) as [[bm B]|]; [|constructor]. apply Forall_app. split; [exact HA|].
          constructor; [intros X; discriminate X|apply Hm]. }
        apply Forall_app. split; [|exact Hc]. unfold tline_last.
        destruct (il_b l) as [b|], (tl_B t) as [[bm B]|]; try contradiction; [|exact HA].
        destruct HB as [_ [EB _]]. rewrite EB. apply etoks_nonempty_texts.
    + split; [exists false; reflexivity|]. constructor; [intros X; discriminate X|constructor].
  - (* the empty lines behind it *)
    apply Forall_forall. intros b Hb. apply in_map_iff in Hb. destruct Hb as [p [<- Hp]]. apply repeat_spec in Hp. subst p.
    split; [reflexivity|]. split; [constructor|]. split; [exists false; reflexivity|constructor].
Qed.

Lemma body_app a : forall b, body (a ++ b) = body a ++ body b.
Proof. induction a as [|[x k] a IH]; intros b; [reflexivity|]. cbn [app body]. rewrite IH, <- !app_assoc. reflexivity. Qed.
Lemma body_concat_repeat X n : forall i, body (concat (repeat X n)) = flat_map (fun _ : N => body X) (nseq i n).
Proof.
  induction n as [|n IH]; intros i; [reflexivity|]. rewrite nseq_S. cbn [repeat concat flat_map]. rewrite body_app, (IH (i + 1)%N). reflexivity.
Qed.

(* ---------- the theorem ---------- *)
Theorem flat_for_program cfg org (its : list Prog.item) es1 bodyEs es2 lead count n forw rofw skip nm au code start inp toks rkN :
  let es := es1 ++ concat (repeat bodyEs (S n)) ++ es2 in
  validate cfg = true ->
  spell_ok spell (flat_map il_labels (instrs its) ++ map fst (equs its)) ->
  renders_doc2 spell org its es -> shape2_ok es -> Forall (fun xk => (1 <= snd xk)%nat) es ->
  ranked spell (equs its) rkN ->
  bodies_known cfg its ->
  meaning (mconf_of cfg) (mkProg its org None nm au []) = MOk code start ->
  (* the text: lines in front, FOR count, the body once, ROF, lines behind *)
  Forall (fun xk => junk_free (fst xk)) es1 -> Forall (fun xk => flat_elem (fst xk)) bodyEs ->
  t_typ forw = tokText -> tok_is_pseudo forw = true -> lower_is (t_val forw) "for" = true -> Forall plain_tok count ->
  t_typ rofw = tokText -> tok_is_pseudo rofw = true -> lower_is (t_val rofw) "for" = false -> lower_is (t_val rofw) "rof" = true ->
  Forall plain_tok skip ->
  (forall syms, front_symbols (doc_plines lead es1) = Some syms ->
     expand_and_evaluate (filter noncomment count) (with_constants cfg syms) = Some (EOk (Z.of_nat (S n)))) ->
  lex_ascii inp = Some toks -> counts_modelled toks None = true ->
  toks = repeat nl_tok lead ++ body es1 ++ (forw :: count ++ [nlt]) ++ body bodyEs ++ rofw :: skip ++ (nlt :: body es2 ++ [tEOF]) ->
  compile_warrior cfg inp = COk code start (dmeta (mkPM [] [] []) es).
Proof.
  intros es Hv Hsp Hrd Hsh Hk1 Hrk Hbod Hmean Hjf Hfe Hft Hfp Hff Hcount Hrt Hrp Hrf Hrr Hskip Hev Hlex Hcm Htoks.
  apply (for_program_tokens spell cfg org its es lead nm au code start inp toks 1%nat rkN); try assumption;
    [|unfold max_for_passes; lia].
  pose proof (r2_ok spell its Hsp org its es Hrd (incl_refl _) Hsh) as Hok.
  pose proof (r2_plines spell org its es Hrd Hok Hsh) as Hpl.
  pose proof (r2_lines org its es Hrd) as Hlines.
  assert (Hshk : Forall (fun xk => labs_shape (fst xk) /\ (1 <= snd xk)%nat) es).
  { apply Forall_forall. intros xk Hx. unfold shape2_ok in Hsh. rewrite Forall_forall in Hsh, Hk1. split; [apply Hsh|apply Hk1]; exact Hx. }
  (* the three parts *)
  assert (Ees : es = es1 ++ bodyEs ++ (concat (repeat bodyEs n) ++ es2)).
  { unfold es. cbn [repeat concat]. rewrite <- !app_assoc. reflexivity. }
  assert (Hsplit : forall (P : lelem * nat -> Prop), Forall P es -> Forall P es1 /\ Forall P bodyEs /\ Forall P es2).
  { intros P HP. unfold es in HP. apply Forall_app in HP. destruct HP as [H1 HP]. apply Forall_app in HP. destruct HP as [H2 H3].
    cbn [repeat concat] in H2. apply Forall_app in H2. destruct H2 as [H2 _]. auto. }
  destruct (Hsplit _ Hshk) as [Hshk1 [HshkB Hshk2]]. destruct (Hsplit _ Hok) as [Hok1 [HokB Hok2]].
  destruct (Hsplit _ Hlines) as [_ [HlinesB _]].
  rewrite Ees in Hpl. rewrite !flat_map_app in Hpl. apply Forall_app in Hpl. destruct Hpl as [Hpl1 Hpl]. apply Forall_app in Hpl. destruct Hpl as [HplB _].
  (* the lines in front render a program of their own: their symbols *)
  destruct (r2_app_inv es1 _ org its Hrd) as [org1 [its1 [its2 [Eits [R1 _]]]]].
  assert (Hnd1 : NoDup (map spell (map fst (equs its1)))).
  { destruct Hsp as [_ _ Hinj Hnd _].
    assert (Hev_nd : NoDup (map spell (map fst (equs its)))).
    { apply NoDup_map_spell.
      - clear - Hnd. induction (flat_map il_labels (instrs its)) as [|a l IH]; [exact Hnd|]. cbn [app] in Hnd. inversion Hnd; subst. apply IH. assumption.
      - intros a b Ha Hb. apply Hinj; apply in_or_app; right; assumption. }
    rewrite Eits, equs_app, !map_app in Hev_nd. apply nodup_app_l in Hev_nd. exact Hev_nd. }
  assert (Hsh1 : Forall (fun xk => labs_shape (fst xk)) es1) by (eapply Forall_impl; [|exact Hshk1]; intros a [Ha _]; exact Ha).
  destruct (r2_scan_value spell org1 its1 es1 R1 Hsh1 [] Hnd1) as [syms Hsyms].
  assert (Hfront : front_symbols (doc_plines lead es1) = Some syms).
  { unfold front_symbols, doc_plines. rewrite scan_spec_app, scan_spec_empty, Hsyms. reflexivity. }
  assert (Hpre : Forall pline_ok (doc_plines lead es1)).
  { unfold doc_plines. apply Forall_app. split; [apply empty_pline_ok|exact Hpl1]. }
  (* the body *)
  assert (HB : Forall flat_bline (flat_map elem_blines bodyEs)).
  { clear - Hfe HokB HlinesB HplB Hne. induction bodyEs as [|xk bs IH]; [constructor|]. cbn [flat_map] in *.
    inversion Hfe; subst. inversion HokB; subst. inversion HlinesB; subst. apply Forall_app in HplB. destruct HplB as [Hp1 Hp2].
    apply Forall_app. split; [apply flat_elem_blines; assumption|apply IH; assumption]. }
  assert (EB : flat_map bl_toks (flat_map elem_blines bodyEs) = body bodyEs).
  { apply flat_body_toks. apply Forall_forall. intros xk Hx. rewrite Forall_forall in Hfe, HshkB.
    destruct (HshkB xk Hx) as [A1 A2]. split; [apply Hfe; exact Hx|split; assumption]. }
  (* the final document, as lines *)
  assert (Efin : ldoc_toks lead es = flat_map pl_toks (doc_plines lead es) ++ [tEOF]).
  { unfold ldoc_toks. rewrite (doc_plines_toks lead es Hshk). rewrite <- app_assoc. reflexivity. }
  assert (Hdone : unrolls cfg 0 (ldoc_toks lead es) (ldoc_toks lead es)).
  { rewrite Efin. apply U_done; [|reflexivity|].
    - unfold doc_plines. apply Forall_app. split; [apply empty_pline_ok|]. apply (r2_plines spell org its es Hrd Hok Hsh).
    - unfold plain_symbols, doc_plines. rewrite scan_spec_app, scan_spec_empty.
      destruct Hsp as [_ _ Hinj Hnd _].
      apply (r2_scan spell org its es Hrd Hsh []); [|intros m0; discriminate].
      apply NoDup_map_spell.
      + clear - Hnd. induction (flat_map il_labels (instrs its)) as [|a l IH]; [exact Hnd|]. cbn [app] in Hnd. inversion Hnd; subst. apply IH. assumption.
      + intros a b Ha Hb. apply Hinj; apply in_or_app; right; assumption. }
  (* one pass *)
  assert (Eout : flat_map pl_out (doc_plines lead es1)
                 ++ flat_map (fun _ : N => flat_map bl_toks (flat_map elem_blines bodyEs)) (nseq 1 (Z.to_nat (Z.of_nat (S n))))
                 ++ body es2 ++ [tEOF] = ldoc_toks lead es).
  { rewrite Nat2Z.id, EB. rewrite (doc_out_junkfree lead es1 Hjf).
    assert (H1 : Forall (fun xk => labs_shape (fst xk) /\ (1 <= snd xk)%nat) es1) by exact Hshk1.
    rewrite (doc_plines_toks lead es1 H1). unfold ldoc_toks, es. rewrite !body_app, (body_concat_repeat bodyEs (S n) 1%N).
    rewrite <- !app_assoc. reflexivity. }
  rewrite <- Eout. rewrite <- Eout in Hdone.
  assert (Et : toks = flat_map pl_toks (doc_plines lead es1) ++ (forw :: count ++ [nlt]) ++ flat_map bl_toks (flat_map elem_blines bodyEs)
                      ++ rofw :: skip ++ (nlt :: body es2 ++ [tEOF])).
  { rewrite Htoks, EB. assert (H1 : Forall (fun xk => labs_shape (fst xk) /\ (1 <= snd xk)%nat) es1) by exact Hshk1.
    rewrite (doc_plines_toks lead es1 H1). rewrite <- !app_assoc. reflexivity. }
  rewrite Et.
  apply (flat_block_unrolls cfg 0%nat _ (doc_plines lead es1) forw count (flat_map elem_blines bodyEs) rofw skip (body es2) syms (Z.of_nat (S n)));
    try assumption.
  - apply Hev. exact Hfront.
  - apply body_nonterm. exact Hok2.
Qed.
(* the comment idiom: a block without labels or counter whose count is not positive, around any body *)
Theorem zero_for_program cfg org (its : list Prog.item) es1 es2 lead count forw rofw skip blk cls v d_at content' nm au code start inp toks rkN :
  let es := es1 ++ es2 in
  validate cfg = true ->
  spell_ok spell (flat_map il_labels (instrs its) ++ map fst (equs its)) ->
  renders_doc2 spell org its es -> shape2_ok es -> Forall (fun xk => (1 <= snd xk)%nat) es ->
  ranked spell (equs its) rkN ->
  bodies_known cfg its ->
  meaning (mconf_of cfg) (mkProg its org None nm au []) = MOk code start ->
  Forall (fun xk => junk_free (fst xk)) es1 ->
  t_typ forw = tokText -> tok_is_pseudo forw = true -> lower_is (t_val forw) "for" = true -> Forall plain_tok count ->
  Forall bline_ok blk -> body_run blk 0 None [] = Some (O, d_at, content') -> Forall (fun vc => is_label (fst vc)) cls ->
  t_typ rofw = tokText -> tok_is_pseudo rofw = true -> lower_is (t_val rofw) "for" = false -> lower_is (t_val rofw) "rof" = true ->
  Forall plain_tok skip ->
  (forall syms, front_symbols (doc_plines lead es1) = Some syms ->
     expand_and_evaluate (filter noncomment count) (with_constants cfg syms) = Some (EOk v)) -> v <= 0 ->
  lex_ascii inp = Some toks -> counts_modelled toks None = true ->
  toks = repeat nl_tok lead ++ body es1 ++ (forw :: count ++ [nlt]) ++ flat_map bl_toks blk ++ lbl_seg cls ++ rofw :: skip ++ (nlt :: body es2 ++ [tEOF]) ->
  compile_warrior cfg inp = COk code start (dmeta (mkPM [] [] []) es).
Proof.
  intros es Hv Hsp Hrd Hsh Hk1 Hrk Hbod Hmean Hjf Hft Hfp Hff Hcount Hblk Hrun Hcls Hrt Hrp Hrf Hrr Hskip Hev Hv0 Hlex Hcm Htoks.
  apply (for_program_tokens spell cfg org its es lead nm au code start inp toks 1%nat rkN); try assumption;
    [|unfold max_for_passes; lia].
  pose proof (r2_ok spell its Hsp org its es Hrd (incl_refl _) Hsh) as Hok.
  pose proof (r2_plines spell org its es Hrd Hok Hsh) as Hpl.
  assert (Hshk : Forall (fun xk => labs_shape (fst xk) /\ (1 <= snd xk)%nat) es).
  { apply Forall_forall. intros xk Hx. unfold shape2_ok in Hsh. rewrite Forall_forall in Hsh, Hk1. split; [apply Hsh|apply Hk1]; exact Hx. }
  pose proof Hshk as Hshk'. unfold es in Hshk'. apply Forall_app in Hshk'. destruct Hshk' as [Hshk1 Hshk2].
  pose proof Hok as Hok'. unfold es in Hok'. apply Forall_app in Hok'. destruct Hok' as [Hok1 Hok2].
  unfold es in Hpl. rewrite flat_map_app in Hpl. apply Forall_app in Hpl. destruct Hpl as [Hpl1 _].
  destruct (r2_app_inv es1 _ org its Hrd) as [org1 [its1 [its2 [Eits [R1 _]]]]].
  assert (Hev_nd : NoDup (map spell (map fst (equs its)))).
  { destruct Hsp as [_ _ Hinj Hnd _]. apply NoDup_map_spell.
    - clear - Hnd. induction (flat_map il_labels (instrs its)) as [|a l IH]; [exact Hnd|]. cbn [app] in Hnd. inversion Hnd; subst. apply IH. assumption.
    - intros a b Ha Hb. apply Hinj; apply in_or_app; right; assumption. }
  assert (Hnd1 : NoDup (map spell (map fst (equs its1)))).
  { pose proof Hev_nd as H. rewrite Eits, equs_app, !map_app in H. apply nodup_app_l in H. exact H. }
  assert (Hsh1 : Forall (fun xk => labs_shape (fst xk)) es1) by (eapply Forall_impl; [|exact Hshk1]; intros a [Ha _]; exact Ha).
  destruct (r2_scan_value spell org1 its1 es1 R1 Hsh1 [] Hnd1) as [syms Hsyms].
  assert (Hfront : front_symbols (doc_plines lead es1) = Some syms).
  { unfold front_symbols, doc_plines. rewrite scan_spec_app, scan_spec_empty, Hsyms. reflexivity. }
  assert (Hpre : Forall pline_ok (doc_plines lead es1)).
  { unfold doc_plines. apply Forall_app. split; [apply empty_pline_ok|exact Hpl1]. }
  assert (Efin : ldoc_toks lead es = flat_map pl_toks (doc_plines lead es) ++ [tEOF]).
  { unfold ldoc_toks. rewrite (doc_plines_toks lead es Hshk). rewrite <- app_assoc. reflexivity. }
  assert (Hdone : unrolls cfg 0 (ldoc_toks lead es) (ldoc_toks lead es)).
  { rewrite Efin. apply U_done; [|reflexivity|].
    - unfold doc_plines. apply Forall_app. split; [apply empty_pline_ok|]. apply (r2_plines spell org its es Hrd Hok Hsh).
    - unfold plain_symbols, doc_plines. rewrite scan_spec_app, scan_spec_empty.
      apply (r2_scan spell org its es Hrd Hsh [] Hev_nd). intros m0. discriminate. }
  assert (Eout : flat_map pl_out (doc_plines lead es1) ++ body es2 ++ [tEOF] = ldoc_toks lead es).
  { rewrite (doc_out_junkfree lead es1 Hjf). rewrite (doc_plines_toks lead es1 Hshk1). unfold ldoc_toks, es. rewrite body_app.
    rewrite <- !app_assoc. reflexivity. }
  rewrite <- Eout. rewrite <- Eout in Hdone.
  assert (Et : toks = flat_map pl_toks (doc_plines lead es1) ++ (forw :: count ++ [nlt]) ++ flat_map bl_toks blk
                      ++ lbl_seg cls ++ rofw :: skip ++ (nlt :: body es2 ++ [tEOF])).
  { rewrite Htoks. rewrite (doc_plines_toks lead es1 Hshk1). rewrite <- !app_assoc. reflexivity. }
  rewrite Et.
  apply (zero_block_unrolls cfg 0%nat _ (doc_plines lead es1) forw count blk cls rofw skip (body es2) syms v d_at content'); try assumption.
  - apply Hev. exact Hfront.
  - apply body_nonterm. exact Hok2.
Qed.
(* ---------- the same with a counter: `c FOR count`, the counter used in the operands of the body ---------- *)
Definition subst_elem (c : text) (j : N) (x : lelem) : lelem :=
  match x with
  | LInstr t => LInstr (mkTL (tl_labs t) (tl_op t) (tl_am t) (map (subst_body c [] j) (tl_A t))
                          (match tl_B t with Some (bm, B) => Some (bm, map (subst_body c [] j) B) | None => None end) (tl_cmt t))
  | _ => x
  end.
Definition sek (c : text) (j : N) (xk : lelem * nat) : lelem * nat := (subst_elem c j (fst xk), snd xk).

Lemma subst_nontext c j t : t_typ t <> tokText -> subst_body c [] j t = t.
Proof. intros H. unfold subst_body. destruct (t_typ t); try reflexivity. congruence. Qed.
Lemma subst_mode c j m : map (subst_body c [] j) (mode_toks m) = mode_toks m.
Proof. destruct m; reflexivity. Qed.
Lemma subst_cmt c j cm : map (subst_body c [] j) (cmt_toks cm) = cmt_toks cm.
Proof. destruct cm; reflexivity. Qed.
Lemma subst_op c j o : o <> c -> subst_body c [] j (mkT tokText o) = mkT tokText o.
Proof. intros H. unfold subst_body. cbn [t_typ t_val]. rewrite text_eqb_neq by exact H. reflexivity. Qed.
Lemma plain_subst_inv c j t : plain_tok (subst_body c [] j t) -> plain_tok t.
Proof.
  unfold subst_body. destruct (t_typ t) eqn:E; try (intros H; exact H).
  intros _. unfold plain_tok, is_terminal. rewrite E. split; [reflexivity|discriminate].
Qed.

Definition op_differs (c : text) (x : lelem) : Prop := match x with LInstr t => tl_op t <> c | _ => True end.

Lemma subst_rest c j x : flat_elem x -> op_differs c x ->
  snd (line_rest (subst_elem c j x)) = map (subst_body c [] j) (snd (line_rest x)).
Proof.
  destruct x as [t|cm|kw e cmt|labs kw e cmt]; cbn [flat_elem op_differs]; intros Hf Ho; try contradiction; [|reflexivity].
  cbn [subst_elem line_rest snd tl_op tl_am tl_A tl_B tl_cmt]. unfold tline_last. cbn [tl_B tl_A].
  cbn [map]. rewrite (subst_op c j _ Ho). f_equal.
  rewrite !map_app, subst_mode, subst_cmt.
  destruct (tl_B t) as [[bm B]|]; cbn [map app]; rewrite ?map_app; cbn [map]; rewrite ?subst_mode; reflexivity.
Qed.
Lemma subst_fst_rest c j x : fst (line_rest (subst_elem c j x)) = fst (line_rest x).
Proof. destruct x; reflexivity. Qed.
Lemma subst_elem_toks c j x : flat_elem x -> op_differs c x ->
  lelem_toks (subst_elem c j x) = map (subst_body c [] j) (lelem_toks x).
Proof.
  destruct x as [t|cm|kw e cmt|labs kw e cmt]; cbn [flat_elem op_differs]; intros Hf Ho; try contradiction; [|reflexivity].
  cbn [subst_elem lelem_toks]. unfold tline_toks, tline_head, tline_last. cbn [tl_labs tl_op tl_am tl_A tl_B tl_cmt]. rewrite Hf.
  cbn [map app]. rewrite (subst_op c j _ Ho). f_equal.
  rewrite !map_app, subst_mode, subst_cmt.
  destruct (tl_B t) as [[bm B]|]; cbn [map app]; rewrite ?map_app; cbn [map]; rewrite ?subst_mode, <- ?app_assoc; reflexivity.
Qed.
Lemma subst_body_doc c j es : Forall (fun xk => flat_elem (fst xk) /\ op_differs c (fst xk)) es ->
  body (map (sek c j) es) = map (subst_body c [] j) (body es).
Proof.
  induction 1 as [|[x k] es [Hf Ho] _ IH]; [reflexivity|]. cbn [map sek fst snd body]. rewrite IH, !map_app.
  cbn [fst] in Hf, Ho. rewrite (subst_elem_toks c j x Hf Ho). f_equal. f_equal.
  induction k as [|k IHk]; [reflexivity|]. cbn [repeat map]. rewrite <- IHk. reflexivity.
Qed.
Lemma body_concat_map (f : N -> list (lelem * nat)) l : body (concat (map f l)) = flat_map (fun j => body (f j)) l.
Proof. induction l as [|j l IH]; [reflexivity|]. cbn [map concat flat_map]. rewrite body_app, IH. reflexivity. Qed.

(* the lines of the body as the expander wants them, from what is known about their first written-out copy *)
Lemma cnt_elem_blines c xk : flat_elem (fst xk) -> lelem_ok (subst_elem c 1 (fst xk)) ->
  Forall pline_ok (elem_plines (sek c 1 xk)) -> op_differs c (fst xk) -> Forall cnt_bline (elem_blines xk).
Proof.
  intros Hf Hok Hpl Ho. unfold elem_blines, elem_plines in *. cbn [map]. cbn [sek fst snd] in Hpl. inversion Hpl as [|p0 ps0 Hp0 _]; subst. constructor.
  - destruct Hp0 as [_ [Hplain _]]. cbn [pl_rest] in Hplain. rewrite (subst_rest c 1 (fst xk) Hf Ho) in Hplain.
    split; [reflexivity|]. split.
    + cbn [bl_rest pl_rest]. clear - Hplain. induction (snd (line_rest (fst xk))) as [|t r IH]; [constructor|].
      cbn [map] in Hplain. inversion Hplain; subst. constructor; [eapply plain_subst_inv; eassumption|apply IH; assumption].
    + cbn [bl_rest pl_rest].
      destruct xk as [[t|cm|kw e cmt|labs kw e cmt] k]; cbn [fst flat_elem] in Hf; try contradiction; cbn [fst snd line_rest] in *.
      * destruct Hok as [_ [_ [[O1 [O2 O3]] _]]]. cbn [subst_elem tl_op] in O1, O2, O3.
        exists true. unfold bl_first. cbn [bl_rest app hd]. unfold wclass. rewrite O1, O3, O2. reflexivity.
      * exists false. reflexivity.
  - apply Forall_forall. intros b Hb. apply in_map_iff in Hb. destruct Hb as [p [<- Hp]]. apply repeat_spec in Hp. subst p.
    split; [reflexivity|]. split; [constructor|]. exists false. reflexivity.
Qed.

Theorem counter_for_program cfg org (its : list Prog.item) es1 bodyEs es2 lead c count n forw rofw skip nm au code start inp toks rkN :
  let es := es1 ++ concat (map (fun j => map (sek c j) bodyEs) (nseq 1 (S n))) ++ es2 in
  validate cfg = true ->
  spell_ok spell (flat_map il_labels (instrs its) ++ map fst (equs its)) ->
  renders_doc2 spell org its es -> shape2_ok es -> Forall (fun xk => (1 <= snd xk)%nat) es ->
  ranked spell (equs its) rkN ->
  bodies_known cfg its ->
  meaning (mconf_of cfg) (mkProg its org None nm au []) = MOk code start ->
  (* the text: lines in front, c FOR count, the body once with the counter in it, ROF, lines behind *)
  Forall (fun xk => junk_free (fst xk)) es1 -> Forall (fun xk => flat_elem (fst xk)) bodyEs -> is_label c ->
  t_typ forw = tokText -> tok_is_pseudo forw = true -> lower_is (t_val forw) "for" = true -> Forall plain_tok count ->
  t_typ rofw = tokText -> tok_is_pseudo rofw = true -> lower_is (t_val rofw) "for" = false -> lower_is (t_val rofw) "rof" = true ->
  Forall plain_tok skip ->
  (forall syms, front_symbols (doc_plines lead es1) = Some syms ->
     expand_and_evaluate (filter noncomment count) (with_constants cfg syms) = Some (EOk (Z.of_nat (S n)))) ->
  lex_ascii inp = Some toks -> counts_modelled toks None = true ->
  toks = repeat nl_tok lead ++ body es1 ++ (mkT tokText c :: forw :: count ++ [nlt]) ++ body bodyEs ++ rofw :: skip ++ (nlt :: body es2 ++ [tEOF]) ->
  compile_warrior cfg inp = COk code start (dmeta (mkPM [] [] []) es).
Proof.
  intros es Hv Hsp Hrd Hsh Hk1 Hrk Hbod Hmean Hjf Hfe Hc Hft Hfp Hff Hcount Hrt Hrp Hrf Hrr Hskip Hev Hlex Hcm Htoks.
  apply (for_program_tokens spell cfg org its es lead nm au code start inp toks 1%nat rkN); try assumption;
    [|unfold max_for_passes; lia].
  pose proof (r2_ok spell its Hsp org its es Hrd (incl_refl _) Hsh) as Hok.
  pose proof (r2_plines spell org its es Hrd Hok Hsh) as Hpl.
  assert (Hshk : Forall (fun xk => labs_shape (fst xk) /\ (1 <= snd xk)%nat) es).
  { apply Forall_forall. intros xk Hx. unfold shape2_ok in Hsh. rewrite Forall_forall in Hsh, Hk1. split; [apply Hsh|apply Hk1]; exact Hx. }
  assert (Ees : es = es1 ++ map (sek c 1) bodyEs ++ (concat (map (fun j => map (sek c j) bodyEs) (nseq 2 n)) ++ es2)).
  { unfold es. rewrite nseq_S. cbn [map concat]. rewrite <- !app_assoc. reflexivity. }
  assert (Hsplit : forall (P : lelem * nat -> Prop), Forall P es -> Forall P es1 /\ Forall P (map (sek c 1) bodyEs) /\ Forall P es2).
  { intros P HP. rewrite Ees in HP. apply Forall_app in HP. destruct HP as [H1 HP]. apply Forall_app in HP. destruct HP as [H2 H3].
    apply Forall_app in H3. destruct H3 as [_ H3]. auto. }
  destruct (Hsplit _ Hshk) as [Hshk1 [HshkB Hshk2]]. destruct (Hsplit _ Hok) as [Hok1 [HokB Hok2]].
  rewrite Ees in Hpl. rewrite !flat_map_app in Hpl. apply Forall_app in Hpl. destruct Hpl as [Hpl1 Hpl]. apply Forall_app in Hpl. destruct Hpl as [HplB _].
  (* the mnemonics of the body are not the counter *)
  assert (Hod : Forall (fun xk => op_differs c (fst xk)) bodyEs).
  { clear - HokB Hc. induction bodyEs as [|[x k] bs IH]; [constructor|]. cbn [map] in HokB. inversion HokB; subst. constructor; [|apply IH; assumption].
    cbn [fst sek] in *. destruct x as [t|cm|kw e cmt|labs kw e cmt]; cbn [op_differs]; try exact I.
    match goal with H : lelem_ok _ |- _ => destruct H as [_ [_ [[_ [O2 _]] _]]] end. cbn [subst_elem tl_op] in O2.
    intros E. destruct Hc as [_ Hc2]. rewrite E in O2. rewrite O2 in Hc2. discriminate Hc2. }
  (* the lines in front *)
  destruct (r2_app_inv es1 _ org its Hrd) as [org1 [its1 [its2 [Eits [R1 _]]]]].
  assert (Hev_nd : NoDup (map spell (map fst (equs its)))).
  { destruct Hsp as [_ _ Hinj Hnd _]. apply NoDup_map_spell.
    - clear - Hnd. induction (flat_map il_labels (instrs its)) as [|a l IH]; [exact Hnd|]. cbn [app] in Hnd. inversion Hnd; subst. apply IH. assumption.
    - intros a b Ha Hb. apply Hinj; apply in_or_app; right; assumption. }
  assert (Hnd1 : NoDup (map spell (map fst (equs its1)))).
  { pose proof Hev_nd as H. rewrite Eits, equs_app, !map_app in H. apply nodup_app_l in H. exact H. }
  assert (Hsh1 : Forall (fun xk => labs_shape (fst xk)) es1) by (eapply Forall_impl; [|exact Hshk1]; intros a [Ha _]; exact Ha).
  destruct (r2_scan_value spell org1 its1 es1 R1 Hsh1 [] Hnd1) as [syms Hsyms].
  assert (Hfront : front_symbols (doc_plines lead es1) = Some syms).
  { unfold front_symbols, doc_plines. rewrite scan_spec_app, scan_spec_empty, Hsyms. reflexivity. }
  assert (Hpre : Forall pline_ok (doc_plines lead es1)).
  { unfold doc_plines. apply Forall_app. split; [apply empty_pline_ok|exact Hpl1]. }
  (* the body *)
  assert (HB : Forall cnt_bline (flat_map elem_blines bodyEs)).
  { clear - Hfe HokB HplB Hod. induction bodyEs as [|xk bs IH]; [constructor|]. cbn [flat_map map] in *.
    inversion Hfe; subst. inversion HokB; subst. inversion Hod; subst. apply Forall_app in HplB. destruct HplB as [Hp1 Hp2].
    apply Forall_app. split; [apply (cnt_elem_blines c); assumption|apply IH; assumption]. }
  assert (HfB : Forall (fun xk => flat_elem (fst xk) /\ labs_shape (fst xk) /\ (1 <= snd xk)%nat) bodyEs).
  { clear - Hfe HshkB. induction bodyEs as [|[x k] bs IH]; [constructor|]. cbn [map] in HshkB. inversion Hfe; subst. inversion HshkB as [|a b [A1 A2] A3]; subst.
    constructor; [|apply IH; assumption]. cbn [sek fst snd] in *. split; [assumption|]. split; [|exact A2].
    unfold labs_shape in *. rewrite subst_fst_rest in A1. exact A1. }
  assert (EB : flat_map bl_toks (flat_map elem_blines bodyEs) = body bodyEs) by (apply flat_body_toks; exact HfB).
  assert (Hfo : Forall (fun xk => flat_elem (fst xk) /\ op_differs c (fst xk)) bodyEs).
  { apply Forall_forall. intros xk Hx. rewrite Forall_forall in Hfe, Hod. split; [apply Hfe|apply Hod]; exact Hx. }
  (* the final document *)
  assert (Efin : ldoc_toks lead es = flat_map pl_toks (doc_plines lead es) ++ [tEOF]).
  { unfold ldoc_toks. rewrite (doc_plines_toks lead es Hshk). rewrite <- app_assoc. reflexivity. }
  assert (Hdone : unrolls cfg 0 (ldoc_toks lead es) (ldoc_toks lead es)).
  { rewrite Efin. apply U_done; [|reflexivity|].
    - unfold doc_plines. apply Forall_app. split; [apply empty_pline_ok|]. apply (r2_plines spell org its es Hrd Hok Hsh).
    - unfold plain_symbols, doc_plines. rewrite scan_spec_app, scan_spec_empty.
      apply (r2_scan spell org its es Hrd Hsh [] Hev_nd). intros m0. discriminate. }
  assert (Eout : flat_map pl_out (doc_plines lead es1)
                 ++ flat_map (fun j => map (subst_body c [] j) (flat_map bl_toks (flat_map elem_blines bodyEs))) (nseq 1 (Z.to_nat (Z.of_nat (S n))))
                 ++ body es2 ++ [tEOF] = ldoc_toks lead es).
  { rewrite Nat2Z.id, EB. rewrite (doc_out_junkfree lead es1 Hjf). rewrite (doc_plines_toks lead es1 Hshk1).
    unfold ldoc_toks, es. rewrite !body_app, body_concat_map.
    rewrite (flat_map_ext _ _ (fun j => subst_body_doc c j bodyEs Hfo)).
    rewrite <- !app_assoc. reflexivity. }
  rewrite <- Eout. rewrite <- Eout in Hdone.
  assert (Et : toks = flat_map pl_toks (doc_plines lead es1) ++ (mkT tokText c :: forw :: count ++ [nlt]) ++ flat_map bl_toks (flat_map elem_blines bodyEs)
                      ++ rofw :: skip ++ (nlt :: body es2 ++ [tEOF])).
  { rewrite Htoks, EB. rewrite (doc_plines_toks lead es1 Hshk1). rewrite <- !app_assoc. reflexivity. }
  rewrite Et.
  apply (counter_block_unrolls cfg 0%nat _ (doc_plines lead es1) c forw count (flat_map elem_blines bodyEs) rofw skip (body es2) syms (Z.of_nat (S n)));
    try assumption.
  - apply Hev. exact Hfront.
  - apply body_nonterm. exact Hok2.
Qed.
End Flat.
