(* C01Exec.v — one task of the literal model (Exec.exec) equals the reference
   step (Emi94.step_core): same core cell for cell, same successor tasks. *)
From GM Require Import Base Exec Emi94 VmArith C01Phase.
From Coq Require Import Lia ZifyN ZifyBool.
Open Scope N_scope.
Ltac Zify.zify_post_hook ::= Z.div_mod_to_equations.

Lemma div_lt_M M x y : x < M -> x / y < M.
Proof.
  intros Hx. destruct (N.eq_dec y 0) as [->|Hy].
  - destruct x; cbn; lia.
  - apply N.le_lt_trans with x; [|assumption].
    apply N.div_le_upper_bound; [assumption|]. nia.
Qed.
Lemma mod_lt_M' M x y : x < M -> x mod y < M.
Proof.
  intros Hx. destruct (N.eq_dec y 0) as [->|Hy].
  - destruct x; cbn; lia.
  - apply N.le_lt_trans with x; [|assumption]. now apply N.mod_le.
Qed.

Lemma setAB_comm i x y : setB (setA i x) y = setA (setB i y) x.
Proof. reflexivity. Qed.

Lemma instr_same_eqb x y : instr_same x y = instr_eqb x y.
Proof.
  unfold instr_same, instr_eqb.
  destruct (opcode_eqb (i_op x) (i_op y)), (opmode_eqb (i_md x) (i_md y)),
    (amode_eqb (i_am x) (i_am y)), (i_a x =? i_a y), (amode_eqb (i_bm x) (i_bm y)),
    (i_b x =? i_b y); reflexivity.
Qed.
Lemma sne_mI x y : sne_skip mI x y = negb (instr_eqb x y).
Proof.
  unfold sne_skip, instr_eqb.
  destruct (opcode_eqb (i_op x) (i_op y)), (opmode_eqb (i_md x) (i_md y)),
    (amode_eqb (i_am x) (i_am y)), (i_a x =? i_a y), (amode_eqb (i_bm x) (i_bm y)),
    (i_b x =? i_b y); reflexivity.
Qed.
Lemma if_negb {A} (b : bool) (x y : A) : (if negb b then x else y) = (if b then y else x).
Proof. destruct b; reflexivity. Qed.

Section Exec.
Variables M R W : N.
Variable wi : Z.
Hypothesis HM2 : 2 <= M.
Hypothesis HM : M <= 2 ^ 32.
Hypothesis HR : 1 <= R <= M.
Hypothesis HW : 1 <= W <= M.

Lemma phase_eq isB c pc md num :
  cwf M c -> pc < M -> num < M ->
  let '(c2, rp, wp, ir, _) := phase M R W wi isB c pc md num in
  let '(c2', rp', wp', ir') := eval_operand M R W c pc md num in
  c2 = c2' /\ rp = rp' /\ ir = ir' /\ (isB = true -> wp = wp') /\
  rp' < M /\ wp' < M /\ cwf M c2' /\ wf_i M ir'.
Proof.
  intros Hc Hpc Hnum.
  assert (Hr0 : fold M num R < M) by (apply fold_lt; lia).
  assert (Hw0 : fold M num W < M) by (apply fold_lt; lia).
  destruct md;
    try (match goal with
         | |- context [phase _ _ _ _ _ _ _ ?md _] =>
           let f := eval cbv in (match mode_field md with Some f => f | None => FA end) in
           let pre := eval cbv in (predec md) in
           let post := eval cbv in (postinc md) in
           pose proof (phase_ind_eq M R W HM2 HM HR HW f pre post c pc num Hc Hpc Hnum) as H
         end;
         cbv zeta in H; cbv beta iota in H;
         destruct H as (E1 & E2 & E3 & E4 & E5 & E6 & B1 & B2 & B3 & B4 & B5);
         unfold phase, eval_operand; cbn [mode_class mode_field predec postinc];
         cbv zeta; cbv beta iota;
         split; [exact E1|]; split; [exact E2|]; split; [exact E4|];
         split; [intros ->; exact E3|]; split; [exact B1|]; split; [exact B2|];
         split; [exact B4|exact B5]).
  - (* DIRECT *)
    unfold phase, eval_operand. cbn [mode_class mode_field]. cbv zeta.
    rewrite !(rfold_eq M R) by assumption. rewrite !(wfold_eq M W) by assumption.
    rewrite idx_eq by assumption.
    refine (conj eq_refl (conj eq_refl (conj eq_refl (conj (fun _ => eq_refl) (conj Hr0 (conj Hw0 (conj Hc _))))))).
    apply Hc, addr_lt; assumption.
  - (* IMMEDIATE *)
    unfold phase, eval_operand. cbn [mode_class mode_field].
    rewrite idx_eq by (try assumption; lia).
    unfold addr. rewrite N.add_0_r, N.mod_small by assumption.
    refine (conj eq_refl (conj eq_refl (conj eq_refl (conj (fun _ => eq_refl) (conj _ (conj _ (conj Hc _))))))); try lia.
    apply Hc; assumption.
Qed.

Ltac wfv :=
  cbv beta;
  match goal with
  | |- wf_i _ (get (upd _ _ _) _) => rewrite get_upd; wfv
  | |- wf_i _ (get (set _ _ _) _) => rewrite get_set; wfv
  | |- wf_i _ (if ?b then _ else _) => destruct b; wfv
  | |- wf_i _ (setA _ _) => apply wf_setA; wfv
  | |- wf_i _ (setB _ _) => apply wf_setB; wfv
  | |- wf_i _ (fset _ _ _) => apply wf_fset; wfv
  | |- wf_i _ (get _ _) => match goal with H : cwf _ ?c |- wf_i _ (get ?c _) => apply H; wfv end
  | |- _ mod ?M < ?M => apply N.mod_lt; lia
  | |- _ / _ < _ => apply div_lt_M; wfv
  | |- _ mod _ < _ => apply mod_lt_M'; wfv
  | |- i_a _ < _ => match goal with H : wf_i _ ?i |- i_a ?i < _ => exact (proj1 H) end
  | |- i_b _ < _ => match goal with H : wf_i _ ?i |- i_b ?i < _ => exact (proj2 H) end
  | |- addr _ _ _ < _ => apply addr_lt; assumption
  | |- fget _ _ < _ => apply wf_fget; wfv
  | _ => assumption
  end.

Ltac cwfv :=
  match goal with
  | |- cwf _ (upd _ _ _) => apply cwf_upd; [cwfv | wfv | wfv]
  | |- cwf _ (set _ _ _) => apply cwf_set; [cwfv | wfv]
  | |- cwf _ (if ?b then _ else _) => destruct b; cwfv
  | _ => assumption
  end.

Theorem exec_refines c pc :
  cwf M c -> pc < M ->
  let '(c', pushes, _) := exec M R W wi c pc in
  let '(c'', succs) := step_core M R W c pc in
  (forall a, get c' a = get c'' a) /\ pushes = succs /\ cwf M c'' /\
  Forall (fun x => x < M) succs.
Proof.
  intros Hc Hpc. unfold exec, step_core, step_core_g. fold (eval_operand M R W).
  set (IR := get c pc). assert (HIR : wf_i M IR) by (apply Hc; assumption).
  pose proof (phase_eq false c pc (i_am IR) (i_a IR) Hc Hpc (proj1 HIR)) as PA.
  destruct (phase M R W wi false c pc (i_am IR) (i_a IR)) as [[[[c1 rpa] wpa] ira] repA].
  destruct (eval_operand M R W c pc (i_am IR) (i_a IR)) as [[[c1' rpa'] wpa'] ira'].
  destruct PA as (-> & -> & -> & _ & Hrpa & _ & Hc1 & Hira).
  pose proof (phase_eq true c1' pc (i_bm IR) (i_b IR) Hc1 Hpc (proj2 HIR)) as PB.
  destruct (phase M R W wi true c1' pc (i_bm IR) (i_b IR)) as [[[[c2 rpb] wpb] irb] repB].
  destruct (eval_operand M R W c1' pc (i_bm IR) (i_b IR)) as [[[c2' rpb'] wpb'] irb'].
  destruct PB as (-> & -> & -> & Ewp & Hrpb & Hwpb & Hc2 & Hirb).
  rewrite (Ewp eq_refl). clear Ewp.
  rewrite !idx_eq by assumption.
  pose proof (M_lt_two64 M HM) as Mb.
  rewrite !add64_small by lia.
  set (w := addr M pc wpb'). set (jmp := addr M pc rpa').
  assert (Hw : w < M) by (apply addr_lt; assumption).
  assert (Hj : jmp < M) by (apply addr_lt; assumption).
  assert (Hn : (pc + 1) mod M < M) by (apply N.mod_lt; lia).
  assert (Hs : (pc + 2) mod M < M) by (apply N.mod_lt; lia).
  pose proof Hira as [Ha1 Ha2]. pose proof Hirb as [Hb1 Hb2].
  assert (Hgw : wf_i M (get c2' w)) by (apply Hc2; assumption).
  pose proof Hgw as [Hg1 Hg2].
  destruct (i_op IR); destruct (i_md IR); cbv zeta.
  all: unfold op_mov, op_arith, op_divlike, op_djn, write_pairs, pairs, tfields, all_pairs,
         jmz_jump, jmn_jump, cmp_skip, sne_skip, slt_skip;
       cbn [fold_left fst snd fset fget forallb existsb];
       rewrite ?(djn_test_eq M) by assumption; unfold nz;
       rewrite ?instr_same_eqb, ?andb_true_r, ?orb_false_r, ?negb_involutive.
  all: rewrite ?g_add_eq, ?g_sub_eq, ?g_mul_eq by assumption.
  all: repeat match goal with |- context [?x =? 0] => destruct (x =? 0) eqn:? end; cbn [negb orb andb].
  all: try (split; [intro a; reflexivity | split; [reflexivity | split; [cwfv | repeat constructor; assumption]]]).
  all: try (split; [intro a; rewrite !get_upd, ?N.eqb_refl; destruct (a =? w); reflexivity
                    | split; [reflexivity | split; [cwfv | repeat constructor; assumption]]]).
  all: try (split; [intro a; reflexivity | split; [reflexivity | split; [cwfv |
              repeat constructor; match goal with |- (if ?b then _ else _) < _ => destruct b end; assumption]]]).
  all: try (split; [intro a; reflexivity | split; [ unfold instr_eqb;
              repeat match goal with
                     | |- context [N.eqb ?x ?y] => destruct (N.eqb x y)
                     | |- context [opcode_eqb ?x ?y] => destruct (opcode_eqb x y)
                     | |- context [opmode_eqb ?x ?y] => destruct (opmode_eqb x y)
                     | |- context [amode_eqb ?x ?y] => destruct (amode_eqb x y)
                     end; reflexivity | split; [cwfv |
              repeat constructor; match goal with |- (if ?b then _ else _) < _ => destruct b end; assumption]]]).
  all: try (split; [intro a; rewrite !get_upd, ?N.eqb_refl; destruct (a =? w); [|reflexivity];
                     cbv beta; cbn [setA setB i_a i_b i_op i_md i_am i_bm];
                     rewrite ?dec1_eq by assumption; reflexivity
                    | split; [reflexivity | split; [cwfv | repeat constructor; assumption]]]).
Qed.
End Exec.
