(* SubstFuel.v — the substitute-until-nothing-changes loop of expandExpression
   (compile.go) ends within the fuel the model gives it.  A token "needs at most d
   passes" when it is not a word, or is a word whose EQU value consists of tokens
   that need at most d-1 passes (labels and unknown words need one pass: they become
   numbers or end the loop with an error).  One pass lowers the bound by one; at
   bound zero a pass changes nothing and the loop returns. *)
From GM Require Import Base Text Token Lexer Scanner ExprSpec ExprEval ForExpand Parser Sim Compile C03Proof C14Proof EquFuel.
From Coq Require Import Lia.
Open Scope N_scope.

Section Bound.
Variable values : symtab.

Fixpoint hb (d : nat) (t : token) : Prop :=
  match d with
  | O => t_typ t <> tokText
  | S d' => t_typ t <> tokText \/
            match sym_find (t_val t) values with Some v => Forall (hb d') v | None => True end
  end.

Lemma hb_mono d : forall t, hb d t -> hb (S d) t.
Proof.
  induction d as [|d IH]; intros t H.
  - left. exact H.
  - destruct H as [H|H]; [left; exact H|]. right. destruct (sym_find (t_val t) values) as [v|]; [|exact I].
    eapply Forall_impl; [|exact H]. apply IH.
Qed.
Lemma hb_le d d' t : (d <= d')%nat -> hb d t -> hb d' t.
Proof. intros Hle. induction Hle; [auto|]. intros H. apply hb_mono. auto. Qed.
End Bound.

Lemma expand_all_hb m c line d : forall l l',
  Forall (hb (c_values c) (S d)) l -> expand_all m c line l = Some l' -> Forall (hb (c_values c) d) l'.
Proof.
  induction l as [|t r IH]; intros l' H E; cbn [expand_all] in E.
  - inversion E; subst. constructor.
  - inversion H as [|x y Ht Hr]; subst.
    destruct (expand_tok m c line t) as [a|] eqn:Et; [|discriminate].
    destruct (expand_all m c line r) as [b|] eqn:Er; [|discriminate]. inversion E; subst.
    apply Forall_app. split; [|apply IH; [exact Hr|reflexivity]].
    unfold expand_tok in Et. destruct (t_typ t) eqn:Ety;
      try (inversion Et; subst; constructor; [|constructor]; destruct d; cbn [hb]; [rewrite Ety; discriminate|left; rewrite Ety; discriminate]).
    destruct Ht as [Ht|Ht]; [congruence|].
    destruct (sym_find (t_val t) (c_values c)) as [v|].
    + inversion Et; subst. exact Ht.
    + destruct (lab_find (t_val t) (c_labels c)); [|discriminate].
      assert (N0 : forall x, hb (c_values c) d (mkT tokSymbol x) /\ hb (c_values c) d (mkT tokNumber x)).
      { intros x. destruct d; cbn [hb t_typ]; split; try (left; discriminate); discriminate. }
      cbv zeta in Et. destruct (_ <? 0)%Z; inversion Et; subst; repeat constructor; apply N0.
Qed.

Lemma expand_all_fixed m c line : forall l, Forall (hb (c_values c) 0) l -> expand_all m c line l = Some l.
Proof.
  induction l as [|t r IH]; intros H; cbn [expand_all]; [reflexivity|].
  inversion H as [|x y Ht Hr]; subst. rewrite (IH Hr). cbn [hb] in Ht.
  unfold expand_tok. destruct (t_typ t); try reflexivity. congruence.
Qed.

Theorem expand_expression_ends m c line d : forall f l,
  Forall (hb (c_values c) d) l -> (d < f)%nat -> expand_expression f m c line l <> None.
Proof.
  induction d as [|d IH]; intros f l H Hf; (destruct f as [|f]; [lia|]); cbn [expand_expression]; rewrite expand_pass_tokenwise.
  - rewrite (expand_all_fixed m c line l H). rewrite toks_eqb_refl. discriminate.
  - destruct (expand_all m c line l) as [out|] eqn:E; [|discriminate].
    destruct (toks_eqb l out); [discriminate|].
    apply IH; [|lia]. apply (expand_all_hb m c line d l out H E).
Qed.

(* ---------- the bound that the cycle check establishes ---------- *)
Lemma mem_text_in x l : mem_text x l = true -> In x l.
Proof.
  unfold mem_text. intros H. apply existsb_exists in H. destruct H as [y [Hy E]].
  apply C10Proof.text_eqb_eq in E. subst. exact Hy.
Qed.
Lemma mem_text_notin x l : mem_text x l = false -> ~ In x l.
Proof.
  intros H Hin. unfold mem_text in H. assert (existsb (text_eqb x) l = true); [|congruence].
  apply existsb_exists. exists x. split; [exact Hin|apply text_eqb_refl].
Qed.

Definition key_step (values : symtab) (refs : list text) (t : token) : list text :=
  match t_typ t with
  | tokText => if sym_has (t_val t) values && negb (mem_text (t_val t) refs) then refs ++ [t_val t] else refs
  | _ => refs
  end.
Lemma key_refs_fold values toks : key_refs values toks = fold_left (key_step values) toks [].
Proof. reflexivity. Qed.
Lemma key_fold_keeps values toks : forall acc x, In x acc -> In x (fold_left (key_step values) toks acc).
Proof.
  induction toks as [|t r IH]; intros acc x H; cbn [fold_left]; [exact H|]. apply IH.
  unfold key_step. destruct (t_typ t); try exact H. destruct (_ && _); [apply in_or_app; left; exact H|exact H].
Qed.
Lemma key_fold_has values toks : forall acc t, In t toks -> t_typ t = tokText -> sym_has (t_val t) values = true ->
  In (t_val t) (fold_left (key_step values) toks acc).
Proof.
  induction toks as [|t0 r IH]; intros acc t Hin Ht Hs; [destruct Hin|]. cbn [fold_left].
  destruct Hin as [->|Hin]; [|apply IH; assumption].
  apply key_fold_keeps. unfold key_step. rewrite Ht, Hs. cbn [andb].
  destruct (mem_text (t_val t) acc) eqn:Em; cbn [negb]; [apply mem_text_in; exact Em|apply in_or_app; right; left; reflexivity].
Qed.

Definition bg (all : symtab) (l : symtab) : graph :=
  flat_map (fun kv => match snd kv with [] => [] | toks => [(fst kv, key_refs all toks)] end) l.
Lemma build_graph_bg values : build_graph values = bg values values.
Proof. reflexivity. Qed.
Lemma bg_find all : forall l k v, sym_find k l = Some v -> v <> [] -> g_find k (bg all l) = Some (key_refs all v).
Proof.
  induction l as [|[k' v'] t IH]; intros k v H Hne; [discriminate|]. cbn [sym_find] in H. unfold bg. cbn [flat_map fst snd].
  destruct (text_eqb k k') eqn:E.
  - inversion H; subst. destruct v as [|t0 v0]; [congruence|]. cbn [app g_find]. rewrite E. reflexivity.
  - destruct v' as [|t0 v0]; cbn [app g_find]; [|rewrite E]; apply IH; assumption.
Qed.

Lemma nc_go_false2 rec node visited refs : nc_go rec node visited refs = Some false ->
  forall r, In r refs -> mem_text r (visited ++ [node]) = false /\ rec r (visited ++ [node]) = Some false.
Proof.
  induction refs as [|x t IH]; intros H r Hin; [destruct Hin|].
  cbn [nc_go] in H. destruct (mem_text x (visited ++ [node])) eqn:Em; [discriminate|].
  destruct (rec x (visited ++ [node])) as [[|]|] eqn:E; try discriminate.
  destruct Hin as [<-|Hin]; [split; assumption|apply IH; assumption].
Qed.

Section Acyclic.
Variable values : symtab.
Let g := build_graph values.
Definition KB (r : nat) (k : text) : Prop := forall v, sym_find k values = Some v -> Forall (hb values r) v.

Lemma walk_bounds f : forall node visited,
  node_cycle f g node visited = Some false -> NoDup visited -> incl visited (map fst g) -> ~ In node visited ->
  KB (length g - length visited) node.
Proof.
  induction f as [|f IH]; intros node visited H Hnd Hinc Hnot v Hv; [discriminate H|].
  destruct v as [|t0 v0]; [constructor|].
  rewrite node_cycle_S in H.
  assert (Eg : g_find node g = Some (key_refs values (t0 :: v0))).
  { unfold g. rewrite build_graph_bg. apply bg_find; [exact Hv|discriminate]. }
  rewrite Eg in H. pose proof (nc_go_false2 _ _ _ _ H) as Hr.
  set (V' := visited ++ [node]) in *.
  assert (Hnd' : NoDup V').
  { unfold V'. apply NoDup_app_snoc || idtac.
    apply (Permutation.Permutation_NoDup (l := node :: visited)); [apply Permutation.Permutation_cons_append|].
    constructor; assumption. }
  assert (Hinc' : incl V' (map fst g)).
  { unfold V'. intros x Hx. apply in_app_or in Hx. destruct Hx as [Hx|[<-|[]]]; [apply Hinc; exact Hx|].
    apply (g_find_key node g _ Eg). }
  assert (Hlen : (length V' <= length g)%nat).
  { rewrite <- (map_length fst g). apply NoDup_incl_length; assumption. }
  assert (Hv' : length V' = S (length visited)) by (unfold V'; rewrite app_length; cbn [length]; lia).
  replace (length g - length visited)%nat with (S (length g - length V')) by lia.
  apply Forall_forall. intros t Ht. cbn [hb].
  destruct (t_typ t) eqn:Ety; try (left; discriminate). right.
  destruct (sym_find (t_val t) values) as [v'|] eqn:Es; [|exact I].
  assert (Hin : In (t_val t) (key_refs values (t0 :: v0))).
  { rewrite key_refs_fold. apply key_fold_has; [exact Ht|exact Ety|]. unfold sym_has. rewrite Es. reflexivity. }
  destruct (Hr _ Hin) as [Hm Hc].
  apply (IH (t_val t) V' Hc Hnd' Hinc' (mem_text_notin _ _ Hm) v' Es).
Qed.

(* after a successful cycle check every token needs at most |graph|+1 passes *)
Lemma acyclic_bound : graph_has_cycle g = Some false -> forall t, hb values (S (length g)) t.
Proof.
  intros Hc t. rewrite graph_has_cycle_eq in Hc. pose proof (gc_go_false g g Hc) as Hk.
  cbn [hb]. destruct (t_typ t) eqn:Ety; try (left; discriminate). right.
  destruct (sym_find (t_val t) values) as [v|] eqn:Es; [|exact I].
  destruct v as [|t0 v0]; [constructor|].
  assert (Eg : g_find (t_val t) g = Some (key_refs values (t0 :: v0))).
  { unfold g. rewrite build_graph_bg. apply bg_find; [exact Es|discriminate]. }
  pose proof (Hk (t_val t) (g_find_key _ _ _ Eg)) as Hn.
  pose proof (walk_bounds _ (t_val t) [] Hn (NoDup_nil _) (incl_nil_l _) (fun x => x) _ Es) as B.
  cbn [length] in B. replace (length g - 0)%nat with (length g) in B by lia. exact B.
Qed.
End Acyclic.

(* expandExpression over a symbol table that passed the cycle check ends within its fuel *)
Theorem expand_expression_acyclic m c line l :
  graph_has_cycle (build_graph (c_values c)) = Some false ->
  expand_expression (expand_fuel c) m c line l <> None.
Proof.
  intros Hc. apply (expand_expression_ends m c line (S (length (build_graph (c_values c))))).
  - apply Forall_forall. intros t _. apply acyclic_bound. exact Hc.
  - unfold expand_fuel. pose proof (build_graph_length (c_values c)). lia.
Qed.

(* ---------- the resolved table: values free of EQU names ---------- *)
Lemma sym_find_set_same k v m : sym_find k (sym_set k v m) = Some v.
Proof.
  induction m as [|[k' v'] t IH]; cbn [sym_set sym_find]; [rewrite text_eqb_refl; reflexivity|].
  destruct (text_eqb k k') eqn:E; cbn [sym_find]; [rewrite text_eqb_refl; reflexivity|rewrite E; exact IH].
Qed.
Lemma sym_find_set_other k k2 v m : text_eqb k2 k = false -> sym_find k2 (sym_set k v m) = sym_find k2 m.
Proof.
  intros Hne. induction m as [|[k' v'] t IH]; cbn [sym_set sym_find]; [rewrite Hne; reflexivity|].
  destruct (text_eqb k k') eqn:E; cbn [sym_find].
  - apply C10Proof.text_eqb_eq in E. subst k'. rewrite Hne. reflexivity.
  - destruct (text_eqb k2 k'); [reflexivity|exact IH].
Qed.

Section Resolved.
Variable values : symtab.
Let g := build_graph values.

Definition key_free (v : list token) : Prop :=
  Forall (fun t => t_typ t = tokText -> sym_has (t_val t) values = false) v.
Definition KF (res : symtab) : Prop := forall k v, sym_find k res = Some v -> key_free v.
Definition SUB (res : symtab) : Prop := forall k, sym_has k res = true -> sym_has k values = true.
Definition grows (res res' : symtab) : Prop := forall k, sym_has k res = true -> sym_has k res' = true.

Definition ev_spec (rec : text -> symtab -> option (option symtab)) : Prop :=
  forall key res res', KF res -> SUB res -> rec key res = Some (Some res') ->
    KF res' /\ SUB res' /\ grows res res' /\ sym_has key res' = true.

Lemma ev_go_spec rec : ev_spec rec -> forall deps res r2, KF res -> SUB res ->
  ev_go rec deps res = Some (Some r2) ->
  KF r2 /\ SUB r2 /\ grows res r2 /\ forall d, In d deps -> sym_has d r2 = true.
Proof.
  intros Hrec. induction deps as [|d t IH]; intros res r2 HK HS E; cbn [ev_go] in E.
  - inversion E; subst. split; [exact HK|]. split; [exact HS|]. split; [intros k Hk; exact Hk|intros d []].
  - destruct (sym_has d res) eqn:Ed.
    + destruct (IH res r2 HK HS E) as [A [B [C D]]]. repeat split; auto.
      intros d0 [<-|Hin]; [apply C; exact Ed|apply D; exact Hin].
    + destruct (rec d res) as [[res1|]|] eqn:Er; try discriminate E.
      destruct (Hrec d res res1 HK HS Er) as [A1 [B1 [C1 D1]]].
      destruct (IH res1 r2 A1 B1 E) as [A [B [C D]]]. repeat split; auto.
      * intros k Hk. apply C. apply C1. exact Hk.
      * intros d0 [<-|Hin]; [apply C; exact D1|apply D; exact Hin].
Qed.

Lemma subst_key_free res value : KF res ->
  (forall t, In t value -> t_typ t = tokText -> sym_has (t_val t) values = true -> sym_has (t_val t) res = true) ->
  key_free (subst_resolved res value).
Proof.
  intros HK Hd. unfold subst_resolved, key_free. apply Forall_forall. intros u Hu.
  apply in_flat_map in Hu. destruct Hu as [t [Ht Hin]].
  destruct (t_typ t) eqn:Ety; try (destruct Hin as [<-|[]]; intros X; congruence).
  destruct (sym_find (t_val t) res) as [v|] eqn:Es.
  - pose proof (HK _ _ Es) as Hv. unfold key_free in Hv. rewrite Forall_forall in Hv. apply Hv. exact Hin.
  - destruct Hin as [<-|[]]. intros _. destruct (sym_has (t_val t) values) eqn:Eh; [|reflexivity].
    pose proof (Hd t Ht Ety Eh) as X. unfold sym_has in X. rewrite Es in X. discriminate X.
Qed.

Lemma expand_value_spec f : ev_spec (expand_value f values g).
Proof.
  induction f as [|f IH]; intros key res res' HK HS E; [discriminate E|].
  rewrite expand_value_S in E.
  destruct (sym_find key values) as [value|] eqn:Ev; [|discriminate E].
  destruct (sym_has key res) eqn:Eh.
  - inversion E; subst. split; [exact HK|]. split; [exact HS|]. split; [intros k Hk; exact Hk|exact Eh].
  - set (deps := match g_find key g with Some d => d | None => [] end) in *.
    destruct (ev_go (expand_value f values g) deps res) as [[r2|]|] eqn:Eg; try discriminate E.
    inversion E; subst. clear E.
    destruct (ev_go_spec _ IH deps res r2 HK HS Eg) as [A [B [C D]]].
    assert (Hhas : forall k, sym_has k (sym_set key (subst_resolved r2 value) r2) =
                             if text_eqb k key then true else sym_has k r2).
    { intros k. unfold sym_has. destruct (text_eqb k key) eqn:Ek.
      - apply C10Proof.text_eqb_eq in Ek. subst k. rewrite sym_find_set_same. reflexivity.
      - rewrite sym_find_set_other by exact Ek. reflexivity. }
    repeat split.
    + intros k v Hk. destruct (text_eqb k key) eqn:Ek.
      * apply C10Proof.text_eqb_eq in Ek. subst k. rewrite sym_find_set_same in Hk. inversion Hk; subst.
        apply subst_key_free; [exact A|]. intros t Ht Ety Es. apply D.
        destruct value as [|t0 v0]; [destruct Ht|].
        assert (Egf : g_find key g = Some (key_refs values (t0 :: v0))).
        { unfold g. rewrite build_graph_bg. apply bg_find; [exact Ev|discriminate]. }
        unfold deps. rewrite Egf. rewrite key_refs_fold. apply key_fold_has; assumption.
      * rewrite sym_find_set_other in Hk by exact Ek. apply (A k v Hk).
    + intros k Hk. rewrite Hhas in Hk. destruct (text_eqb k key) eqn:Ek.
      * apply C10Proof.text_eqb_eq in Ek. subst k. unfold sym_has. rewrite Ev. reflexivity.
      * apply B. exact Hk.
    + intros k Hk. rewrite Hhas. destruct (text_eqb k key); [reflexivity|]. apply C. exact Hk.
    + rewrite Hhas, text_eqb_refl. reflexivity.
Qed.

Lemma ee_go_spec : forall ks res r2, KF res -> SUB res -> ee_go values g ks res = Some (Some r2) -> KF r2 /\ SUB r2.
Proof.
  induction ks as [|[k v] t IH]; intros res r2 HK HS E; cbn [ee_go] in E.
  - inversion E; subst. auto.
  - destruct (sym_has k res); [apply (IH res r2 HK HS E)|].
    destruct (expand_value (S (S (length values))) values g k res) as [[res1|]|] eqn:Er; try discriminate E.
    destruct (expand_value_spec _ k res res1 HK HS Er) as [A [B _]]. apply (IH res1 r2 A B E).
Qed.

(* in the table expandExpressions returns, no value mentions a name of the table: two passes settle any expression *)
Lemma resolved_bound resolved : expand_expressions values g = Some (Some resolved) -> forall t, hb resolved 2 t.
Proof.
  intros E t. rewrite expand_expressions_eq in E.
  destruct (ee_go_spec values [] resolved) as [A B]; [intros k v H; discriminate H|intros k H; discriminate H|exact E|].
  cbn [hb]. destruct (t_typ t) eqn:Ety; try (left; discriminate). right.
  destruct (sym_find (t_val t) resolved) as [v|] eqn:Es; [|exact I].
  pose proof (A _ _ Es) as Hv. unfold key_free in Hv. eapply Forall_impl; [|exact Hv].
  intros u Hu. cbn beta in Hu. destruct (t_typ u) eqn:Eu; try (left; discriminate). right.
  destruct (sym_find (t_val u) resolved) as [v2|] eqn:Es2; [|exact I].
  exfalso. specialize (Hu eq_refl). assert (X : sym_has (t_val u) resolved = true) by (unfold sym_has; rewrite Es2; reflexivity).
  apply B in X. congruence.
Qed.
End Resolved.

Theorem expand_expression_resolved m values resolved labels se line l :
  expand_expressions values (build_graph values) = Some (Some resolved) ->
  expand_expression (expand_fuel (mkC resolved labels se)) m (mkC resolved labels se) line l <> None.
Proof.
  intros E. apply (expand_expression_ends m (mkC resolved labels se) line 2).
  - apply Forall_forall. intros t _. cbn [c_values]. apply (resolved_bound values resolved E).
  - unfold expand_fuel. lia.
Qed.
