(* C08Flat.v — the simplest blocks, closed: a FOR block without labels or counter whose body is a
   run of unlabelled lines (no nested FOR, no ROF) is replaced, in one pass, by its body written out
   count times.  An instance of C08Passes.unrolls built for every such block, not for an example. *)
From GM Require Import Base Text Token Lexer Scanner ExprSpec ExprEval ForExpand Parser Sim Compile C05Lexer C05Expander C05Fuel
     C10Proof C14Proof ScanProof C08Proof C08Block C08Scan C08Passes.
From Coq Require Import Lia.
Open Scope N_scope.

(* a line of such a body: no labels; its first word is neither FOR nor ROF nor a label; no word is empty *)
Definition flat_bline (b : bline) : Prop :=
  bl_labels b = [] /\ Forall plain_tok (bl_rest b) /\
  (exists mk, wclass (bl_first b) 0 = Some (true, O, mk)) /\
  Forall (fun t => t_typ t = tokText -> t_val t <> []) (bl_rest b).

Lemma flat_bline_ok b : flat_bline b -> bline_ok b.
Proof. intros [Hl [Hr _]]. split; [rewrite Hl; constructor|exact Hr]. Qed.

Lemma flat_out b : flat_bline b -> bl_out b true = bl_toks b.
Proof. intros [Hl _]. unfold bl_out, bl_toks. rewrite Hl. reflexivity. Qed.

Lemma flat_body_run : forall bs at_ content, Forall flat_bline bs ->
  exists at', body_run bs 0 at_ content = Some (O, at', content ++ flat_map bl_toks bs).
Proof.
  induction bs as [|b bs IH]; intros at_ content H.
  - exists at_. cbn [body_run flat_map]. rewrite app_nil_r. reflexivity.
  - inversion H as [|x y Hb Hbs]; subst. cbn [body_run flat_map].
    destruct Hb as [Hl [Hr [[mk Hw] Hn]]]. rewrite Hw.
    destruct (IH (marked 0 at_ mk (length content)) (content ++ bl_out b true) Hbs) as [at' E].
    exists at'. rewrite E. rewrite (flat_out b) by (repeat split; try assumption; exists mk; exact Hw).
    rewrite <- app_assoc. reflexivity.
Qed.

(* without line labels the place for them does not matter *)
Lemma emit_first_nolabs cl ll body : forall j at_, emit_first j at_ [] cl ll body = map (subst_body cl ll 1) body.
Proof.
  induction body as [|t r IH]; intros j at_; cbn [emit_first map]; [reflexivity|]. rewrite IH.
  destruct at_ as [a|]; [destruct (Nat.eqb a j)|]; reflexivity.
Qed.
Lemma emit_body_nolabs n at_ cl body :
  emit_body n at_ cl [] body = flat_map (fun j => map (subst_body cl [] j) body) (nseq 1 n).
Proof.
  destruct n as [|n]; [destruct at_; reflexivity|].
  rewrite emit_body_unroll. cbn [map]. rewrite emit_first_nolabs, nseq_S. reflexivity.
Qed.
(* without a counter nothing is substituted *)
Lemma subst_nocounter j t : (t_typ t = tokText -> t_val t <> []) -> subst_body [] [] j t = t.
Proof.
  intros H. unfold subst_body. destruct (t_typ t) eqn:E; try reflexivity.
  rewrite text_eqb_neq; [reflexivity|]. apply H. reflexivity.
Qed.
Lemma flat_texts bs : Forall flat_bline bs -> Forall (fun t => t_typ t = tokText -> t_val t <> []) (flat_map bl_toks bs).
Proof.
  induction 1 as [|b bs [Hl [_ [_ Hn]]] _ IH]; [constructor|]. cbn [flat_map]. apply Forall_app. split; [|exact IH].
  unfold bl_toks. rewrite Hl. cbn [lbl_seg flat_map app]. apply Forall_app. split; [exact Hn|].
  constructor; [intros X; discriminate X|constructor].
Qed.
Lemma emit_flat n at_ content : Forall (fun t => t_typ t = tokText -> t_val t <> []) content ->
  emit_body n at_ [] [] content = flat_map (fun _ : N => content) (nseq 1 n).
Proof.
  intros H. rewrite emit_body_nolabs. generalize (nseq 1 n). intros l.
  induction l as [|j l IH]; [reflexivity|]. cbn [flat_map]. rewrite IH. f_equal.
  clear IH. induction H as [|t r Ht _ IHr]; [reflexivity|]. cbn [map]. rewrite IHr, (subst_nocounter j t Ht). reflexivity.
Qed.

Theorem flat_block_unrolls cfg k final pre forw es body rofw skip rest syms v :
  Forall pline_ok pre ->
  t_typ forw = tokText -> tok_is_pseudo forw = true -> lower_is (t_val forw) "for" = true -> Forall plain_tok es ->
  front_symbols pre = Some syms ->
  expand_and_evaluate (filter noncomment es) (with_constants cfg syms) = Some (EOk v) ->
  Forall flat_bline body ->
  t_typ rofw = tokText -> tok_is_pseudo rofw = true -> lower_is (t_val rofw) "for" = false -> lower_is (t_val rofw) "rof" = true ->
  Forall plain_tok skip -> Forall nonterm rest ->
  let out := flat_map pl_out pre ++ flat_map (fun _ : N => flat_map bl_toks body) (nseq 1 (Z.to_nat v)) ++ rest ++ [tEOF] in
  unrolls cfg k out final ->
  unrolls cfg (S k) (flat_map pl_toks pre ++ (forw :: es ++ [nlt]) ++ flat_map bl_toks body ++ rofw :: skip ++ (nlt :: rest ++ [tEOF])) final.
Proof.
  intros Hpre Hft Hfp Hff Hes Hsy Hev Hbody Hrt Hrp Hrf Hrr Hskip Hrest out Hout.
  destruct (flat_body_run body None [] Hbody) as [at' Hrun]. cbn [app] in Hrun.
  pose proof (U_step cfg k pre [] forw es body [] rofw skip rest tEOF v at' (flat_map bl_toks body) syms final
                Hpre (Forall_nil _) Hft Hfp Hff Hes Hsy Hev) as Hstep.
  cbn [plbl_seg lbl_seg flat_map app map last init_list] in Hstep.
  apply Hstep; try assumption; try reflexivity.
  - eapply Forall_impl; [apply flat_bline_ok|exact Hbody].
  - constructor.
  - rewrite (emit_flat _ _ _ (flat_texts body Hbody)). exact Hout.
Qed.

(* the comment idiom: a block without labels or counter whose count is not positive disappears, whatever its body is
   (any lines, nested blocks included, as long as the body is one: body_run finds its closing ROF) *)
Theorem zero_block_unrolls cfg k final pre forw es body cls rofw skip rest syms v d_at content' :
  Forall pline_ok pre ->
  t_typ forw = tokText -> tok_is_pseudo forw = true -> lower_is (t_val forw) "for" = true -> Forall plain_tok es ->
  front_symbols pre = Some syms ->
  expand_and_evaluate (filter noncomment es) (with_constants cfg syms) = Some (EOk v) -> (v <= 0)%Z ->
  Forall bline_ok body -> body_run body 0 None [] = Some (O, d_at, content') ->
  Forall (fun vc => is_label (fst vc)) cls ->
  t_typ rofw = tokText -> tok_is_pseudo rofw = true -> lower_is (t_val rofw) "for" = false -> lower_is (t_val rofw) "rof" = true ->
  Forall plain_tok skip -> Forall nonterm rest ->
  let out := flat_map pl_out pre ++ rest ++ [tEOF] in
  unrolls cfg k out final ->
  unrolls cfg (S k) (flat_map pl_toks pre ++ (forw :: es ++ [nlt]) ++ flat_map bl_toks body ++ lbl_seg cls ++ rofw :: skip ++ (nlt :: rest ++ [tEOF])) final.
Proof.
  intros Hpre Hft Hfp Hff Hes Hsy Hev Hv Hbody Hrun Hcls Hrt Hrp Hrf Hrr Hskip Hrest out Hout.
  pose proof (U_step cfg k pre [] forw es body cls rofw skip rest tEOF v d_at content' syms final
                Hpre (Forall_nil _) Hft Hfp Hff Hes Hsy Hev Hbody Hrun Hcls Hrt Hrp Hrf Hrr Hskip Hrest eq_refl) as Hstep.
  cbn [plbl_seg flat_map app map last init_list] in Hstep.
  apply Hstep.
  replace (Z.to_nat v) with O by lia. unfold emit_body. cbn [map]. destruct d_at; exact Hout.
Qed.

(* ---------- the same with a counter: `c FOR count` ---------- *)
Definition cnt_bline (b : bline) : Prop :=
  bl_labels b = [] /\ Forall plain_tok (bl_rest b) /\ (exists mk, wclass (bl_first b) 0 = Some (true, O, mk)).

Lemma cnt_body_run : forall bs at_ content, Forall cnt_bline bs ->
  exists at', body_run bs 0 at_ content = Some (O, at', content ++ flat_map bl_toks bs).
Proof.
  induction bs as [|b bs IH]; intros at_ content H.
  - exists at_. cbn [body_run flat_map]. rewrite app_nil_r. reflexivity.
  - inversion H as [|x y Hb Hbs]; subst. cbn [body_run flat_map].
    destruct Hb as [Hl [Hr [mk Hw]]]. rewrite Hw.
    destruct (IH (marked 0 at_ mk (length content)) (content ++ bl_out b true) Hbs) as [at' E].
    exists at'. rewrite E. unfold bl_out, bl_toks. rewrite Hl. cbn [map lbl_seg flat_map app].
    rewrite <- app_assoc. reflexivity.
Qed.

Theorem counter_block_unrolls cfg k final pre c forw es body rofw skip rest syms v :
  Forall pline_ok pre -> is_label c ->
  t_typ forw = tokText -> tok_is_pseudo forw = true -> lower_is (t_val forw) "for" = true -> Forall plain_tok es ->
  front_symbols pre = Some syms ->
  expand_and_evaluate (filter noncomment es) (with_constants cfg syms) = Some (EOk v) ->
  Forall cnt_bline body ->
  t_typ rofw = tokText -> tok_is_pseudo rofw = true -> lower_is (t_val rofw) "for" = false -> lower_is (t_val rofw) "rof" = true ->
  Forall plain_tok skip -> Forall nonterm rest ->
  let out := flat_map pl_out pre ++ flat_map (fun j => map (subst_body c [] j) (flat_map bl_toks body)) (nseq 1 (Z.to_nat v)) ++ rest ++ [tEOF] in
  unrolls cfg k out final ->
  unrolls cfg (S k) (flat_map pl_toks pre ++ (mkT tokText c :: forw :: es ++ [nlt]) ++ flat_map bl_toks body ++ rofw :: skip ++ (nlt :: rest ++ [tEOF])) final.
Proof.
  intros Hpre Hc Hft Hfp Hff Hes Hsy Hev Hbody Hrt Hrp Hrf Hrr Hskip Hrest out Hout.
  destruct (cnt_body_run body None [] Hbody) as [at' Hrun]. cbn [app] in Hrun.
  assert (Hhl : plbl_ok [(c, @nil token)]) by (constructor; [split; [exact Hc|constructor]|constructor]).
  pose proof (U_step cfg k pre [(c, [])] forw es body [] rofw skip rest tEOF v at' (flat_map bl_toks body) syms final
                Hpre Hhl Hft Hfp Hff Hes Hsy Hev) as Hstep.
  cbn [plbl_seg lbl_seg flat_map app map last init_list fst snd] in Hstep.
  apply Hstep; try assumption; try reflexivity.
  - eapply Forall_impl; [|exact Hbody]. intros b [Hl [Hr _]]. split; [rewrite Hl; constructor|exact Hr].
  - constructor.
  - rewrite emit_body_nolabs. exact Hout.
Qed.
