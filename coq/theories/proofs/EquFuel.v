(* EquFuel.v — the EQU machinery of expr.go / graph.go never runs out of the fuel the
   models give it: when the cycle check answers "no cycle", the memoised expansion
   of the EQU values (expandExpressions / expandValue) ends, so ExpandAndEvaluate
   (the FOR count) always ends. *)
From GM Require Import Base Text Token Lexer Scanner ExprSpec ExprEval C14Proof.
From Coq Require Import Lia.
Open Scope N_scope.

(* ---------- the anonymous inner loops, named ---------- *)
Definition nc_go (rec : text -> list text -> option bool) (node : text) (visited : list text) : list text -> option bool :=
  fix go (refs : list text) : option bool :=
  match refs with
  | [] => Some false
  | r :: t =>
    if mem_text r (visited ++ [node]) then Some true
    else match rec r (visited ++ [node]) with
         | None => None
         | Some true => Some true
         | Some false => go t
         end
  end.
Lemma node_cycle_S f g node visited :
  node_cycle (S f) g node visited =
  match g_find node g with None => Some false | Some refs => nc_go (node_cycle f g) node visited refs end.
Proof. reflexivity. Qed.

Definition ev_go (rec : text -> symtab -> option (option symtab)) : list text -> symtab -> option (option symtab) :=
  fix go (deps : list text) (res : symtab) : option (option symtab) :=
  match deps with
  | [] => Some (Some res)
  | d :: t => if sym_has d res then go t res
              else match rec d res with
                   | Some (Some res') => go t res'
                   | x => x
                   end
  end.
Lemma expand_value_S f values g key resolved :
  expand_value (S f) values g key resolved =
  match sym_find key values with
  | None => Some None
  | Some value =>
    if sym_has key resolved then Some (Some resolved)
    else match ev_go (expand_value f values g) (match g_find key g with Some d => d | None => [] end) resolved with
         | Some (Some res) => Some (Some (sym_set key (subst_resolved res value) res))
         | x => x
         end
  end.
Proof. reflexivity. Qed.

Definition ee_go (values : symtab) (g : graph) : symtab -> symtab -> option (option symtab) :=
  fix go (ks : symtab) (res : symtab) : option (option symtab) :=
  match ks with
  | [] => Some (Some res)
  | (k, _) :: t => if sym_has k res then go t res
                   else match expand_value (S (S (length values))) values g k res with
                        | Some (Some res') => go t res'
                        | x => x
                        end
  end.
Lemma expand_expressions_eq values g : expand_expressions values g = ee_go values g values [].
Proof. reflexivity. Qed.

Definition gc_go (g : graph) : graph -> option bool :=
  fix go (ks : graph) : option bool :=
  match ks with
  | [] => Some false
  | (k, _) :: t => match node_cycle (S (S (length g))) g k [] with
                   | None => None
                   | Some true => Some true
                   | Some false => go t
                   end
  end.
Lemma graph_has_cycle_eq g : graph_has_cycle g = gc_go g g.
Proof. reflexivity. Qed.

(* ---------- a cycle-free walk bounds the recursion of the expansion ---------- *)
Lemma nc_go_false rec node visited refs : nc_go rec node visited refs = Some false ->
  forall r, In r refs -> rec r (visited ++ [node]) = Some false.
Proof.
  induction refs as [|x t IH]; intros H r Hin; [destruct Hin|].
  cbn [nc_go] in H. destruct (mem_text x (visited ++ [node])); [discriminate|].
  destruct (rec x (visited ++ [node])) as [[|]|] eqn:E; try discriminate.
  destruct Hin as [<-|Hin]; [exact E|apply IH; assumption].
Qed.

Lemma expand_value_total values g f : forall node visited,
  node_cycle f g node visited = Some false ->
  forall f' res, (f <= f')%nat -> expand_value f' values g node res <> None.
Proof.
  induction f as [|f IH]; intros node visited H f' res Hle; [discriminate H|].
  destruct f' as [|f']; [lia|]. rewrite expand_value_S. rewrite node_cycle_S in H.
  destruct (sym_find node values) as [value|]; [|discriminate].
  destruct (sym_has node res); [discriminate|].
  destruct (g_find node g) as [refs|] eqn:Eg.
  - pose proof (nc_go_false _ _ _ _ H) as Hr.
    assert (G : forall deps res0, incl deps refs -> ev_go (expand_value f' values g) deps res0 <> None).
    { induction deps as [|d t IHd]; intros res0 Hi; cbn [ev_go]; [discriminate|].
      assert (Hit : incl t refs) by (intros x Hx; apply Hi; right; exact Hx).
      destruct (sym_has d res0); [apply IHd; exact Hit|].
      pose proof (IH d (visited ++ [node]) (Hr d (Hi d (or_introl eq_refl))) f' res0 ltac:(lia)) as Hd.
      destruct (expand_value f' values g d res0) as [[res'|]|]; [apply IHd; exact Hit|discriminate|congruence]. }
    specialize (G refs res (incl_refl _)).
    destruct (ev_go (expand_value f' values g) refs res) as [[r2|]|]; [discriminate|discriminate|congruence].
  - cbn [ev_go]. discriminate.
Qed.

Lemma gc_go_false g ks : gc_go g ks = Some false ->
  forall k, In k (map fst ks) -> node_cycle (S (S (length g))) g k [] = Some false.
Proof.
  induction ks as [|[k0 v0] t IH]; intros H k Hin; [destruct Hin|].
  cbn [gc_go] in H. destruct (node_cycle (S (S (length g))) g k0 []) as [[|]|] eqn:E; try discriminate.
  destruct Hin as [<-|Hin]; [exact E|apply IH; assumption].
Qed.

Lemma flat_map_short {A B} (f : A -> list B) l : (forall x, length (f x) <= 1)%nat -> (length (flat_map f l) <= length l)%nat.
Proof.
  intros H. induction l as [|x t IH]; [cbn; lia|]. cbn [flat_map]. rewrite app_length. specialize (H x). cbn [length]. lia.
Qed.
Lemma build_graph_length values : (length (build_graph values) <= length values)%nat.
Proof. unfold build_graph. apply flat_map_short. intros [k v]. cbn [snd]. destruct v; cbn [length]; lia. Qed.

Theorem expand_expressions_total values g :
  graph_has_cycle g = Some false -> (length g <= length values)%nat -> expand_expressions values g <> None.
Proof.
  intros Hc Hl. rewrite expand_expressions_eq. rewrite graph_has_cycle_eq in Hc.
  pose proof (gc_go_false g g Hc) as Hk.
  assert (E1 : forall k res, expand_value (S (S (length values))) values g k res <> None).
  { intros k res. destruct (g_find k g) as [refs|] eqn:Eg.
    - apply (expand_value_total values g (S (S (length g))) k []); [|lia].
      apply Hk. apply (g_find_key k g refs Eg).
    - rewrite expand_value_S. destruct (sym_find k values); [|discriminate].
      destruct (sym_has k res); [discriminate|]. rewrite Eg. cbn [ev_go]. discriminate. }
  assert (G : forall ks res, ee_go values g ks res <> None); [|apply G].
  induction ks as [|[k v] t IH]; intros res; cbn [ee_go]; [discriminate|].
  destruct (sym_has k res); [apply IH|].
  pose proof (E1 k res) as Hk1.
  destruct (expand_value (S (S (length values))) values g k res) as [[res'|]|]; [apply IH|discriminate|congruence].
Qed.

(* ExpandAndEvaluate (the FOR count) always ends *)
Theorem expand_and_evaluate_total e syms : expand_and_evaluate e syms <> None.
Proof.
  unfold expand_and_evaluate.
  pose proof (cycle_check_total (build_graph syms)) as Hc.
  destruct (graph_has_cycle (build_graph syms)) as [[|]|] eqn:E; [discriminate| |congruence].
  pose proof (expand_expressions_total syms (build_graph syms) E (build_graph_length syms)) as Hx.
  destruct (expand_expressions syms (build_graph syms)) as [[r|]|]; [discriminate|discriminate|congruence].
Qed.
