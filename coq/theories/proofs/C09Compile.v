(* C09Compile.v — the compiler stage on the source lines of the canonical load-file
   layout: every line assembles to the instruction it was printed from, the entry
   point is the directive's number. *)
From GM Require Import Base Text Token Lexer Scanner ExprSpec ExprEval ForExpand Parser Sim Compile
     Meaning Render LoadPrint AsmSpec C03Lexer C03Proof C06Proof C07Proof C07Model C09Parse.
From Coq Require Import Lia ZifyN ZifyNat ZifyBool.
Ltac Zify.zify_post_hook ::= Z.div_mod_to_equations.
Open Scope N_scope.

(* ---------- symbol tables of a program without labels and EQUs ---------- *)
Lemma constants_graph cfg :
  build_graph (load_constants cfg) =
  [(s2t "CORESIZE", []); (s2t "MAXLENGTH", []); (s2t "MAXPROCESSES", []); (s2t "MINDISTANCE", [])].
Proof. reflexivity. Qed.
Lemma constants_acyclic cfg : graph_has_cycle (build_graph (load_constants cfg)) = Some false.
Proof. rewrite constants_graph. reflexivity. Qed.
Lemma constants_resolved cfg :
  expand_expressions (load_constants cfg) (build_graph (load_constants cfg)) = Some (Some (load_constants cfg)).
Proof. rewrite constants_graph. reflexivity. Qed.

Definition ls_step (cfg : config) (st : comp * Z) (ln : sline) : comp * Z :=
  let '(c, cur) := st in
  match sl_typ ln with
  | linePseudoOp =>
    if lower_is (sl_op ln) "equ"
    then (mkC (fold_left (fun m l => sym_set l (sl_a ln) m) (sl_labels ln) (c_values c)) (c_labels c) (c_startexpr c), cur)
    else if lower_is (sl_op ln) "org" then (mkC (c_values c) (c_labels c) (sl_a ln), cur)
    else if lower_is (sl_op ln) "end"
    then (mkC (c_values c)
              (fold_left (fun m l => lab_set l cur m) (sl_labels ln) (c_labels c))
              (match sl_a ln with [] => c_startexpr c | a => a end), cur)
    else (c, cur)
  | lineInstruction =>
    (mkC (c_values c) (fold_left (fun m l => lab_set l (sl_codeline ln) m) (sl_labels ln) (c_labels c))
         (c_startexpr c), (cur + 1)%Z)
  | _ => (c, cur)
  end.
Lemma load_symbols_fold cfg lines :
  load_symbols cfg lines = fst (fold_left (ls_step cfg) lines (mkC (load_constants cfg) [] [num_tok 0], 0%Z)).
Proof. reflexivity. Qed.

Lemma ls_instrs cfg legacy sg m : forall code L C v l se cur,
  fold_left (ls_step cfg) (instr_slines legacy sg m L C code) (mkC v l se, cur) = (mkC v l se, (cur + Z.of_nat (length code))%Z).
Proof.
  induction code as [|i t IH]; intros L C v l se cur; cbn [instr_slines fold_left length].
  - rewrite Z.add_0_r. reflexivity.
  - cbn [ls_step instr_sline sl_typ sl_labels fold_left c_values c_labels c_startexpr]. rewrite IH. f_equal. lia.
Qed.

Lemma load_symbols_canon cfg legacy sg m code start :
  load_symbols cfg (canon_slines legacy sg m code start) = mkC (load_constants cfg) [] [num_tok (Z.to_N start)].
Proof.
  rewrite load_symbols_fold. unfold canon_slines. destruct legacy.
  - rewrite fold_left_app, ls_instrs. reflexivity.
  - cbn [fold_left]. change (ls_step cfg (mkC (load_constants cfg) [] [num_tok 0], 0%Z) (dir_sline (s2t "ORG") 1 start))
      with (mkC (load_constants cfg) [] [num_tok (Z.to_N start)], 0%Z).
    rewrite ls_instrs. reflexivity.
Qed.

Lemma eval_assertions_canon m c legacy sg M code start :
  eval_assertions m c (canon_slines legacy sg M code start) = Some (EOk 1).
Proof.
  assert (G : forall L C code, eval_assertions m c (instr_slines legacy sg M L C code) = Some (EOk 1)).
  { intros L C code0. revert L C. induction code0 as [|i t IH]; intros L C; [reflexivity|]. cbn [instr_slines eval_assertions instr_sline sl_typ]. apply IH. }
  assert (G2 : forall l1 l2, eval_assertions m c l1 = Some (EOk 1) -> eval_assertions m c l2 = Some (EOk 1) ->
                             eval_assertions m c (l1 ++ l2) = Some (EOk 1)).
  { induction l1 as [|ln t IH]; intros l2 H1 H2; [exact H2|]. cbn [app eval_assertions] in *.
    destruct (sl_typ ln); try (apply IH; assumption).
    destruct (has_prefix (s2t ";assert") (sl_comment ln)); [|apply IH; assumption].
    destruct (eval_assert m c (skipn 7 (sl_comment ln))) as [[v| |]|]; try discriminate H1. apply IH; assumption. }
  unfold canon_slines. destruct legacy.
  - apply G2; [apply G|reflexivity].
  - cbn [eval_assertions dir_sline sl_typ]. apply G.
Qed.

(* ---------- expressions without names ---------- *)
Lemma expand_plain m c line : forall l, Forall (fun t => t_typ t <> tokText) l -> expand_all m c line l = Some l.
Proof.
  induction l as [|t r IH]; intros H; cbn [expand_all]; [reflexivity|].
  inversion H as [|x y Ht Hr]; subst. rewrite (IH Hr). unfold expand_tok. destruct (t_typ t); try reflexivity. congruence.
Qed.
Lemma expand_expression_plain f m c line l : Forall (fun t => t_typ t <> tokText) l ->
  expand_expression (S f) m c line l = Some (Some l).
Proof. intros H. cbn [expand_expression]. rewrite expand_pass_tokenwise, (expand_plain m c line l H), toks_eqb_refl. reflexivity. Qed.

Lemma eval_minus n : (0 < n)%N -> (Z.of_N n <= 2147483648)%Z ->
  evaluate_expression [minus_tok; num_tok n] = EOk (- Z.of_N n).
Proof.
  intros Hn Hb. pose proof (evaluate_printed (Sgn true (Lit (Z.of_N n))) ltac:(cbn; lia)) as E.
  cbn [print map inj bop_text denote] in E. unfold minus_tok, num_tok. rewrite N2Z.id in E. rewrite E.
  unfold int32_ok. replace ((-2147483648 <=? - Z.of_N n) && (- Z.of_N n <=? 2147483647))%Z with true by lia. reflexivity.
Qed.

(* a printed field evaluates to a number congruent to the field *)
Lemma field_value sg m a c line f : 0 < m -> m <= 2147483648 -> a < m ->
  exists v, expand_expression (S f) (Z.of_N m) c line (fld_toks sg m a) = Some (Some (fld_toks sg m a)) /\
            evaluate_expression (fld_toks sg m a) = EOk v /\ norm_field v (Z.of_N m) = a.
Proof.
  intros Hm Hm' Ha. unfold fld_toks. destruct (sg && (m / 2 <? a)) eqn:E.
  - exists (- Z.of_N (m - a))%Z. split; [apply expand_expression_plain; repeat constructor; cbn; discriminate|]. split.
    + apply eval_minus; lia.
    + rewrite norm_field_mod by lia. apply N2Z.inj. rewrite Z2N.id by (apply Z.mod_pos_bound; lia).
      rewrite N2Z.inj_sub by lia.
      replace (- (Z.of_N m - Z.of_N a))%Z with (Z.of_N a + (-1) * Z.of_N m)%Z by lia.
      rewrite Z.mod_add by lia. apply Z.mod_small. lia.
  - exists (Z.of_N a). split; [apply expand_expression_plain; repeat constructor; cbn; discriminate|]. split.
    + rewrite eval_num. unfold int32_ok. replace ((-2147483648 <=? Z.of_N a) && (Z.of_N a <=? 2147483647))%Z with true by lia. reflexivity.
    + rewrite norm_field_mod by lia. rewrite Z.mod_small by lia. apply N2Z.id.
Qed.

(* ---------- one line ---------- *)
Lemma amode_text am : amode_of_text [amode_char am] = Some am.
Proof. destruct am; reflexivity. Qed.
Lemma amode88_text am : is88mode am = true -> amode88_of_text [amode_char am] = Some am.
Proof. destruct am; try discriminate; reflexivity. Qed.

Lemma legal88_facts i : legal88 i = true ->
  is88mode (i_am i) = true /\ is88mode (i_bm i) = true /\
  opcode88_of_text (opcode_name (i_op i)) = Some (i_op i) /\ op_mode_88 (i_op i) (i_am i) (i_bm i) = Some (i_md i).
Proof.
  unfold legal88. destruct i as [op md a am b bm]. cbn [i_op i_md i_am i_bm].
  destruct op, am, bm; cbn; try discriminate; destruct md; cbn; try discriminate; intros _; repeat split; reflexivity.
Qed.

Lemma assemble_canon cfg sg i L C c :
  0 < c_size cfg -> c_size cfg <= 2147483648 -> i_a i < c_size cfg -> i_b i < c_size cfg ->
  ((c_mode cfg =? 0) = true -> legal88 i = true) ->
  assemble_line cfg c (instr_sline (c_mode cfg =? 0) sg (c_size cfg) L C i) = AOk i.
Proof.
  intros Hm Hm' Ha Hb Hl. unfold assemble_line.
  cbn [instr_sline sl_op sl_amode sl_bmode sl_a sl_b sl_codeline].
  rewrite !amode_text.
  destruct (field_value sg (c_size cfg) (i_a i) c C (S (S (length (c_values c)))) Hm Hm' Ha) as [av [EA1 [EA2 EA3]]].
  destruct (field_value sg (c_size cfg) (i_b i) c C (S (S (length (c_values c)))) Hm Hm' Hb) as [bv [EB1 [EB2 EB3]]].
  fold (expand_fuel c) in EA1, EB1.
  assert (Hop : (if c_mode cfg =? 0
                 then if negb ((match amode88_of_text [amode_char (i_am i)] with Some _ => true | None => false end)
                               && (match amode88_of_text [amode_char (i_bm i)] with Some _ => true | None => false end))
                      then None
                      else match opcode88_of_text (canon_op (c_mode cfg =? 0) i) with
                           | None => None
                           | Some o => match op_mode_88 o (i_am i) (i_bm i) with Some md => Some (o, md) | None => None end
                           end
                 else Some (i_op i, i_md i)) = Some (i_op i, i_md i)).
  { destruct (c_mode cfg =? 0) eqn:Em; [|reflexivity].
    destruct (legal88_facts i (Hl eq_refl)) as [F1 [F2 [F3 F4]]].
    rewrite (amode88_text _ F1), (amode88_text _ F2). cbn [andb negb]. unfold canon_op. rewrite app_nil_r, F3, F4. reflexivity. }
  cbv zeta.
  match goal with |- match ?X with Some _ => _ | None => AErr end = _ =>
    replace X with (Some (i_op i, i_md i)) end.
  2: { destruct (c_mode cfg =? 0) eqn:Em.
       - cbn [andb]. symmetry. cbn [andb] in Hop. exact Hop.
       - unfold canon_op. destruct (i_op i), (i_md i); reflexivity. }
  rewrite EA1, EA2.
  destruct (fld_toks sg (c_size cfg) (i_b i)) as [|b0 bs] eqn:Efb.
  { exfalso. unfold fld_toks in Efb. destruct (_ && _); discriminate Efb. }
  rewrite EB1, EB2, EA3, EB3. destruct i; reflexivity.
Qed.

(* ---------- all lines, and the whole compile step ---------- *)
Definition wf_code (cfg : config) (code : list instr) : Prop :=
  Forall (fun i => i_a i < c_size cfg /\ i_b i < c_size cfg) code /\
  ((c_mode cfg =? 0) = true -> Forall (fun i => legal88 i = true) code).

Lemma assemble_instrs cfg sg c : forall code L C acc,
  0 < c_size cfg -> c_size cfg <= 2147483648 -> wf_code cfg code ->
  forall rest, assemble_all cfg c (instr_slines (c_mode cfg =? 0) sg (c_size cfg) L C code ++ rest) acc =
               assemble_all cfg c rest (acc ++ code).
Proof.
  induction code as [|i t IH]; intros L C acc Hm Hm' [Hw Hl] rest; cbn [instr_slines app]; [rewrite app_nil_r; reflexivity|].
  inversion Hw as [|x y [Hx1 Hx2] Hy]; subst.
  cbn [assemble_all]. cbn [instr_sline sl_typ].
  change (mkSL L C lineInstruction [] (canon_op (c_mode cfg =? 0) i) [amode_char (i_am i)] (fld_toks sg (c_size cfg) (i_a i))
                [amode_char (i_bm i)] (fld_toks sg (c_size cfg) (i_b i)) [] 1)
    with (instr_sline (c_mode cfg =? 0) sg (c_size cfg) L C i).
  rewrite assemble_canon; try assumption.
  - rewrite IH; try assumption.
    + rewrite <- app_assoc. reflexivity.
    + split; [exact Hy|]. intros E. specialize (Hl E). inversion Hl; assumption.
  - intros E. specialize (Hl E). inversion Hl; assumption.
Qed.

Theorem compile_canon cfg sg code start meta :
  validate cfg = true -> c_size cfg <= 2147483648 -> wf_code cfg code ->
  (0 <= start < Z.of_nat (length code))%Z -> N.of_nat (length code) <= c_len cfg ->
  compile cfg (canon_slines (c_mode cfg =? 0) sg (c_size cfg) code start) meta = COk code start meta.
Proof.
  intros Hv Hm' Hw Hs Hlen.
  assert (Hm : 0 < c_size cfg).
  { unfold validate in Hv. destruct (c_size cfg <? 3) eqn:E; [discriminate Hv|]. lia. }
  unfold compile. rewrite Hv. cbn [negb].
  rewrite load_symbols_canon. cbn [c_values c_labels c_startexpr].
  rewrite constants_acyclic, eval_assertions_canon, constants_resolved.
  assert (HA : assemble_all cfg (mkC (load_constants cfg) [] [num_tok (Z.to_N start)])
                 (canon_slines (c_mode cfg =? 0) sg (c_size cfg) code start) [] = inr code).
  { unfold canon_slines. destruct (c_mode cfg =? 0) eqn:Em.
    - rewrite <- Em. rewrite assemble_instrs by assumption. reflexivity.
    - cbn [assemble_all dir_sline sl_typ]. rewrite <- Em.
      rewrite <- (app_nil_r (instr_slines _ _ _ _ _ _)). rewrite assemble_instrs by assumption. reflexivity. }
  rewrite HA.
  replace (c_len cfg <? N.of_nat (length code)) with false by lia.
  unfold expand_fuel. cbn [c_values]. rewrite expand_expression_plain by (repeat constructor; cbn; discriminate).
  rewrite eval_num. rewrite Z2N.id by lia.
  assert (Hs31 : (start < 2147483648)%Z).
  { destruct Hw as [Hw _]. unfold validate in Hv.
    assert (c_len cfg <= c_size cfg) by (destruct (c_size cfg <? c_len cfg) eqn:E; [rewrite !andb_false_r in Hv; cbn in Hv; try discriminate Hv|lia];
                                         repeat (rewrite ?andb_false_r, ?andb_false_l in Hv); discriminate Hv).
    lia. }
  unfold int32_ok. replace ((-2147483648 <=? start) && (start <=? 2147483647))%Z with true by lia.
  replace ((start <? 0) || negb (start =? 0) && (Z.of_nat (length code) <=? start))%Z with false by lia.
  reflexivity.
Qed.
