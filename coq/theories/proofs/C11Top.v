(* C11Top.v — locality statements transferred to the literal model through C01. *)
From GM Require Import Base Exec Emi94 Locality VmArith C01Phase C01Exec C11Proof.
From Coq Require Import Lia.
Open Scope N_scope.

Lemma model_write_local M R W wi c pc :
  2 <= M -> M <= 2 ^ 32 -> 1 <= R <= M -> 1 <= W <= M -> cwf M c -> pc < M ->
  forall a, get (fst (fst (exec M R W wi c pc))) a <> get c a -> cdistN M pc a <= W / 2.
Proof.
  intros HM2 HM HR HW Hc Hpc a Hne.
  pose proof (exec_refines M R W wi HM2 HM HR HW c pc Hc Hpc) as E.
  pose proof (step_core_write_local M R W HM2 HR HW c pc Hpc a) as L.
  destruct (exec M R W wi c pc) as [[c' pushes] reps].
  destruct (step_core M R W c pc) as [c'' succs].
  destruct E as (E1 & _). cbn [fst] in *.
  rewrite E1 in Hne. destruct (L Hne) as (x & Nx & ->).
  now apply cdist_addr.
Qed.

Lemma model_jump_local M R W wi c pc :
  2 <= M -> M <= 2 ^ 32 -> 1 <= R <= M -> 1 <= W <= M -> cwf M c -> pc < M ->
  forall x, In x (snd (fst (exec M R W wi c pc))) ->
  x = (pc + 1) mod M \/ x = (pc + 2) mod M \/ cdistN M pc x <= R / 2.
Proof.
  intros HM2 HM HR HW Hc Hpc x Hin.
  pose proof (exec_refines M R W wi HM2 HM HR HW c pc Hc Hpc) as E.
  pose proof (step_core_jump_local M R W HM2 HR HW c pc Hpc x) as L.
  destruct (exec M R W wi c pc) as [[c' pushes] reps].
  destruct (step_core M R W c pc) as [c'' succs].
  destruct E as (_ & E2 & _). cbn [fst snd] in *. subst succs.
  destruct (L Hin) as [H|[H|(r & Nr & ->)]]; auto.
  right. right. now apply cdist_addr.
Qed.

Lemma model_full_limits M wi c pc :
  2 <= M -> M <= 2 ^ 32 -> cwf M c -> pc < M ->
  let '(c', pushes, _) := exec M M M wi c pc in
  let '(c'', succs) := step_core_unlimited M c pc in
  (forall a, get c' a = get c'' a) /\ pushes = succs.
Proof.
  intros HM2 HM Hc Hpc.
  pose proof (exec_refines M M M wi HM2 HM ltac:(lia) ltac:(lia) c pc Hc Hpc) as E.
  rewrite step_core_full_limits in E by lia.
  destruct (exec M M M wi c pc) as [[c' pushes] reps].
  destruct (step_core_unlimited M c pc) as [c'' succs].
  destruct E as (E1 & E2 & _). auto.
Qed.

Lemma fetch_local M R W c pc md num :
  2 <= M -> 1 <= R <= M -> 1 <= W <= M -> pc < M ->
  let '(_, rp, _, ir) := eval_operand M R W c pc md num in
  cdistN M pc (addr M pc rp) <= R / 2 /\ exists c1, ir = get c1 (addr M pc rp).
Proof.
  intros HM2 HR HW Hpc.
  pose proof (eval_operand_fetch_local M R W HM2 HR HW c pc md num Hpc) as L.
  destruct (eval_operand M R W c pc md num) as [[[c2 rp] wp] ir].
  destruct L as [N E]. split; [now apply cdist_addr|assumption].
Qed.

(* non-vacuity: a step that does write at the maximal allowed distance *)
Example write_at_limit :
  let c := set empty_core 0 (mkI MOV mI 0 DIRECT 2 DIRECT) in
  get (fst (fst (exec 8 8 4 0 c 0))) 2 <> get c 2 /\ cdistN 8 0 2 = 4 / 2.
Proof. cbv zeta. split; [vm_compute; discriminate|reflexivity]. Qed.
