(* C05Expander.v — the FOR expander goroutine (forexpand.go): whatever the token
   stream and the symbols, what it sends is a run of ordinary tokens followed by
   at most one terminal token, the last thing it sends; so Tokens() receives every
   send and the goroutine is never left blocked on one. *)
From GM Require Import Base Text Token Lexer Scanner ExprSpec ExprEval ForExpand C05Lexer.
From Coq Require Import Lia.
Open Scope N_scope.

Definition okfinal (out : list token) : Prop :=
  exists pre, Forall nonterm pre /\ (out = pre \/ exists t, out = pre ++ [t]).
Definition J (st : fstate) (f : fexp) : Prop :=
  Forall nonterm (f_out f) /\ Forall nonterm (f_content f) /\ f_stuck f = false /\
  (st = FWriteLabelsEmitConsumeLine -> nonterm (f_nt f)).

Lemma nonterm_texts ls : Forall nonterm (map (mkT tokText) ls).
Proof. induction ls; cbn; constructor; [reflexivity|assumption]. Qed.
Lemma nonterm_app a b : Forall nonterm a -> Forall nonterm b -> Forall nonterm (a ++ b).
Proof. intros; apply Forall_app; split; assumption. Qed.
Lemma okfinal_nonterm out : Forall nonterm out -> okfinal out.
Proof. intros H. exists out. split; [exact H|left; reflexivity]. Qed.
Lemma okfinal_snoc out t : Forall nonterm out -> okfinal (out ++ [t]).
Proof. intros H. exists out. split; [exact H|right; exists t; reflexivity]. Qed.

Lemma subst_nonterm cl ll i t : nonterm t -> nonterm (subst_body cl ll i t).
Proof.
  unfold subst_body, nonterm, is_terminal. destruct (t_typ t) eqn:E; intros H; try exact H; try (rewrite E; exact H).
  destruct (text_eqb (t_val t) cl); [reflexivity|]. rewrite E. reflexivity.
Qed.
Lemma repeat_nonterm n : forall i cl ll body, Forall nonterm body -> Forall nonterm (repeat_body n i cl ll body).
Proof.
  induction n as [|n IH]; intros i cl ll body H; cbn [repeat_body]; [constructor|].
  apply nonterm_app; [|apply IH; exact H]. apply Forall_map. eapply Forall_impl; [|exact H]. intros t. apply subst_nonterm.
Qed.

Lemma f_mark_rd f : f_rd (f_mark f) = f_rd f.
Proof. destruct f as [a b c d e [w|] g h [|dp] j k]; reflexivity. Qed.
Lemma f_mark_out f : f_out (f_mark f) = f_out f.
Proof. destruct f as [a b c d e [w|] g h [|dp] j k]; reflexivity. Qed.
Lemma f_mark_content f : f_content (f_mark f) = f_content f.
Proof. destruct f as [a b c d e [w|] g h [|dp] j k]; reflexivity. Qed.
Lemma f_mark_depth f : f_depth (f_mark f) = f_depth f.
Proof. destruct f as [a b c d e [w|] g h [|dp] j k]; reflexivity. Qed.
Lemma f_mark_labels f : f_labels (f_mark f) = f_labels f.
Proof. destruct f as [a b c d e [w|] g h [|dp] j k]; reflexivity. Qed.

Lemma rof_skip_ok n : forall f, Forall nonterm (f_out f) -> Forall nonterm (f_content f) -> f_stuck f = false ->
  let '(f1, b) := rof_skip n f in
  f_stuck f1 = false /\ Forall nonterm (f_content f1) /\
  (if b then Forall nonterm (f_out f1) else okfinal (f_out f1)).
Proof.
  induction n as [|n IH]; intros f H1 H2 H3; cbn [rof_skip].
  - split; [exact H3|]. split; [exact H2|apply okfinal_nonterm; exact H1].
  - destruct (t_typ (f_nt f)) eqn:E; try (apply IH; cbn; assumption).
    + cbn. split; [exact H3|]. split; [exact H2|apply okfinal_snoc; exact H1].
    + cbn. split; [exact H3|]. split; [exact H2|exact H1].
    + split; [exact H3|]. split; [exact H2|exact H1].
Qed.

Lemma emit_first_nonterm cl ll labs at_ body : forall j, Forall nonterm labs -> Forall nonterm body ->
  Forall nonterm (emit_first j at_ labs cl ll body).
Proof.
  induction body as [|t r IH]; intros j Hl Hb; cbn [emit_first]; [constructor|].
  inversion Hb as [|t' r' Ht Hr]; subst.
  apply nonterm_app.
  - destruct at_ as [a|]; [destruct (Nat.eqb a j); [exact Hl|constructor]|constructor].
  - constructor; [apply subst_nonterm; exact Ht|apply IH; assumption].
Qed.
Lemma emit_body_nonterm n at_ cl ll body : Forall nonterm body -> Forall nonterm (emit_body n at_ cl ll body).
Proof.
  intros Hb. unfold emit_body. destruct n as [|n].
  - apply nonterm_texts.
  - apply nonterm_app; [apply emit_first_nonterm; [apply nonterm_texts|exact Hb]|apply repeat_nonterm; exact Hb].
Qed.

Lemma stream_loop_ok n : forall f, Forall nonterm (f_out f) -> f_stuck f = false ->
  f_stuck (stream_loop n f) = false /\ okfinal (f_out (stream_loop n f)).
Proof.
  induction n as [|n IH]; intros f H1 H3; cbn [stream_loop].
  - split; [exact H3|apply okfinal_nonterm; exact H1].
  - destruct (t_typ (f_nt f)) eqn:E;
      try (apply IH; cbn; [apply nonterm_app; [exact H1|constructor; [unfold nonterm, is_terminal; rewrite E; reflexivity|constructor]]|exact H3]).
    + cbn. split; [exact H3|apply okfinal_snoc; exact H1].
    + split; [exact H3|apply okfinal_nonterm; exact H1].
Qed.

Ltac nt_of E := unfold nonterm, is_terminal; rewrite E; reflexivity.

Lemma for_step_ok symbols st f f' nxt : J st f -> for_step symbols st f = Some (f', nxt) ->
  match nxt with
  | Some st' => J st' f'
  | None => f_stuck f' = false /\ okfinal (f_out f')
  end.
Proof.
  intros [J1 [J2 [J3 J4]]] H. destruct st; cbn [for_step] in H.
  - (* forLine *)
    destruct (t_typ (f_nt f)); inversion H; subst; cbn; repeat split; try assumption; try discriminate.
  - (* forConsumeLabels *)
    destruct (t_typ (f_nt f)) eqn:E;
      try (inversion H; subst; cbn; split; [exact J3|apply okfinal_snoc; exact J1]);
      try (inversion H; subst; cbn; repeat split; try assumption; discriminate).
    destruct (tok_is_pseudo (f_nt f)).
    + destruct (lower_is (t_val (f_nt f)) "for"); inversion H; subst; cbn; repeat split; try assumption; try discriminate.
      intros _. nt_of E.
    + destruct (tok_is_op (f_nt f)); inversion H; subst; cbn; repeat split; try assumption; try discriminate.
      intros _. nt_of E.
  - (* forWriteLabelsEmitConsumeLine *)
    inversion H; subst. cbn. repeat split; try assumption; try discriminate.
    apply nonterm_app; [apply nonterm_app; [exact J1|apply nonterm_texts]|]. constructor; [apply J4; reflexivity|constructor].
  - (* forConsumeEmitLine *)
    destruct (t_typ (f_nt f)) eqn:E; inversion H; subst; cbn;
      try (split; [exact J3|apply okfinal_snoc; exact J1]);
      try (repeat split; try assumption; try discriminate; apply nonterm_app; [exact J1|constructor; [nt_of E|constructor]]).
  - (* forConsumeExpression *)
    destruct (t_typ (f_nt f)) eqn:E; inversion H; subst; cbn;
      try (split; [exact J3|apply okfinal_snoc; exact J1]);
      try (split; [exact J3|apply okfinal_nonterm; exact J1]);
      try (repeat split; try assumption; discriminate).
  - (* forFor *)
    destruct (expand_and_evaluate (f_expr f) symbols) as [[v| |]|]; inversion H; subst; cbn;
      try (split; [exact J3|apply okfinal_snoc; exact J1]).
    repeat split; try assumption; try discriminate. constructor.
  - (* forInnerLine *)
    destruct (t_typ (f_nt f)); inversion H; subst; cbn; repeat split; try assumption; try discriminate.
  - (* forInnerLabels *)
    destruct (t_typ (f_nt f)) eqn:E; try (inversion H; subst; cbn; repeat split; try assumption; discriminate).
    destruct (tok_is_pseudo (f_nt f)).
    + destruct (lower_is (t_val (f_nt f)) "for");
        [inversion H; subst; unfold f_mark; destruct (f_depth f), (f_labels_at f); cbn; repeat split; try assumption; discriminate|].
      destruct (lower_is (t_val (f_nt f)) "rof"); [|inversion H; subst; cbn; repeat split; try assumption; discriminate].
      destruct (f_depth f); inversion H; subst; cbn; repeat split; try assumption; discriminate.
    + destruct (tok_is_op (f_nt f)); [|inversion H; subst; cbn; repeat split; try assumption; discriminate].
      inversion H; subst; unfold f_mark; destruct (f_depth f), (f_labels_at f); cbn; repeat split; try assumption; discriminate.
  - (* forInnerEmitLabels *)
    inversion H; subst. cbn. repeat split; try assumption; try discriminate.
    apply nonterm_app; [exact J2|apply nonterm_texts].
  - (* forInnerEmitConsumeLine *)
    destruct (t_typ (f_nt f)) eqn:E; inversion H; subst; cbn;
      try (split; [exact J3|apply okfinal_snoc; exact J1]);
      try (split; [exact J3|apply okfinal_nonterm; exact J1]);
      try (repeat split; try assumption; try discriminate; apply nonterm_app; [exact J2|constructor; [nt_of E|constructor]]).
  - (* forRof *)
    pose proof (rof_skip_ok (S (S (length (r_toks (f_rd f))))) f J1 J2 J3) as R.
    destruct (rof_skip (S (S (length (r_toks (f_rd f))))) f) as [f1 b]. destruct R as [R1 [R2 R3]].
    destruct b; inversion H; subst; cbn.
    + repeat split; try assumption; try discriminate.
      apply nonterm_app; [exact R3|]. apply emit_body_nonterm. exact R2.
    + split; assumption.
  - (* forEmitConsumeStream *)
    injection H as <- <-. exact (stream_loop_ok (S (S (length (r_toks (f_rd f))))) f J1 J3).
Qed.

Lemma for_run_ok symbols n : forall st f f', J st f -> for_run symbols n st f = Some f' ->
  f_stuck f' = false /\ okfinal (f_out f').
Proof.
  induction n as [|n IH]; intros st f f' HJ H; [discriminate|].
  cbn [for_run] in H. destruct (for_step symbols st f) as [[f1 [st1|]]|] eqn:E; try discriminate.
  - apply (IH st1 f1 f'); [|exact H]. apply (for_step_ok symbols st f f1 (Some st1) HJ E).
  - inversion H; subst. apply (for_step_ok symbols st f f' None HJ E).
Qed.

Lemma recv_nonterm pre rest : Forall nonterm pre -> recv_until_closed (pre ++ rest) = pre ++ recv_until_closed rest.
Proof.
  intros H. induction H as [|x pre Hx _ IH]; [reflexivity|].
  cbn [app recv_until_closed]. unfold nonterm in Hx. rewrite Hx, IH. reflexivity.
Qed.
Lemma okfinal_received out : okfinal out -> (length (recv_until_closed out) <? length out)%nat = false.
Proof.
  intros [pre [Hp [-> | [t ->]]]].
  - rewrite <- (app_nil_r pre) at 1. rewrite recv_nonterm by exact Hp. cbn [recv_until_closed].
    apply Nat.ltb_ge. rewrite app_length. cbn. lia.
  - rewrite recv_nonterm by exact Hp. cbn [recv_until_closed]. apply Nat.ltb_ge.
    destruct (is_terminal t); rewrite !app_length; cbn; lia.
Qed.

(* the expander is never left blocked, and sends at most one terminal token, last *)
Theorem for_expand_clean toks symbols r :
  for_expand toks symbols = Some (Some r) ->
  fr_stuck r = false /\ okfinal (fr_sends r) /\ closed_stream (fr_tokens r).
Proof.
  unfold for_expand. destruct (r_eof (reader_init toks)); [discriminate|].
  destruct (for_run symbols (4 * length toks + 8) FLine _) as [f|] eqn:E; [|discriminate].
  intros H. inversion H; subst. cbn [fr_stuck fr_sends fr_tokens].
  assert (J0 : J FLine (mkF (reader_init toks) [] [] [] [] None 0%Z [] O [] false)).
  { split; [constructor|]. split; [constructor|]. split; [reflexivity|discriminate]. }
  destruct (for_run_ok symbols _ _ _ f J0 E) as [S O].
  rewrite S, okfinal_received by exact O. split; [reflexivity|]. split; [exact O|].
  destruct O as [pre [Hp [-> | [t ->]]]].
  - rewrite <- (app_nil_r pre) at 1. rewrite recv_nonterm by exact Hp. cbn. exists pre, (mkT tokEOF []). auto.
  - rewrite recv_nonterm by exact Hp. cbn [recv_until_closed]. destruct (is_terminal t) eqn:T.
    + exists pre, t. auto.
    + exists (pre ++ [t]), (mkT tokEOF []). rewrite <- app_assoc. split; [reflexivity|]. split; [reflexivity|].
      apply nonterm_app; [exact Hp|constructor; [exact T|constructor]].
Qed.
