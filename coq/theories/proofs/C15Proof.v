(* C15Proof.v — the report stream of one task: every cell that changes is named
   by a write / increment / decrement report, every address is below the core
   size, the termination report appears exactly when no successor is queued. *)
From GM Require Import Base Exec Sim Emi94 VmArith C01Phase QueueProof InvExec InvSim.
From Coq Require Import Lia ZifyN ZifyBool.
Open Scope N_scope.

Definition is_change (t : rtype) : bool :=
  match t with WarriorWrite | WarriorDecrement | WarriorIncrement => true | _ => false end.
(* addresses named by write / increment / decrement reports *)
Definition chg (reps : list report) : list N :=
  map r_addr (filter (fun r => is_change (r_type r)) reps).

Lemma chg_app a b : chg (a ++ b) = chg a ++ chg b.
Proof. unfold chg. now rewrite filter_app, map_app. Qed.

Section Reports.
Variables M rl wl : N.
Variable wi : Z.
Hypothesis HM : 0 < M.

Lemma phase_frame isB c pc md num :
  let '(c2, _, _, _, reps) := phase M rl wl wi isB c pc md num in
  (forall a, ~ In a (chg reps) -> get c2 a = get c a) /\
  Forall (fun r => r_addr r < M /\ r_wi r = wi /\ is_change (r_type r) = true) reps.
Proof.
  unfold phase.
  destruct md; cbn [mode_class]; cbv zeta;
    try (split; [reflexivity|constructor]).
  all: split;
    [ intros a Ha; cbn in Ha; rewrite ?get_upd;
      repeat match goal with |- context [a =? ?x] => destruct (N.eqb_spec a x) end;
      try reflexivity; exfalso; apply Ha; auto
    | repeat constructor; cbn [r_addr rep r_wi]; try reflexivity; apply idx_lt'; assumption ].
Qed.

Lemma upd_frame c w f a : a <> w -> get (upd c w f) a = get c a.
Proof. intros H. rewrite get_upd. destruct (N.eqb_spec a w); [contradiction|reflexivity]. Qed.
Lemma set_frame c w i a : a <> w -> get (set c w i) a = get c a.
Proof. intros H. rewrite get_set. destruct (N.eqb_spec a w); [contradiction|reflexivity]. Qed.

Lemma op_mov_frame md ira c w a : a <> w -> get (op_mov md ira c w) a = get c a.
Proof. intros H. unfold op_mov. destruct md; rewrite ?upd_frame, ?set_frame by assumption; reflexivity. Qed.
Lemma op_arith_frame g md ira irb c w a : a <> w -> get (op_arith g md ira irb c w) a = get c a.
Proof. intros H. unfold op_arith. destruct md; rewrite ?upd_frame by assumption; reflexivity. Qed.
Lemma op_divlike_frame g md ira irb c w a : a <> w -> get (fst (op_divlike g md ira irb c w)) a = get c a.
Proof.
  intros H. unfold op_divlike.
  destruct md; repeat match goal with |- context [?x =? 0] => destruct (x =? 0) end;
    cbn [fst]; rewrite ?upd_frame by assumption; reflexivity.
Qed.
Lemma op_djn_frame md irb c w a : a <> w -> get (fst (op_djn M md irb c w)) a = get c a.
Proof. intros H. unfold op_djn. destruct md; cbn [fst]; rewrite ?upd_frame by assumption; reflexivity. Qed.

Definition rep_ok (r : report) : Prop := r_addr r < M /\ r_wi r = wi.

Theorem exec_reports c pc :
  pc < M ->
  let '(c', pushes, reps) := exec M rl wl wi c pc in
  (forall a, get c' a <> get c a -> In a (chg reps)) /\
  Forall rep_ok reps /\
  (pushes = [] <-> exists r, In r reps /\ r_type r = WarriorTaskTerminate) /\
  (forall r, In r reps -> r_type r = WarriorTaskTerminate -> r_addr r = pc).
Proof.
  intros Hpc. unfold exec.
  set (IR := get c pc).
  pose proof (phase_frame false c pc (i_am IR) (i_a IR)) as PA.
  destruct (phase M rl wl wi false c pc (i_am IR) (i_a IR)) as [[[[c1 rpa] wpa] ira] repA].
  destruct PA as [FA VA].
  pose proof (phase_frame true c1 pc (i_bm IR) (i_b IR)) as PB.
  destruct (phase M rl wl wi true c1 pc (i_bm IR) (i_b IR)) as [[[[c2 rpb] wpb] irb] repB].
  destruct PB as [FB VB].
  set (wab := idx M pc wpb).
  assert (Hwab : wab < M) by (apply idx_lt'; assumption).
  assert (Hn : add64 pc 1 mod M < M) by (apply N.mod_lt; lia).
  assert (Hs : add64 pc 2 mod M < M) by (apply N.mod_lt; lia).
  assert (Hr : idx M pc rpa < M) by (apply idx_lt'; assumption).
  assert (Hrb : idx M pc rpb < M) by (apply idx_lt'; assumption).
  set (pre := repA ++ repB).
  assert (Vpre : Forall (fun r => r_addr r < M /\ r_wi r = wi /\ is_change (r_type r) = true) pre)
    by (apply Forall_app; split; assumption).
  assert (Vok : Forall rep_ok pre).
  { eapply Forall_impl; [|exact Vpre]. intros r (A & B & _). split; assumption. }
  assert (NT : forall r, In r pre -> r_type r <> WarriorTaskTerminate).
  { intros r Hin E. pose proof (proj1 (Forall_forall _ _) Vpre r Hin) as (_ & _ & X). rewrite E in X. discriminate. }
  (* changed cells are reported *)
  assert (Core : forall c3 oprep,
            (forall a, ~ In a (chg oprep) -> get c3 a = get c2 a) ->
            forall a, get c3 a <> get c a -> In a (chg (pre ++ oprep))).
  { intros c3 oprep F3 a Hne.
    destruct (in_dec N.eq_dec a (chg (pre ++ oprep))) as [Hi|Hni]; [assumption|].
    exfalso. apply Hne. unfold pre in Hni. rewrite !chg_app in Hni.
    rewrite F3, FB, FA; [reflexivity| | |]; intros X; apply Hni; rewrite !in_app_iff; auto. }
  assert (TT : forall oprep,
            (forall r, In r (pre ++ oprep) -> r_type r = WarriorTaskTerminate -> In r oprep)).
  { intros oprep r Hin E. apply in_app_or in Hin. destruct Hin as [Hin|Hin]; [exfalso; exact (NT r Hin E)|assumption]. }
  destruct (i_op IR) eqn:Eop.
  all: try (match goal with |- context [op_divlike ?g ?md ?a ?b ?cc ?w] =>
              pose proof (fun x H => op_divlike_frame g md a b cc w x H) as FD;
              destruct (op_divlike g md a b cc w) as [c3 alv]; cbn [fst] in FD; destruct alv end).
  all: try (match goal with |- context [op_djn M ?md ?b ?cc ?w] =>
              pose proof (fun x H => op_djn_frame md b cc w x H) as FJ;
              destruct (op_djn M md b cc w) as [c3 j]; cbn [fst] in FJ end).
  all: cbv zeta; cbv beta iota.
  all: match goal with
       | E : i_op _ = JMP |- _ => rewrite <- (app_nil_r pre)
       | E : i_op _ = JMZ |- _ => rewrite <- (app_nil_r pre)
       | E : i_op _ = SPL |- _ => rewrite <- (app_nil_r pre)
       | E : i_op _ = NOP |- _ => rewrite <- (app_nil_r pre)
       | _ => idtac
       end.
  all: split; [ apply Core; intros a Ha; cbn in Ha;
                first [ reflexivity
                      | apply op_mov_frame; intros ->; apply Ha; auto
                      | apply op_arith_frame; intros ->; apply Ha; auto
                      | apply FD; intros ->; apply Ha; auto
                      | apply FJ; intros ->; apply Ha; auto ]
              | ].
  all: split; [ apply Forall_app; split; [exact Vok|];
                repeat constructor; cbn [r_addr rep r_wi]; try reflexivity; try assumption;
                repeat match goal with |- context [if ?b then _ else _] => destruct b end; assumption
              | ].
  all: split.
  all: try (split; [ intros E; first [discriminate E | exists (rep wi WarriorTaskTerminate pc); split; [apply in_or_app; right; cbn; auto|reflexivity]]
                   | intros (r & Hin & E); apply TT in Hin; [|exact E]; cbn in Hin;
                     repeat match goal with H : _ \/ _ |- _ => destruct H as [H|H] end;
                     try contradiction; subst r; cbn in E; try discriminate E; reflexivity ]).
  all: try (intros r Hin E; apply TT in Hin; [|exact E]; cbn in Hin;
            repeat match goal with H : _ \/ _ |- _ => destruct H as [H|H] end;
            try contradiction; subst r; cbn in E; try discriminate E; reflexivity).
Qed.
End Reports.

(* ---------- a whole cycle ---------- *)
Lemma instr_eq_dec (x y : instr) : {x = y} + {x <> y}.
Proof. decide equality; try apply N.eq_dec; decide equality. Qed.

(* a report is valid: its address is an address, its warrior exists *)
Definition rep_valid (M : N) (n : nat) (r : report) : Prop :=
  r_addr r < M /\ (0 <= r_wi r < Z.of_nat n)%Z.

Lemma list_set_length' {A} (l : list A) i x : length (list_set l i x) = length l.
Proof. apply list_set_length. Qed.

Lemma cycle_loop_reports k : forall i s reps,
  Inv s ->
  match cycle_loop k i s reps with
  | Panic => False
  | Ok (s', _, reps') =>
    exists new, reps' = reps ++ new /\
      Forall (rep_valid (s_m s) (length (s_ws s))) new /\
      (forall a, get (s_mem s') a <> get (s_mem s) a -> In a (chg new))
  end.
Proof.
  induction k as [|k IH]; intros i s reps HI; cbn [cycle_loop].
  { exists []. rewrite app_nil_r. split; [reflexivity|]. split; [constructor|]. intros a H. congruence. }
  destruct (nth_error (s_ws s) i) as [w|] eqn:Hn.
  2:{ exists []. rewrite app_nil_r. split; [reflexivity|]. split; [constructor|]. intros a H. congruence. }
  assert (Hi : (i < length (s_ws s))%nat) by (apply nth_error_Some; congruence).
  destruct (w_state w) eqn:Hst; try (apply IH; assumption).
  pose proof HI as (A & _ & _ & _ & E & _).
  pose proof (proj1 (Forall_forall _ _) E w (nth_error_In _ _ Hn)) as [_ Hw].
  rewrite Hst in Hw. destruct Hw as (q & Hpq & _). rewrite Hpq.
  destruct (task_iteration s i w q HI Hn Hst Hpq) as (pc & q1 & Hp & Hpc & TI).
  rewrite Hp. destruct (N.leb_spec (s_m s) pc); [lia|].
  assert (HM0 : 0 < s_m s) by lia.
  pose proof (exec_reports (s_m s) (s_rl s) (s_wl s) (Z.of_nat i) HM0 (s_mem s) pc Hpc) as ER.
  destruct (exec (s_m s) (s_rl s) (s_wl s) (Z.of_nat i) (s_mem s) pc) as [[c' pushes] ereps].
  destruct ER as (E1 & E2 & _ & _). cbv zeta in TI. destruct TI as [TD TA].
  set (pop := mkR WarriorTaskPop (Z.of_N (s_cycle s)) (Z.of_nat i) pc).
  set (trm := mkR WarriorTerminate (Z.of_N (s_cycle s)) (Z.of_nat i) pc).
  assert (Vpop : rep_valid (s_m s) (length (s_ws s)) pop) by (split; cbn; [assumption|lia]).
  assert (Vtrm : rep_valid (s_m s) (length (s_ws s)) trm) by (split; cbn; [assumption|lia]).
  assert (Vex : Forall (rep_valid (s_m s) (length (s_ws s))) ereps).
  { eapply Forall_impl; [|exact E2]. intros r [R1 R2]. split; [assumption|]. rewrite R2. lia. }
  assert (Cpop : forall l, chg ([pop] ++ l) = chg l) by reflexivity.
  destruct (N.eqb_spec (q_len (fold_left rq_push pushes q1)) 0) as [Hz|Hz].
  - destruct ((1 <? wcount s)%Z && (s_living s - 1 =? 1)%Z)%bool.
    + exists ([pop] ++ ereps ++ [trm]). split; [rewrite <- !app_assoc; reflexivity|].
      split.
      * apply Forall_app. split; [constructor; [assumption|constructor]|].
        apply Forall_app. split; [assumption|constructor; [assumption|constructor]].
      * cbn [s_mem set_w with_mem with_ws with_living]. intros a Ha.
        rewrite Cpop, chg_app, in_app_iff. left. now apply E1.
    + match goal with |- context [cycle_loop k (S i) ?s2 ?r] => specialize (IH (S i) s2 r (TD Hz)) end.
      destruct (cycle_loop k (S i) _ _) as [[[s' r'] reps']|]; [|assumption].
      destruct IH as (new & -> & V & Ch).
      exists (([pop] ++ ereps ++ [trm]) ++ new). split; [rewrite <- !app_assoc; reflexivity|].
      cbn [s_m s_ws s_mem set_w with_mem with_ws with_living] in V, Ch. rewrite list_set_length' in V.
      split.
      * apply Forall_app. split; [|assumption].
        apply Forall_app. split; [constructor; [assumption|constructor]|].
        apply Forall_app. split; [assumption|constructor; [assumption|constructor]].
      * intros a Ha. rewrite chg_app, in_app_iff.
        destruct (instr_eq_dec (get c' a) (get (s_mem s) a)) as [Eq|Ne].
        -- right. apply Ch. congruence.
        -- left. rewrite Cpop, chg_app, in_app_iff. left. now apply E1.
  - match goal with |- context [cycle_loop k (S i) ?s2 ?r] => specialize (IH (S i) s2 r (TA Hz)) end.
    destruct (cycle_loop k (S i) _ _) as [[[s' r'] reps']|]; [|assumption].
    destruct IH as (new & -> & V & Ch).
    exists (([pop] ++ ereps) ++ new). split; [rewrite <- !app_assoc; reflexivity|].
    cbn [s_m s_ws s_mem set_w with_mem with_ws with_living] in V, Ch. rewrite list_set_length' in V.
    split.
    + apply Forall_app. split; [|assumption].
      apply Forall_app. split; [constructor; [assumption|constructor]|assumption].
    + intros a Ha. rewrite chg_app, in_app_iff.
      destruct (instr_eq_dec (get c' a) (get (s_mem s) a)) as [Eq|Ne].
      * right. apply Ch. congruence.
      * left. rewrite Cpop. now apply E1.
Qed.

(* RunCycle: every report is valid and every changed cell is reported *)
Theorem run_cycle_reports s :
  Inv s ->
  match run_cycle s with
  | Panic => False
  | Ok (s', _, reps) =>
      Forall (fun r => r_type r = CycleStart \/ r_type r = CycleEnd \/
                       rep_valid (s_m s) (length (s_ws s)) r) reps /\
      (forall a, get (s_mem s') a <> get (s_mem s) a -> In a (chg reps))
  end.
Proof.
  intros HI. unfold run_cycle.
  destruct (_ || _)%bool; [split; [constructor|congruence]|].
  destruct (_ && _)%bool; [split; [constructor|congruence]|].
  pose proof (cycle_loop_reports (length (s_ws s)) 0 s [mkR CycleStart (Z.of_N (s_cycle s)) 0 0] HI) as L.
  destruct (cycle_loop _ _ _ _) as [[[s' [r|]] reps]|]; [| |assumption];
    destruct L as (new & -> & V & Ch).
  - split.
    + constructor; [left; reflexivity|]. eapply Forall_impl; [|exact V]. auto.
    + intros a Ha. apply (Ch a Ha).
  - split.
    + rewrite <- app_assoc. constructor; [left; reflexivity|]. apply Forall_app. split.
      * eapply Forall_impl; [|exact V]. auto.
      * constructor; [right; left; reflexivity|constructor].
    + cbn [s_mem with_cycle]. intros a Ha.
      change ([mkR CycleStart (Z.of_N (s_cycle s)) 0 0] ++ new) with (mkR CycleStart (Z.of_N (s_cycle s)) 0 0 :: new).
      rewrite chg_app, in_app_iff. left. apply (Ch a Ha).
Qed.
