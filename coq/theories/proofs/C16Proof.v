(* C16Proof.v — reading back the printed load listing. *)
From GM Require Import Base Text Token Load Listing Meaning Render LoadPrint AsmSpec.
From Coq Require Import Lia ZifyN ZifyNat ZifyBool.
Ltac Zify.zify_post_hook ::= Z.div_mod_to_equations.
Open Scope N_scope.

(* ---------- decimal printing and parsing ---------- *)
Definition dstep (v c : N) : N := v * 10 + (c - 48).
Definition dval (l : text) : N := fold_left dstep l 0.
Definition all_digits (l : text) : Prop := Forall (fun c => is_digit_a c = true) l.

Lemma digits_fuel_spec f : forall n acc, (1 <= f)%nat -> n < 2 ^ N.of_nat f ->
  exists l, digits_fuel f n acc = l ++ acc /\ l <> [] /\ all_digits l /\ dval l = n.
Proof.
  induction f as [|f IH]; intros n acc Hf Hn; [lia|].
  cbn [digits_fuel]. destruct (n <? 10) eqn:E.
  - exists [48 + n mod 10]. split; [reflexivity|]. split; [discriminate|]. split.
    + constructor; [|constructor]. unfold is_digit_a. lia.
    + unfold dval, dstep. cbn [fold_left]. lia.
  - rewrite Nat2N.inj_succ, N.pow_succ_r' in Hn.
    assert (Hf' : (1 <= f)%nat).
    { destruct f as [|f']; [|lia]. cbn in Hn. lia. }
    assert (Hn' : n / 10 < 2 ^ N.of_nat f).
    { remember (2 ^ N.of_nat f) as P. lia. }
    destruct (IH (n / 10) ((48 + n mod 10) :: acc) Hf' Hn') as [l [E1 [E2 [E3 E4]]]].
    exists (l ++ [48 + n mod 10]). rewrite E1, <- app_assoc. split; [reflexivity|].
    split; [destruct l; discriminate|]. split.
    + apply Forall_app. split; [exact E3|]. constructor; [|constructor]. unfold is_digit_a. lia.
    + unfold dval in *. rewrite fold_left_app. cbn [fold_left]. rewrite E4. unfold dstep. lia.
Qed.

Lemma dec_of_N_spec n : dec_of_N n <> [] /\ all_digits (dec_of_N n) /\ dval (dec_of_N n) = n.
Proof.
  unfold dec_of_N.
  destruct (digits_fuel_spec (S (N.to_nat (N.log2 n))) n []) as [l [E1 E2]]; [lia| |].
  - rewrite Nat2N.inj_succ, N2Nat.id. destruct (N.eq_dec n 0) as [->|Hz]; [reflexivity|].
    apply N.log2_spec. lia.
  - rewrite E1, app_nil_r. exact E2.
Qed.

Lemma parse_fold l : forall v, all_digits l ->
  fold_left (fun acc c => match acc with
                          | Some v => if is_digit_a c then Some (v * 10 + (c - 48)) else None
                          | None => None end) l (Some v) = Some (fold_left dstep l v).
Proof.
  induction l as [|c l IH]; intros v H; [reflexivity|].
  inversion H as [|c' l' Hc Hl]; subst. cbn [fold_left]. rewrite Hc. apply IH. exact Hl.
Qed.

Lemma parse_digits_dec n : parse_digits (dec_of_N n) = Some n.
Proof.
  destruct (dec_of_N_spec n) as [H1 [H2 H3]]. unfold parse_digits.
  destruct (dec_of_N n) as [|c l] eqn:E; [congruence|].
  rewrite parse_fold by exact H2. f_equal. exact H3.
Qed.

Lemma digit_cases c : is_digit_a c = true ->
  c = 48 \/ c = 49 \/ c = 50 \/ c = 51 \/ c = 52 \/ c = 53 \/ c = 54 \/ c = 55 \/ c = 56 \/ c = 57.
Proof. unfold is_digit_a. lia. Qed.

Lemma parse_int_dec z : (- 2 ^ 63 <= z < 2 ^ 63)%Z -> parse_int 64 (dec_of_Z z) = Some z.
Proof.
  intros Hz. unfold parse_int.
  assert (Hpos : forall n, parse_int 64 (dec_of_N n) =
                           if ((- 2 ^ 63 <=? Z.of_N n) && (Z.of_N n <? 2 ^ 63))%Z%bool then Some (Z.of_N n) else None).
  { intros n. unfold parse_int. pose proof (parse_digits_dec n) as P.
    destruct (dec_of_N_spec n) as [H1 [H2 _]].
    destruct (dec_of_N n) as [|c l]; [congruence|].
    inversion H2 as [|c' l' Hc Hl]; subst.
    destruct (digit_cases c Hc) as [->|[->|[->|[->|[->|[->|[->|[->|[->| ->]]]]]]]]];
      rewrite P; reflexivity. }
  destruct z as [|p|p].
  - apply (Hpos 0).
  - change (dec_of_Z (Z.pos p)) with (dec_of_N (N.pos p)). fold (parse_int 64 (dec_of_N (N.pos p))).
    rewrite Hpos. change (Z.of_N (N.pos p)) with (Z.pos p).
    replace ((- 2 ^ 63 <=? Z.pos p) && (Z.pos p <? 2 ^ 63))%Z%bool with true by lia. reflexivity.
  - cbn [dec_of_Z]. rewrite parse_digits_dec. change (Z.of_N (N.pos p)) with (Z.pos p).
    change (- Z.pos p)%Z with (Z.neg p). change (Z.of_N (64 - 1)) with 63%Z.
    replace ((- 2 ^ 63 <=? Z.neg p) && (Z.neg p <? 2 ^ 63))%Z%bool with true by lia. reflexivity.
Qed.

(* ---------- words and lines ---------- *)
Definition sep (c : N) : bool := is_space_a c || (c =? 44).
Definition ns (w : text) : Prop := Forall (fun c => sep c = false) w.
Definition blank (s : text) : Prop := Forall (fun c => c = 32 \/ c = 44) s.

Lemma words_run w : forall r cur, ns w -> words (w ++ r) cur = words r (cur ++ w).
Proof.
  induction w as [|c w IH]; intros r cur H; [rewrite app_nil_r; reflexivity|].
  inversion H as [|c' w' Hc Hw]; subst. cbn [app words]. unfold sep in Hc. rewrite Hc.
  rewrite IH by exact Hw. rewrite <- app_assoc. reflexivity.
Qed.
Lemma blank_sep c : c = 32 \/ c = 44 -> sep c = true.
Proof. intros [-> | ->]; reflexivity. Qed.
Lemma words_blank s : forall r, blank s -> words (s ++ r) [] = words r [].
Proof.
  induction s as [|c s IH]; intros r H; [reflexivity|].
  inversion H as [|c' s' Hc Hs]; subst. cbn [app words]. apply blank_sep in Hc. unfold sep in Hc. rewrite Hc.
  apply IH. exact Hs.
Qed.
Lemma words_tok w s r : ns w -> w <> [] -> blank s -> s <> [] -> words (w ++ s ++ r) [] = w :: words r [].
Proof.
  intros Hw Hne Hs Hsne. rewrite words_run by exact Hw. cbn [app].
  destruct s as [|c s]; [congruence|]. inversion Hs as [|c' s' Hc Hs']; subst.
  cbn [app words]. apply blank_sep in Hc. unfold sep in Hc. rewrite Hc.
  destruct w as [|x w]; [congruence|]. f_equal. apply words_blank. exact Hs'.
Qed.

Definition chunk_text (s0 : text) (chunks : list (text * text)) : text :=
  s0 ++ concat (map (fun ws => fst ws ++ snd ws) chunks).
Definition chunks_ok (chunks : list (text * text)) : Prop :=
  Forall (fun ws => ns (fst ws) /\ fst ws <> [] /\ blank (snd ws) /\ snd ws <> []) chunks.

Lemma words_chunks s0 chunks : blank s0 -> chunks_ok chunks ->
  words (chunk_text s0 chunks) [] = map fst chunks.
Proof.
  intros H0 H. unfold chunk_text. rewrite words_blank by exact H0. clear H0.
  induction chunks as [|[w s] t IH]; [reflexivity|].
  inversion H as [|x l Hx Hl]; subst. cbn [fst snd] in Hx. destruct Hx as [A [B [C D]]].
  cbn [map concat fst snd]. rewrite <- app_assoc. rewrite words_tok by assumption. f_equal. apply IH. exact Hl.
Qed.

Lemma sep10 : sep 10 = true. Proof. reflexivity. Qed.
Lemma nonl_chunks s0 chunks : blank s0 -> chunks_ok chunks ->
  Forall (fun c => c <> 10) (chunk_text s0 chunks).
Proof.
  intros H0 H. unfold chunk_text. apply Forall_app. split.
  - eapply Forall_impl; [|exact H0]. intros c [-> | ->]; discriminate.
  - induction chunks as [|[w s] t IH]; [constructor|].
    inversion H as [|x l Hx Hl]; subst. cbn [fst snd] in Hx. destruct Hx as [A [_ [C _]]].
    cbn [map concat fst snd]. apply Forall_app. split; [apply Forall_app; split|apply IH; exact Hl].
    + eapply Forall_impl; [|exact A]. intros c Hc ->. rewrite sep10 in Hc. discriminate.
    + eapply Forall_impl; [|exact C]. intros c [-> | ->]; discriminate.
Qed.

Lemma split_step c r cur : c <> 10 -> split_lines (c :: r) cur = split_lines r (cur ++ [c]).
Proof.
  intros H. destruct c as [|p]; [reflexivity|].
  destruct p as [p|p|]; [reflexivity| |reflexivity].
  destruct p as [p|p|]; [|reflexivity|reflexivity].
  destruct p as [p|p|]; [reflexivity| |reflexivity].
  destruct p as [p|p|]; [reflexivity|reflexivity|congruence].
Qed.
Lemma split_run l : forall r cur, Forall (fun c => c <> 10) l -> split_lines (l ++ r) cur = split_lines r (cur ++ l).
Proof.
  induction l as [|c l IH]; intros r cur H; [rewrite app_nil_r; reflexivity|].
  inversion H as [|c' l' Hc Hl]; subst. cbn [app]. rewrite split_step by exact Hc.
  rewrite IH by exact Hl. rewrite <- app_assoc. reflexivity.
Qed.
Lemma split_bodies bs : Forall (Forall (fun c => c <> 10)) bs ->
  split_lines (concat (map (fun b => b ++ [10]) bs)) [] = bs.
Proof.
  induction bs as [|b t IH]; intros H; [reflexivity|].
  inversion H as [|b' t' Hb Ht]; subst. cbn [map concat]. rewrite <- app_assoc.
  rewrite split_run by exact Hb. cbn [app split_lines]. f_equal. apply IH. exact Ht.
Qed.

(* ---------- one listing line ---------- *)
Definition opw (legacy : bool) (i : instr) : text :=
  opcode_name (i_op i) ++ (if legacy then [] else 46 :: opmode_name (i_md i)).
Definition line_words (m : N) (legacy is_start : bool) (i : instr) : list text :=
  (if is_start then [s2t "START"] else []) ++
  [opw legacy i; [amode_char (i_am i)]; dec_of_Z (address_signed m (i_a i));
   [amode_char (i_bm i)]; dec_of_Z (address_signed m (i_b i))].
Definition line_chunks (m : N) (legacy : bool) (i : instr) : list (text * text) :=
  [(opw legacy i, repeat 32 (3 - length (if legacy then [] else 46 :: opmode_name (i_md i))) ++ [32]);
   ([amode_char (i_am i)], 32 :: repeat 32 (5 - length (dec_of_Z (address_signed m (i_a i)))));
   (dec_of_Z (address_signed m (i_a i)), [44; 32]);
   ([amode_char (i_bm i)], 32 :: repeat 32 (5 - length (dec_of_Z (address_signed m (i_b i)))));
   (dec_of_Z (address_signed m (i_b i)), [32; 32; 32; 32; 32])].
Definition line_body (m : N) (legacy is_start : bool) (i : instr) : text :=
  if is_start
  then chunk_text [] ((s2t "START", 32 :: 32 :: repeat 32 (3 - length (opcode_name (i_op i)))) :: line_chunks m legacy i)
  else chunk_text (32 :: 32 :: 32 :: 32 :: 32 :: 32 :: 32 :: repeat 32 (3 - length (opcode_name (i_op i))))
                  (line_chunks m legacy i).

Lemma listing_line_body m legacy is_start i :
  listing_line m legacy is_start i = line_body m legacy is_start i ++ [10].
Proof.
  unfold listing_line, line_body, chunk_text, line_chunks, opw, pad_left, pad_right.
  destruct is_start; cbn [map concat fst snd s2t]; repeat rewrite <- app_assoc; cbn [app];
    repeat rewrite <- app_assoc; reflexivity.
Qed.

Lemma blank_repeat k : blank (repeat 32 k).
Proof. induction k; cbn; constructor; auto. Qed.
Lemma ns_opcode o : ns (opcode_name o).
Proof. destruct o; repeat constructor. Qed.
Lemma ns_opmode md : ns (46 :: opmode_name md).
Proof. destruct md; repeat constructor. Qed.
Lemma ns_amode a : ns [amode_char a].
Proof. destruct a; repeat constructor. Qed.
Lemma ns_digits l : all_digits l -> ns l.
Proof. intros H. eapply Forall_impl; [|exact H]. intros c Hc. unfold is_digit_a in Hc. unfold sep, is_space_a. lia. Qed.
Lemma ns_dec z : ns (dec_of_Z z) /\ dec_of_Z z <> [].
Proof.
  destruct z as [|p|p]; cbn [dec_of_Z].
  - destruct (dec_of_N_spec (Z.to_N 0)) as [A [B _]]. split; [apply ns_digits; exact B|exact A].
  - destruct (dec_of_N_spec (Z.to_N (Z.pos p))) as [A [B _]]. split; [apply ns_digits; exact B|exact A].
  - destruct (dec_of_N_spec (N.pos p)) as [A [B _]]. split; [|discriminate].
    constructor; [reflexivity|apply ns_digits; exact B].
Qed.
Lemma ns_opw legacy i : ns (opw legacy i) /\ opw legacy i <> [].
Proof.
  unfold opw. split.
  - apply Forall_app. split; [apply ns_opcode|]. destruct legacy; [constructor|apply ns_opmode].
  - destruct (i_op i); discriminate.
Qed.

Lemma blank_cons c s : c = 32 \/ c = 44 -> blank s -> blank (c :: s).
Proof. intros; constructor; assumption. Qed.
Lemma line_chunks_ok m legacy i : chunks_ok (line_chunks m legacy i).
Proof.
  unfold line_chunks, chunks_ok.
  destruct (ns_opw legacy i) as [O1 O2].
  destruct (ns_dec (address_signed m (i_a i))) as [A1 A2].
  destruct (ns_dec (address_signed m (i_b i))) as [B1 B2].
  assert (Bl : forall k, blank (32 :: repeat 32 k)) by (intros k; apply blank_cons; [auto|apply blank_repeat]).
  constructor; [|constructor; [|constructor; [|constructor; [|constructor; [|constructor]]]]]; cbn [fst snd].
  - split; [exact O1|]. split; [exact O2|]. split.
    + apply Forall_app. split; [apply blank_repeat|apply blank_cons; [auto|constructor]].
    + destruct (repeat 32 _); discriminate.
  - split; [apply ns_amode|]. split; [discriminate|]. split; [apply Bl|discriminate].
  - split; [exact A1|]. split; [exact A2|]. split; [|discriminate].
    apply blank_cons; [auto|apply blank_cons; [auto|constructor]].
  - split; [apply ns_amode|]. split; [discriminate|]. split; [apply Bl|discriminate].
  - split; [exact B1|]. split; [exact B2|]. split; [|discriminate].
    repeat (apply blank_cons; [auto|]). constructor.
Qed.

Lemma body_ok m legacy is_start i :
  words (line_body m legacy is_start i) [] = line_words m legacy is_start i /\
  Forall (fun c => c <> 10) (line_body m legacy is_start i).
Proof.
  pose proof (line_chunks_ok m legacy i) as H.
  unfold line_body, line_words. destruct is_start.
  - assert (H' : chunks_ok ((s2t "START", 32 :: 32 :: repeat 32 (3 - length (opcode_name (i_op i)))) :: line_chunks m legacy i)).
    { constructor; [|exact H]. cbn [fst snd]. split; [repeat constructor|]. split; [discriminate|].
      split; [|discriminate]. constructor; [auto|]. constructor; [auto|]. apply blank_repeat. }
    split; [rewrite words_chunks; [reflexivity|constructor|exact H']|].
    apply nonl_chunks; [constructor|exact H'].
  - assert (B : blank (32 :: 32 :: 32 :: 32 :: 32 :: 32 :: 32 :: repeat 32 (3 - length (opcode_name (i_op i))))).
    { repeat (constructor; [auto|]). apply blank_repeat. }
    split; [rewrite words_chunks by assumption; reflexivity|apply nonl_chunks; assumption].
Qed.

(* ---------- reading one line back ---------- *)
Lemma field_back m a : 0 < m -> a < m ->
  Z.to_N (address_signed m a mod Z.of_N m) = a.
Proof.
  intros Hm Ha. unfold address_signed. destruct (m / 2 <? a) eqn:E.
  - replace (- (Z.of_N m - Z.of_N a))%Z with (Z.of_N a + (-1) * Z.of_N m)%Z by lia.
    rewrite Z_mod_plus_full, Z.mod_small by lia. lia.
  - rewrite Z.mod_small by lia. lia.
Qed.
Lemma field_range m a : m <= 2 ^ 63 -> a < m -> (- 2 ^ 63 <= address_signed m a < 2 ^ 63)%Z.
Proof.
  intros Hm Ha. unfold address_signed. change (2 ^ 63) with 9223372036854775808 in *.
  change (2 ^ 63)%Z with 9223372036854775808%Z. destruct (m / 2 <? a) eqn:E; lia.
Qed.

Lemma opw_not_start legacy i : text_eqb (opw legacy i) (s2t "START") = false.
Proof. unfold opw. destruct (i_op i); reflexivity. Qed.
Lemma split_dot_opw legacy i :
  split_dot (opw legacy i) = (opcode_name (i_op i), if legacy then None else Some (opmode_name (i_md i))).
Proof. unfold opw. destruct (i_op i), legacy; reflexivity. Qed.
Lemma opcode_back o : opcode_of_name (opcode_name o) = Some o.
Proof. destruct o; reflexivity. Qed.
Lemma opmode_back o : opmode_of_name (opmode_name o) = Some o.
Proof. destruct o; reflexivity. Qed.
Lemma amode_back a : amode_of_char (amode_char a) = Some a.
Proof. destruct a; reflexivity. Qed.

Definition line_hyp (m : N) (legacy : bool) (i : instr) : Prop :=
  i_a i < m /\ i_b i < m /\ (legacy = true -> implied_modifier_88 (i_op i) (i_am i) (i_bm i) = Some (i_md i)).

Lemma read_line_back m legacy is_start i : 0 < m -> m <= 2 ^ 63 -> line_hyp m legacy i ->
  read_listing_line legacy m (line_words m legacy is_start i) = Some (is_start, i).
Proof.
  intros Hm Hm' [Ha [Hb Hl]].
  unfold read_listing_line, line_words.
  destruct is_start; cbn [app].
  - change (text_eqb (s2t "START") (s2t "START")) with true. cbv iota.
    rewrite split_dot_opw, opcode_back, !amode_back, !parse_int_dec by (apply field_range; assumption).
    rewrite !field_back by assumption.
    destruct legacy; [rewrite Hl by reflexivity|rewrite opmode_back]; destruct i; reflexivity.
  - rewrite opw_not_start.
    rewrite split_dot_opw, opcode_back, !amode_back, !parse_int_dec by (apply field_range; assumption).
    rewrite !field_back by assumption.
    destruct legacy; [rewrite Hl by reflexivity|rewrite opmode_back]; destruct i; reflexivity.
Qed.

(* ---------- the whole listing ---------- *)
Fixpoint tagged (start k : Z) (code : list instr) : list (bool * instr) :=
  match code with
  | [] => []
  | i :: t => ((k =? start)%Z, i) :: tagged start (k + 1) t
  end.
Definition lw (m : N) (legacy : bool) (x : bool * instr) : list text := line_words m legacy (fst x) (snd x).
Definition lb (m : N) (legacy : bool) (x : bool * instr) : text := line_body m legacy (fst x) (snd x).

Lemma listing_lines_bodies m legacy start : forall code k,
  listing_lines m legacy start k code =
  concat (map (fun b => b ++ [10]) (map (lb m legacy) (tagged start k code))).
Proof.
  induction code as [|i t IH]; intros k; [reflexivity|].
  cbn [listing_lines tagged map concat]. rewrite listing_line_body, IH. reflexivity.
Qed.
Lemma bodies_nonl m legacy tg : Forall (Forall (fun c => c <> 10)) (map (lb m legacy) tg).
Proof. induction tg as [|x t IH]; cbn [map]; constructor; [apply body_ok|exact IH]. Qed.
Lemma bodies_words m legacy tg : map (fun l => words l []) (map (lb m legacy) tg) = map (lw m legacy) tg.
Proof. rewrite map_map. apply map_ext. intros x. apply body_ok. Qed.

Definition nonempty (ws : list text) : bool := match ws with [] => false | _ => true end.
Lemma filter_nonempty m legacy tg : filter nonempty (map (lw m legacy) tg) = map (lw m legacy) tg.
Proof.
  induction tg as [|[st i] t IH]; [reflexivity|]. cbn [map filter].
  replace (nonempty (lw m legacy (st, i))) with true by (unfold lw, line_words; destruct st; reflexivity).
  f_equal. exact IH.
Qed.
Lemma filter_nodir m legacy tg :
  filter (fun ws => negb (is_directive ws)) (map (lw m legacy) tg) = map (lw m legacy) tg.
Proof.
  induction tg as [|[st i] t IH]; [reflexivity|]. cbn [map filter].
  replace (is_directive (lw m legacy (st, i))) with false by (unfold lw, line_words; destruct st; reflexivity).
  cbn [negb]. f_equal. exact IH.
Qed.
Lemma tagged_hyp (P : instr -> Prop) start : forall code k, Forall P code -> Forall (fun x => P (snd x)) (tagged start k code).
Proof. induction code as [|i t IH]; intros k H; cbn [tagged]; inversion H; subst; constructor; auto. Qed.
Lemma parsed_back m legacy tg : 0 < m -> m <= 2 ^ 63 -> Forall (fun x => line_hyp m legacy (snd x)) tg ->
  map (read_listing_line legacy m) (map (lw m legacy) tg) = map Some tg.
Proof.
  intros Hm Hm' H. induction H as [|[st i] t Hx Ht IH]; [reflexivity|].
  cbn [map]. unfold lw at 1. cbn [fst snd] in *. rewrite read_line_back by assumption. f_equal. exact IH.
Qed.
Lemma forallb_some {A} (l : list A) :
  forallb (fun x : option A => match x with Some _ => true | None => false end) (map Some l) = true.
Proof. induction l; cbn; auto. Qed.
Lemma flat_some {A} (l : list A) :
  flat_map (fun x : option A => match x with Some y => [y] | None => [] end) (map Some l) = l.
Proof. induction l; cbn; congruence. Qed.

Lemma tagged_length start : forall code k, length (tagged start k code) = length code.
Proof. induction code; intros; cbn; auto. Qed.
Lemma tagged_snd start : forall code k, map snd (tagged start k code) = code.
Proof. induction code; intros; cbn; f_equal; auto. Qed.
Lemma tagged_nth start d : forall code k j, (j < length code)%nat ->
  fst (nth j (tagged start k code) d) = (k + Z.of_nat j =? start)%Z.
Proof.
  induction code as [|i t IH]; intros k j H; cbn [length] in H; [lia|].
  destruct j as [|j]; cbn [tagged nth fst].
  - f_equal. lia.
  - rewrite IH by lia. f_equal. lia.
Qed.
Lemma filter_seq_eq s : forall n a,
  filter (fun j => (Z.of_nat j =? s)%Z) (seq a n) =
  if ((Z.of_nat a <=? s) && (s <? Z.of_nat (a + n)))%Z%bool then [Z.to_nat s] else [].
Proof.
  induction n as [|n IH]; intros a.
  - cbn [seq filter]. destruct (Z.of_nat a <=? s)%Z eqn:A, (s <? Z.of_nat (a + 0))%Z eqn:B; cbn [andb]; try reflexivity; lia.
  - cbn [seq filter]. rewrite IH.
    destruct (Z.of_nat a =? s)%Z eqn:E, (Z.of_nat (S a) <=? s)%Z eqn:A, (s <? Z.of_nat (S a + n))%Z eqn:B,
             (Z.of_nat a <=? s)%Z eqn:C, (s <? Z.of_nat (a + S n))%Z eqn:D; cbn [andb]; try reflexivity; try lia.
    f_equal. lia.
Qed.

Lemma dir_words_org : words (s2t "       ORG      START") [] = [s2t "ORG"; s2t "START"].
Proof. reflexivity. Qed.
Lemma dir_words_end : words (s2t "       END      START") [] = [s2t "END"; s2t "START"].
Proof. reflexivity. Qed.
Lemma dir_nonl_org : Forall (fun c => c <> 10) (s2t "       ORG      START").
Proof. repeat constructor; discriminate. Qed.
Lemma dir_nonl_end : Forall (fun c => c <> 10) (s2t "       END      START").
Proof. repeat constructor; discriminate. Qed.

Theorem listing_round_trip m legacy code start :
  0 < m -> m <= 2 ^ 63 -> Forall (line_hyp m legacy) code ->
  (0 <= start < Z.of_nat (length code))%Z ->
  read_listing legacy m (load_code_text m legacy code start) = Some (code, start).
Proof.
  intros Hm Hm' Hc Hs.
  assert (Hne : code <> []) by (destruct code; [cbn in Hs; lia|discriminate]).
  set (tg := tagged start 0 code).
  assert (Hlines : map (fun l => words l []) (split_lines (load_code_text m legacy code start) []) =
                   if legacy then map (lw m legacy) tg ++ [[s2t "END"; s2t "START"]]
                   else [s2t "ORG"; s2t "START"] :: map (lw m legacy) tg).
  { replace (load_code_text m legacy code start) with
      ((if legacy then [] else s2t "       ORG      START" ++ [10])
       ++ listing_lines m legacy start 0 code
       ++ (if legacy then s2t "       END      START" ++ [10] else []))
      by (destruct code; [congruence|reflexivity]).
    rewrite listing_lines_bodies. fold tg. destruct legacy.
    - cbn [app].
      replace (concat (map (fun b => b ++ [10]) (map (lb m true) tg)) ++ s2t "       END      START" ++ [10])
        with (concat (map (fun b => b ++ [10]) (map (lb m true) tg ++ [s2t "       END      START"]))).
      2:{ rewrite map_app, concat_app. cbn [map concat]. rewrite app_nil_r. reflexivity. }
      rewrite split_bodies by (apply Forall_app; split; [apply bodies_nonl|constructor; [apply dir_nonl_end|constructor]]).
      rewrite map_app, bodies_words. cbn [map]. rewrite dir_words_end. reflexivity.
    - rewrite app_nil_r.
      change ((s2t "       ORG      START" ++ [10]) ++ concat (map (fun b => b ++ [10]) (map (lb m false) tg)))
        with (concat (map (fun b => b ++ [10]) (s2t "       ORG      START" :: map (lb m false) tg))).
      rewrite split_bodies by (constructor; [apply dir_nonl_org|apply bodies_nonl]).
      cbn [map]. rewrite bodies_words, dir_words_org. reflexivity. }
  unfold read_listing. rewrite Hlines. clear Hlines.
  fold nonempty.
  assert (Hbody : filter (fun ws => negb (is_directive ws))
                    (filter nonempty (if legacy then map (lw m legacy) tg ++ [[s2t "END"; s2t "START"]]
                                      else [s2t "ORG"; s2t "START"] :: map (lw m legacy) tg)) = map (lw m legacy) tg).
  { destruct legacy.
    - rewrite !filter_app, filter_nonempty, filter_nodir. cbn. apply app_nil_r.
    - cbn [filter nonempty]. rewrite filter_nonempty.
      change (is_directive [s2t "ORG"; s2t "START"]) with true. cbn [negb]. apply filter_nodir. }
  rewrite Hbody. clear Hbody.
  rewrite parsed_back by (try assumption; apply tagged_hyp; exact Hc).
  rewrite forallb_some, flat_some.
  assert (Hst : filter (fun k => fst (nth k tg (false, zero_instr))) (seq 0 (length tg)) = [Z.to_nat start]).
  { rewrite (filter_ext_in _ (fun j => (Z.of_nat j =? start)%Z)).
    - rewrite filter_seq_eq. unfold tg. rewrite tagged_length.
      replace ((Z.of_nat 0 <=? start) && (start <? Z.of_nat (0 + length code)))%Z%bool with true by lia. reflexivity.
    - intros j Hj. apply in_seq in Hj. unfold tg in *. rewrite tagged_length in Hj. rewrite tagged_nth by lia. f_equal. }
  rewrite Hst. unfold tg. rewrite tagged_snd. f_equal. f_equal. lia.
Qed.

Lemma listing_empty m legacy start : read_listing legacy m (load_code_text m legacy [] start) = Some ([], 0%Z).
Proof. reflexivity. Qed.

(* ---------- in the vocabulary of C06 / C10 ---------- *)
Lemma opmode_eqb_eq a b : opmode_eqb a b = true -> a = b.
Proof. destruct a, b; cbn; congruence. Qed.
Lemma line_hyp_of m legacy i : i_a i < m /\ i_b i < m -> (legacy = true -> legal88 i = true) -> line_hyp m legacy i.
Proof.
  intros [Ha Hb] Hl. split; [exact Ha|]. split; [exact Hb|]. intros E. specialize (Hl E). unfold legal88 in Hl.
  destruct (implied_modifier_88 (i_op i) (i_am i) (i_bm i)) as [md|]; [|discriminate].
  f_equal. apply opmode_eqb_eq. exact Hl.
Qed.

Theorem listing_denotes m legacy code start :
  0 < m -> m <= 2 ^ 63 ->
  Forall (fun i => i_a i < m /\ i_b i < m) code ->
  (legacy = true -> Forall (fun i => legal88 i = true) code) ->
  (0 <= start < Z.of_nat (length code))%Z ->
  read_listing legacy m (load_code_text m legacy code start) = Some (code, start).
Proof.
  intros Hm Hm' Hc Hl Hs. apply listing_round_trip; try assumption.
  apply Forall_forall. intros i Hi. apply line_hyp_of.
  - rewrite Forall_forall in Hc. apply Hc. exact Hi.
  - intros E. specialize (Hl E). rewrite Forall_forall in Hl. apply Hl. exact Hi.
Qed.
