(* C06Proof.v — whatever the source lines are and whatever the expressions
   evaluate to, a program the compiler accepts is well-formed: fields below the
   core size, entry point inside the code (or 0 for an empty program), length
   within the configured maximum, and under ICWS'88 only legal '88 instructions
   with the implied modifier (the independently written table of spec/Meaning.v). *)
From GM Require Import Base Text Token Parser Compile Sim Meaning AsmSpec.
From Coq Require Import Lia ZifyN ZifyBool.
Open Scope N_scope.

Lemma norm_field_lt v m : (0 < m)%Z -> norm_field v m < Z.to_N m.
Proof.
  intros Hm. unfold norm_field.
  assert (Hr : (- m < Z.rem v m < m)%Z).
  { pose proof (Z.rem_bound_pos_neg v m). pose proof (Z.rem_bound_neg_pos v m).
    pose proof (Z.rem_bound_pos_pos v m). pose proof (Z.rem_bound_neg_neg v m).
    destruct (Z.leb_spec 0 v); lia. }
  destruct (Z.ltb_spec (Z.rem v m) 0).
  - assert (0 <= Z.rem (m + Z.rem v m) m < m)%Z by (apply Z.rem_bound_pos_pos; lia). lia.
  - lia.
Qed.

(* the '88 table of the code agrees with the independently written one wherever the modes are '88 modes *)
Lemma op_mode_88_legal o am bm md :
  opcode88_of_text (opcode_name o) = Some o \/ True ->
  is88mode am = true -> is88mode bm = true ->
  op_mode_88 o am bm = Some md -> implied_modifier_88 o am bm = Some md.
Proof.
  intros _ Ha Hb. destruct o, am, bm; cbn in *; try discriminate; intros E; inversion E; reflexivity.
Qed.

Lemma amode88_is88 s m : amode88_of_text s = Some m -> is88mode m = true.
Proof.
  unfold amode88_of_text. destruct (amode_of_text s) as [[]|]; intros E; inversion E; reflexivity.
Qed.

Lemma amode88_sub s m : amode88_of_text s = Some m -> amode_of_text s = Some m.
Proof.
  unfold amode88_of_text. destruct (amode_of_text s) as [[]|]; intros E; inversion E; reflexivity.
Qed.

Definition wf_instr (M : N) (i : instr) : Prop := i_a i < M /\ i_b i < M.

Lemma assemble_line_wf cfg c ln i :
  3 <= c_size cfg ->
  assemble_line cfg c ln = AOk i ->
  wf_instr (c_size cfg) i /\ (c_mode cfg = 0 -> legal88 i = true).
Proof.
  intros HM. unfold assemble_line.
  set (m := Z.of_N (c_size cfg)).
  assert (Hm : (0 < m)%Z) by (unfold m; lia).
  assert (Hn : forall v, norm_field v m < c_size cfg)
    by (intros v; pose proof (norm_field_lt v m Hm) as X; unfold m in X; now rewrite N2Z.id in X).
  set (legacy := c_mode cfg =? 0).
  set (dflt := if legacy && lower_is (sl_op ln) "dat" then IMMEDIATE else DIRECT).
  destruct (match sl_amode ln with [] => Some dflt | _ :: _ => amode_of_text (sl_amode ln) end) as [am|] eqn:Eam; [|discriminate].
  destruct (match sl_bmode ln with [] => Some dflt | _ :: _ => amode_of_text (sl_bmode ln) end) as [bm|] eqn:Ebm; [|discriminate].
  match goal with |- context [match ?opm with Some _ => _ | None => AErr end] => destruct opm as [[o md]|] eqn:Eop end; [|discriminate].
  (* what the '88 branch guarantees *)
  assert (L88 : legacy = true -> implied_modifier_88 o am bm = Some md).
  { intros HL. rewrite HL in Eop.
    destruct (negb _) eqn:Eneg in Eop; [discriminate|].
    apply negb_false_iff, andb_prop in Eneg. destruct Eneg as [Ma Mb].
    destruct (opcode88_of_text (sl_op ln)) as [o'|] eqn:Eo; [|discriminate].
    destruct (op_mode_88 o' am bm) as [md'|] eqn:Em; [|discriminate].
    inversion Eop; subst o' md'.
    assert (Ha88 : is88mode am = true).
    { destruct (sl_amode ln) as [|ch rest] eqn:Es.
      - inversion Eam. subst dflt. rewrite HL. destruct (lower_is _ _); reflexivity.
      - destruct (amode88_of_text (ch :: rest)) as [x|] eqn:Ex; [|discriminate].
        rewrite (amode88_sub _ _ Ex) in Eam. inversion Eam; subst. exact (amode88_is88 _ _ Ex). }
    assert (Hb88 : is88mode bm = true).
    { destruct (sl_bmode ln) as [|ch rest] eqn:Es.
      - inversion Ebm. subst dflt. rewrite HL. destruct (lower_is _ _); reflexivity.
      - destruct (amode88_of_text (ch :: rest)) as [x|] eqn:Ex; [|discriminate].
        rewrite (amode88_sub _ _ Ex) in Ebm. inversion Ebm; subst. exact (amode88_is88 _ _ Ex). }
    apply op_mode_88_legal; auto. }
  assert (Fin : forall av bv am' bm',
            (legacy = true -> implied_modifier_88 o am' bm' = Some md) ->
            wf_instr (c_size cfg) (mkI o md (norm_field av m) am' (norm_field bv m) bm') /\
            (c_mode cfg = 0 -> legal88 (mkI o md (norm_field av m) am' (norm_field bv m) bm') = true)).
  { intros av bv am' bm' HL. split; [split; apply Hn|].
    intros Hmode. unfold legal88. cbn [i_op i_am i_bm i_md].
    rewrite HL by (unfold legacy; rewrite Hmode; reflexivity).
    destruct md; reflexivity. }
  (* the evaluation of an operand either fails or yields some value *)
  assert (EV : forall e : list token,
            let r := match expand_expression (expand_fuel c) m c (sl_codeline ln) e with
                     | None => inl AFuel
                     | Some None => inl AErr
                     | Some (Some x) => match evaluate_expression x with
                                        | EOk v => inr v | EErr => inl AErr | EUnmodelled => inl AUnmodelled end
                     end in
            (exists v, r = (inr v : ares + Z)) \/ r = inl AFuel \/ r = inl AErr \/ r = inl AUnmodelled).
  { intros e. cbv zeta. destruct (expand_expression _ _ _ _ e) as [[x|]|]; [destruct (evaluate_expression x)| |]; eauto. }
  cbv zeta in EV |- *.
  destruct (EV (sl_a ln)) as [[av Ea]|[Ea|[Ea|Ea]]]; rewrite Ea; try (intros E; discriminate).
  destruct (sl_b ln) as [|b0 brest].
  - destruct o; intros E; inversion E; subst i;
      try (replace 0 with (norm_field 0 m) by (unfold norm_field; rewrite Z.rem_0_l by lia; reflexivity);
           apply Fin; assumption).
    (* DAT with a single operand: #0 in A, the operand in B *)
    replace 0 with (norm_field 0 m) by (unfold norm_field; rewrite Z.rem_0_l by lia; reflexivity).
    apply Fin. intros HL. specialize (L88 HL).
    destruct am, bm; cbn in L88 |- *; try discriminate; assumption.
  - destruct (EV (b0 :: brest)) as [[bv Eb]|[Eb|[Eb|Eb]]]; rewrite Eb; try (intros E; discriminate).
    intros E; inversion E; subst i. apply Fin. assumption.
Qed.

Lemma assemble_all_wf cfg c : forall lines acc code,
  3 <= c_size cfg ->
  Forall (fun i => wf_instr (c_size cfg) i /\ (c_mode cfg = 0 -> legal88 i = true)) acc ->
  assemble_all cfg c lines acc = inr code ->
  Forall (fun i => wf_instr (c_size cfg) i /\ (c_mode cfg = 0 -> legal88 i = true)) code.
Proof.
  induction lines as [|ln t IH]; intros acc code HM Hacc E; cbn [assemble_all] in E.
  - inversion E; subst. assumption.
  - destruct (sl_typ ln); try (apply (IH acc code HM Hacc E)).
    destruct (assemble_line cfg c ln) as [i| | |] eqn:Ea; try discriminate.
    apply (IH (acc ++ [i]) code HM); [|assumption].
    apply Forall_app. split; [assumption|]. constructor; [|constructor].
    apply (assemble_line_wf cfg c ln i HM Ea).
Qed.

Theorem compile_accepts_wf cfg lines meta code start meta' :
  compile cfg lines meta = COk code start meta' ->
  Forall (wf_instr (c_size cfg)) code /\
  (0 <= start /\ (start < Z.of_nat (length code) \/ (start = 0 /\ code = [])))%Z /\
  N.of_nat (length code) <= c_len cfg /\
  (c_mode cfg = 0 -> Forall (fun i => legal88 i = true) code).
Proof.
  unfold compile. destruct (validate cfg) eqn:V; cbn [negb]; [|discriminate].
  assert (HM : 3 <= c_size cfg).
  { unfold validate in V. repeat match type of V with (_ && _)%bool = true => apply andb_prop in V; destruct V as [V ?] end.
    apply negb_true_iff, N.ltb_ge in V. assumption. }
  destruct (graph_has_cycle _) as [[|]|]; try discriminate.
  destruct (eval_assertions _ _ _) as [[v| |]|]; try discriminate.
  destruct (expand_expressions _ _) as [[resolved|]|]; try discriminate.
  destruct (assemble_all cfg _ lines []) as [e|code'] eqn:EA; [destruct e; discriminate|].
  destruct (N.ltb_spec (c_len cfg) (N.of_nat (length code'))); [discriminate|].
  destruct (expand_expression _ _ _ _ _) as [[se|]|]; try discriminate.
  destruct (evaluate_expression se) as [sv| |]; try discriminate.
  destruct ((sv <? 0)%Z || (negb (sv =? 0)%Z && (Z.of_nat (length code') <=? sv)%Z))%bool eqn:Es; [discriminate|].
  intros E. inversion E; subst code' sv meta'. clear E.
  pose proof (assemble_all_wf cfg _ lines [] code HM (Forall_nil _) EA) as W.
  apply orb_false_iff in Es. destruct Es as [E1 E2]. apply Z.ltb_ge in E1.
  split; [eapply Forall_impl; [|exact W]; intros i [A _]; exact A|].
  split.
  - split; [assumption|].
    apply andb_false_iff in E2. destruct E2 as [E2|E2].
    + apply negb_false_iff, Z.eqb_eq in E2. subst start.
      destruct code; [right; auto|left; cbn [length]; lia].
    + apply Z.leb_gt in E2. left. assumption.
  - split; [assumption|].
    intros Hm. eapply Forall_impl; [|exact W]. intros i [_ L]. exact (L Hm).
Qed.
