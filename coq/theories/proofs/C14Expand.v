(* C14Expand.v — expandExpressions (expr.go) walks a Go map, whose iteration order
   changes from run to run.  Whatever the order, the table it returns maps every EQU
   name to the same tokens: its value with every EQU name inside it substituted, to
   any depth. *)
From GM Require Import Base Text Token Lexer Scanner ExprSpec ExprEval ForExpand Parser Sim Compile C03Proof C10Proof C14Proof EquFuel SubstFuel.
From Coq Require Import Lia Permutation.
Open Scope N_scope.

Section Order.
Variable values : symtab.

(* the value with EQU names substituted, f levels deep *)
Fixpoint fs (f : nat) (toks : list token) : list token :=
  flat_map (fun t =>
              match t_typ t with
              | tokText => match sym_find (t_val t) values with
                           | Some v => match f with O => [t] | S f' => fs f' v end
                           | None => [t]
                           end
              | _ => [t]
              end) toks.

Lemma fs_app f a b : fs f (a ++ b) = fs f a ++ fs f b.
Proof. destruct f; cbn [fs]; apply flat_map_app. Qed.
Lemma fs_cons f t r : fs f (t :: r) = fs f [t] ++ fs f r.
Proof. apply (fs_app f [t] r). Qed.
Lemma fs_zero v : fs 0 v = v.
Proof.
  induction v as [|t r IH]; [reflexivity|]. rewrite fs_cons, IH. cbn [fs flat_map app].
  destruct (t_typ t); try reflexivity. destruct (sym_find (t_val t) values); reflexivity.
Qed.
Lemma fs_one_tok f t : fs (S f) [t] =
  match t_typ t with
  | tokText => match sym_find (t_val t) values with Some v => fs f v | None => [t] end
  | _ => [t]
  end.
Proof. cbn [fs flat_map]. rewrite app_nil_r. reflexivity. Qed.

Notation kfree := (key_free values).
Lemma kfree_app a b : kfree (a ++ b) <-> kfree a /\ kfree b.
Proof. unfold key_free. apply Forall_app. Qed.

(* once free of EQU names, deeper substitution changes nothing *)
Lemma fs_stable f : forall v, kfree (fs f v) -> fs (S f) v = fs f v.
Proof.
  induction f as [|f IH]; intros v H.
  - rewrite fs_zero in *. induction v as [|t r IHr]; [reflexivity|].
    unfold key_free in H. inversion H as [|x y Ht Hr]; subst. rewrite fs_cons, (IHr Hr), fs_one_tok.
    destruct (t_typ t) eqn:Et; try reflexivity. specialize (Ht eq_refl). unfold sym_has in Ht.
    destruct (sym_find (t_val t) values); [discriminate Ht|reflexivity].
  - induction v as [|t r IHr]; [reflexivity|].
    rewrite (fs_cons (S (S f))), (fs_cons (S f)). rewrite fs_cons in H. apply kfree_app in H. destruct H as [H1 H2].
    rewrite (IHr H2). f_equal. rewrite !fs_one_tok. rewrite fs_one_tok in H1.
    destruct (t_typ t); try reflexivity. destruct (sym_find (t_val t) values) as [v0|]; [|reflexivity].
    apply IH. exact H1.
Qed.
Lemma fs_stable_le f f' v : (f <= f')%nat -> kfree (fs f v) -> fs f' v = fs f v.
Proof.
  intros Hle H. induction Hle as [|m Hle IH]; [reflexivity|]. rewrite <- IH. apply fs_stable. rewrite IH. exact H.
Qed.
(* two substitutions free of names are the same substitution *)
Lemma fs_unique f1 f2 v : kfree (fs f1 v) -> kfree (fs f2 v) -> fs f1 v = fs f2 v.
Proof.
  intros H1 H2. destruct (Nat.le_ge_cases f1 f2) as [H|H].
  - symmetry. apply fs_stable_le; assumption.
  - apply fs_stable_le; assumption.
Qed.

(* ---------- the invariant of the memoised expansion ---------- *)
Let g := build_graph values.
Definition FSI (res : symtab) : Prop :=
  forall k v', sym_find k res = Some v' -> exists v f, sym_find k values = Some v /\ v' = fs f v /\ kfree v'.

Lemma FSI_sub res k : FSI res -> sym_has k res = true -> sym_has k values = true.
Proof. intros H Hk. unfold sym_has in *. destruct (sym_find k res) as [v'|] eqn:E; [|discriminate]. destruct (H k v' E) as [v [f [Ev _]]]. rewrite Ev. reflexivity. Qed.

Lemma subst_is_fs res : FSI res -> forall value,
  (forall t, In t value -> t_typ t = tokText -> sym_has (t_val t) values = true -> sym_has (t_val t) res = true) ->
  exists m, forall m', (m <= m')%nat -> subst_resolved res value = fs (S m') value.
Proof.
  intros HF. induction value as [|t r IH]; intros Hd.
  - exists 0%nat. intros m' _. reflexivity.
  - destruct (IH (fun t0 H => Hd t0 (or_intror H))) as [m1 Hm1].
    assert (Ht : exists m2, forall m', (m2 <= m')%nat -> subst_resolved res [t] = fs (S m') [t]).
    { unfold subst_resolved. cbn [flat_map]. rewrite app_nil_r. destruct (t_typ t) eqn:Et;
        try (exists 0%nat; intros m' _; rewrite fs_one_tok, Et; reflexivity).
      destruct (sym_find (t_val t) values) as [vt|] eqn:Ev.
      - assert (Hin : sym_has (t_val t) res = true) by (apply (Hd t (or_introl eq_refl) Et); unfold sym_has; rewrite Ev; reflexivity).
        unfold sym_has in Hin. destruct (sym_find (t_val t) res) as [v'|] eqn:Er; [|discriminate Hin].
        destruct (HF _ _ Er) as [v0 [f [Ev0 [Ef Hk]]]]. rewrite Ev in Ev0. inversion Ev0; subst v0.
        exists f. intros m' Hle. rewrite fs_one_tok, Et, Ev. rewrite Ef. symmetry. apply fs_stable_le; [exact Hle|rewrite <- Ef; exact Hk].
      - exists 0%nat. intros m' _. rewrite fs_one_tok, Et, Ev.
        destruct (sym_find (t_val t) res) as [v'|] eqn:Er; [|reflexivity].
        exfalso. assert (X : sym_has (t_val t) values = true) by (apply (FSI_sub res); [exact HF|unfold sym_has; rewrite Er; reflexivity]).
        unfold sym_has in X. rewrite Ev in X. discriminate X. }
    destruct Ht as [m2 Hm2]. exists (Nat.max m1 m2). intros m' Hle.
    assert (Ec : subst_resolved res (t :: r) = subst_resolved res [t] ++ subst_resolved res r)
      by (unfold subst_resolved; cbn [flat_map]; rewrite app_nil_r; reflexivity).
    rewrite Ec.
    rewrite (fs_cons (S m')), (Hm1 m') by lia. rewrite (Hm2 m') by lia. reflexivity.
Qed.

Definition ev_spec2 (rec : text -> symtab -> option (option symtab)) : Prop :=
  forall key res res', FSI res -> rec key res = Some (Some res') ->
    FSI res' /\ grows res res' /\ sym_has key res' = true.

Lemma ev_go_spec2 rec : ev_spec2 rec -> forall deps res r2, FSI res ->
  ev_go rec deps res = Some (Some r2) -> FSI r2 /\ grows res r2 /\ forall d, In d deps -> sym_has d r2 = true.
Proof.
  intros Hrec. induction deps as [|d t IH]; intros res r2 HF E; cbn [ev_go] in E.
  - inversion E; subst. split; [exact HF|]. split; [intros k Hk; exact Hk|intros d []].
  - destruct (sym_has d res) eqn:Ed.
    + destruct (IH res r2 HF E) as [A [C D]]. split; [exact A|]. split; [exact C|].
      intros d0 [<-|Hin]; [apply C; exact Ed|apply D; exact Hin].
    + destruct (rec d res) as [[res1|]|] eqn:Er; try discriminate E.
      destruct (Hrec d res res1 HF Er) as [A1 [C1 D1]].
      destruct (IH res1 r2 A1 E) as [A [C D]]. split; [exact A|]. split; [intros k Hk; apply C; apply C1; exact Hk|].
      intros d0 [<-|Hin]; [apply C; exact D1|apply D; exact Hin].
Qed.

Lemma FSI_KF res : FSI res -> KF values res.
Proof. intros H k v Hk. destruct (H k v Hk) as [v0 [f [_ [_ Hf]]]]. exact Hf. Qed.

Lemma expand_value_spec2 f : ev_spec2 (expand_value f values g).
Proof.
  induction f as [|f IH]; intros key res res' HF E; [discriminate E|].
  rewrite expand_value_S in E.
  destruct (sym_find key values) as [value|] eqn:Ev; [|discriminate E].
  destruct (sym_has key res) eqn:Eh.
  - inversion E; subst. split; [exact HF|]. split; [intros k Hk; exact Hk|exact Eh].
  - set (deps := match g_find key g with Some d => d | None => [] end) in *.
    destruct (ev_go (expand_value f values g) deps res) as [[r2|]|] eqn:Eg; try discriminate E.
    inversion E; subst. clear E.
    destruct (ev_go_spec2 _ IH deps res r2 HF Eg) as [A [C D]].
    assert (Hdeps : forall t, In t value -> t_typ t = tokText -> sym_has (t_val t) values = true -> sym_has (t_val t) r2 = true).
    { intros t Ht Ety Es. apply D. destruct value as [|t0 v0]; [destruct Ht|].
      assert (Egf : g_find key g = Some (key_refs values (t0 :: v0))).
      { unfold g. rewrite build_graph_bg. apply bg_find; [exact Ev|discriminate]. }
      unfold deps. rewrite Egf. rewrite key_refs_fold. apply key_fold_has; assumption. }
    destruct (subst_is_fs r2 A value Hdeps) as [m Hm].
    assert (Hkf : kfree (subst_resolved r2 value)) by (apply subst_key_free; [apply FSI_KF; exact A|exact Hdeps]).
    assert (Hhas : forall k, sym_has k (sym_set key (subst_resolved r2 value) r2) = if text_eqb k key then true else sym_has k r2).
    { intros k. unfold sym_has. destruct (text_eqb k key) eqn:Ek.
      - apply text_eqb_eq in Ek. subst k. rewrite sym_find_set_same. reflexivity.
      - rewrite sym_find_set_other by exact Ek. reflexivity. }
    split; [|split].
    + intros k v' Hk. destruct (text_eqb k key) eqn:Ek.
      * apply text_eqb_eq in Ek. subst k. rewrite sym_find_set_same in Hk. inversion Hk; subst.
        exists value, (S m). split; [exact Ev|]. split; [apply Hm; lia|exact Hkf].
      * rewrite sym_find_set_other in Hk by exact Ek. apply (A k v' Hk).
    + intros k Hk. rewrite Hhas. destruct (text_eqb k key); [reflexivity|]. apply C. exact Hk.
    + rewrite Hhas, text_eqb_refl. reflexivity.
Qed.

Lemma ee_go_spec2 : forall ks res r2, FSI res -> ee_go values g ks res = Some (Some r2) ->
  FSI r2 /\ grows res r2 /\ forall k, In k (map fst ks) -> sym_has k r2 = true.
Proof.
  induction ks as [|[k v] t IH]; intros res r2 HF E; cbn [ee_go] in E.
  - inversion E; subst. split; [exact HF|]. split; [intros k Hk; exact Hk|intros k []].
  - destruct (sym_has k res) eqn:Ek.
    + destruct (IH res r2 HF E) as [A [C D]]. split; [exact A|]. split; [exact C|].
      intros k0 [<-|Hin]; [apply C; exact Ek|apply D; exact Hin].
    + destruct (expand_value (S (S (length values))) values g k res) as [[res1|]|] eqn:Er; try discriminate E.
      destruct (expand_value_spec2 _ k res res1 HF Er) as [A1 [C1 D1]].
      destruct (IH res1 r2 A1 E) as [A [C D]]. split; [exact A|]. split; [intros k0 Hk; apply C; apply C1; exact Hk|].
      intros k0 [<-|Hin]; [apply C; exact D1|apply D; exact Hin].
Qed.
End Order.

(* ---------- the order of the walk does not matter ---------- *)
Lemma fs_ext v1 v2 : (forall k, sym_find k v1 = sym_find k v2) -> forall f toks, fs v1 f toks = fs v2 f toks.
Proof.
  intros H. induction f as [|f IH]; intros toks; cbn [fs]; apply flat_map_ext; intros t; destruct (t_typ t); try reflexivity; rewrite H;
    destruct (sym_find (t_val t) v2); try reflexivity. apply IH.
Qed.
Lemma key_free_ext v1 v2 : (forall k, sym_find k v1 = sym_find k v2) -> forall l, key_free v1 l -> key_free v2 l.
Proof. intros H l Hl. unfold key_free in *. eapply Forall_impl; [|exact Hl]. intros t Ht Et. specialize (Ht Et). unfold sym_has in *. rewrite <- H. exact Ht. Qed.

Lemma sym_find_in k (m : symtab) v : sym_find k m = Some v -> In k (map fst m).
Proof.
  induction m as [|[k' v'] t IH]; intros H; [discriminate|]. cbn [sym_find] in H. destruct (text_eqb k k') eqn:E.
  - apply text_eqb_eq in E. subst. left. reflexivity.
  - right. apply IH. exact H.
Qed.

Theorem expand_order_independent values values' r1 r2 :
  (forall k, sym_find k values = sym_find k values') ->
  expand_expressions values (build_graph values) = Some (Some r1) ->
  expand_expressions values' (build_graph values') = Some (Some r2) ->
  forall k, sym_find k r1 = sym_find k r2.
Proof.
  intros Hsame E1 E2 k. rewrite expand_expressions_eq in E1, E2.
  destruct (ee_go_spec2 values values [] r1 ltac:(intros k0 v0 H; discriminate H) E1) as [F1 [_ D1]].
  destruct (ee_go_spec2 values' values' [] r2 ltac:(intros k0 v0 H; discriminate H) E2) as [F2 [_ D2]].
  destruct (sym_find k values) as [v|] eqn:Ev.
  - assert (Ev' : sym_find k values' = Some v) by (rewrite <- Hsame; exact Ev).
    pose proof (D1 k (sym_find_in _ _ _ Ev)) as H1. pose proof (D2 k (sym_find_in _ _ _ Ev')) as H2.
    unfold sym_has in H1, H2.
    destruct (sym_find k r1) as [v1|] eqn:R1; [|discriminate H1]. destruct (sym_find k r2) as [v2|] eqn:R2; [|discriminate H2].
    destruct (F1 k v1 R1) as [w1 [f1 [W1 [X1 K1]]]]. destruct (F2 k v2 R2) as [w2 [f2 [W2 [X2 K2]]]].
    rewrite Ev in W1. rewrite Ev' in W2. inversion W1; inversion W2; subst w1 w2.
    f_equal. rewrite X1, X2. rewrite <- (fs_ext values values' Hsame f2 v).
    apply fs_unique.
    + rewrite <- X1. exact K1.
    + rewrite (fs_ext values values' Hsame f2 v), <- X2. apply (key_free_ext values' values); [intros k0; symmetry; apply Hsame|exact K2].
  - assert (Ev' : sym_find k values' = None) by (rewrite <- Hsame; exact Ev).
    destruct (sym_find k r1) as [v1|] eqn:R1.
    { destruct (F1 k v1 R1) as [w1 [f1 [W1 _]]]. rewrite Ev in W1. discriminate W1. }
    destruct (sym_find k r2) as [v2|] eqn:R2; [|reflexivity].
    destruct (F2 k v2 R2) as [w2 [f2 [W2 _]]]. rewrite Ev' in W2. discriminate W2.
Qed.

(* two listings of one map: the same pairs in any order, no name twice *)
Lemma sym_find_notin k (m : symtab) : ~ In k (map fst m) -> sym_find k m = None.
Proof.
  induction m as [|[k' v'] t IH]; intros H; [reflexivity|]. cbn [sym_find]. destruct (text_eqb k k') eqn:E.
  - apply text_eqb_eq in E. subst. exfalso. apply H. left. reflexivity.
  - apply IH. intros Hin. apply H. right. exact Hin.
Qed.
Lemma sym_find_perm (m m' : symtab) : Permutation m m' -> NoDup (map fst m) -> forall k, sym_find k m = sym_find k m'.
Proof.
  intros P. induction P as [|[k0 v0] l l' P IH|[k1 v1] [k2 v2] l|l l' l'' P1 IH1 P2 IH2]; intros Hnd k.
  - reflexivity.
  - cbn [sym_find]. inversion Hnd; subst. rewrite (IH H2). reflexivity.
  - cbn [sym_find]. cbn [map fst] in Hnd. inversion Hnd as [|a b Hn1 Hn2]; subst.
    destruct (text_eqb k k2) eqn:E2, (text_eqb k k1) eqn:E1; try reflexivity.
    apply text_eqb_eq in E1, E2. subst. exfalso. apply Hn1. left. reflexivity.
  - rewrite (IH1 Hnd). apply IH2. apply (Permutation_NoDup (Permutation_map fst P1) Hnd).
Qed.

Corollary expand_any_order values values' r1 r2 :
  Permutation values values' -> NoDup (map fst values) ->
  expand_expressions values (build_graph values) = Some (Some r1) ->
  expand_expressions values' (build_graph values') = Some (Some r2) ->
  forall k, sym_find k r1 = sym_find k r2.
Proof. intros P Hnd. apply expand_order_independent. apply sym_find_perm; assumption. Qed.
