(* C09Asm.v — the assembler half of the load-file round trip: the canonical
   load-file layout of a warrior, read by CompileWarrior (lexer, symbol scanner,
   parser, compiler), gives back the warrior. *)
From GM Require Import Base Text Token Lexer Scanner ExprSpec ExprEval ForExpand Parser Sim Compile
     Meaning Render LoadPrint AsmSpec C03Lexer C05Lexer ScanProof C09Parse C09Lex C09Compile.
From Coq Require Import Lia.
Open Scope N_scope.

Lemma canon_op_plain legacy i :
  lower_is (canon_op legacy i) "for" = false /\ lower_is (canon_op legacy i) "equ" = false.
Proof. unfold canon_op. destruct legacy, (i_op i), (i_md i); split; reflexivity. Qed.

Lemma fld_toks_facts sg m a : Forall (fun t => nonterm t /\ t_typ t <> tokText) (fld_toks sg m a).
Proof. unfold fld_toks. destruct (_ && _); repeat constructor; cbn; discriminate. Qed.

Lemma instr_toks_facts legacy sg m i :
  Forall (fun t => nonterm t /\ (t_typ t = tokText -> lower_is (t_val t) "for" = false /\ lower_is (t_val t) "equ" = false))
         (instr_toks legacy sg m i).
Proof.
  unfold instr_toks. destruct (canon_op_plain legacy i) as [P1 P2].
  assert (F : forall a, Forall (fun t => nonterm t /\ (t_typ t = tokText -> lower_is (t_val t) "for" = false /\ lower_is (t_val t) "equ" = false))
                               (fld_toks sg m a)).
  { intros a. eapply Forall_impl; [|apply fld_toks_facts]. intros t [H1 H2]. split; [exact H1|]. intros X. congruence. }
  repeat (apply Forall_app; split); try apply F;
    repeat constructor; cbn [t_typ t_val]; try discriminate; try reflexivity; try (intros _; split; assumption); try assumption.
Qed.

Lemma canon_toks_facts legacy sg m code start :
  closed_stream (canon_toks legacy sg m code start) /\
  Forall (fun t => t_typ t = tokText -> lower_is (t_val t) "for" = false /\ lower_is (t_val t) "equ" = false)
         (canon_toks legacy sg m code start).
Proof.
  set (P := fun t => nonterm t /\ (t_typ t = tokText -> lower_is (t_val t) "for" = false /\ lower_is (t_val t) "equ" = false)).
  assert (Hc : Forall P (flat_map (instr_toks legacy sg m) code)).
  { induction code as [|i t IH]; [constructor|]. cbn [flat_map]. apply Forall_app. split; [apply instr_toks_facts|exact IH]. }
  assert (Hd : forall kw, (kw = s2t "ORG" \/ kw = s2t "END") -> Forall P (dir_toks kw start)).
  { intros kw [-> | ->]; repeat constructor; cbn [t_typ t_val]; try discriminate; try reflexivity; intros _; split; reflexivity. }
  assert (Hall : Forall P (if legacy then flat_map (instr_toks legacy sg m) code ++ dir_toks (s2t "END") start
                           else dir_toks (s2t "ORG") start ++ flat_map (instr_toks legacy sg m) code)).
  { destruct legacy; apply Forall_app; split; try exact Hc; apply Hd; auto. }
  unfold canon_toks. split.
  - apply closed_one; [reflexivity|]. eapply Forall_impl; [|exact Hall]. intros t [H _]. exact H.
  - apply Forall_app. split; [eapply Forall_impl; [|exact Hall]; intros t [_ H]; exact H|].
    constructor; [discriminate|constructor].
Qed.

(* a stream without the words FOR and EQU has no count lines to examine *)
Lemma counts_modelled_plain toks :
  Forall (fun t => t_typ t = tokText -> lower_is (t_val t) "for" = false /\ lower_is (t_val t) "equ" = false) toks ->
  counts_modelled toks None = true.
Proof.
  induction toks as [|t r IH]; intros H; [reflexivity|]. inversion H as [|x y Ht Hr]; subst. cbn [counts_modelled].
  destruct (t_typ t) eqn:E; cbn [count_line_ok andb]; try (apply IH; exact Hr).
  destruct (Ht eq_refl) as [F1 F2]. rewrite F1, F2. cbn [orb]. apply IH. exact Hr.
Qed.

(* the assembler half of C09, for the canonical layout *)
Theorem asm_canon cfg sg code start :
  validate cfg = true -> c_size cfg <= 2147483648 -> wf_code cfg code ->
  (0 <= start < Z.of_nat (length code))%Z -> N.of_nat (length code) <= c_len cfg ->
  compile_warrior cfg (canon_print (c_mode cfg =? 0) sg (c_size cfg) code start) = COk code start (mkPM [] [] []).
Proof.
  intros Hv Hm Hw Hs Hl. unfold compile_warrior. rewrite lex_canon.
  destruct (canon_toks_facts (c_mode cfg =? 0) sg (c_size cfg) code start) as [C P].
  rewrite (counts_modelled_plain _ P). cbn [negb].
  destruct (scan_input_plain _ C P) as [syms Es].
  change (pass_loop cfg (S max_for_passes) (canon_toks (c_mode cfg =? 0) sg (c_size cfg) code start))
    with (match scan_input (canon_toks (c_mode cfg =? 0) sg (c_size cfg) code start) with
          | None => None
          | Some None => Some None
          | Some (Some (syms, for_seen)) =>
            if for_seen then
              match for_expand (canon_toks (c_mode cfg =? 0) sg (c_size cfg) code start) (with_constants cfg syms) with
              | None => None
              | Some None => None
              | Some (Some r) => pass_loop cfg max_for_passes (fr_tokens r)
              end
            else Some (Some (canon_toks (c_mode cfg =? 0) sg (c_size cfg) code start))
          end).
  rewrite Es. rewrite parse_canon. apply compile_canon; assumption.
Qed.
