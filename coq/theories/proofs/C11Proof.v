(* C11Proof.v — every write of a step lands within floor(W/2) of the program
   counter, every jump target and fetched cell within floor(R/2). *)
From GM Require Import Base Exec Emi94 Locality VmArith C01Phase C01Exec.
From Coq Require Import Lia ZifyN ZifyBool.
Open Scope N_scope.
Ltac Zify.zify_post_hook ::= Z.div_mod_to_equations.

Lemma fold_nearp M p L : 2 <= M -> 1 <= L <= M -> nearp M (L / 2) (fold M p L).
Proof.
  intros HM HL. unfold nearp, fold. cbv zeta.
  assert (p mod L < L) by (apply N.mod_lt; lia).
  destruct (N.ltb_spec (L / 2) (p mod L)); split; lia.
Qed.

Lemma zero_nearp M d : 2 <= M -> nearp M d 0.
Proof. unfold nearp. lia. Qed.

Lemma mod_2' x s : 0 < s -> x < 2 * s -> x mod s = if x <? s then x else x - s.
Proof.
  intros Hs Hx. destruct (N.ltb_spec x s).
  - now apply N.mod_small.
  - replace x with ((x - s) + 1 * s) at 1 by lia.
    rewrite N.mod_add by lia. apply N.mod_small. lia.
Qed.

Lemma cdist_addr M d pc x : 2 <= M -> pc < M -> nearp M d x -> cdistN M pc (addr M pc x) <= d.
Proof.
  intros HM Hpc [Hx Hd]. unfold cdistN, addr.
  rewrite (mod_2' (pc + x) M) by lia.
  destruct (N.ltb_spec (pc + x) M).
  - rewrite (mod_2' (pc + M - (pc + x)) M) by lia.
    rewrite (mod_2' (pc + x + M - pc) M) by lia.
    repeat match goal with |- context [?a <? ?b] => destruct (N.ltb_spec a b) end; lia.
  - rewrite (mod_2' (pc + M - (pc + x - M)) M) by lia.
    rewrite (mod_2' (pc + x - M + M - pc) M) by lia.
    repeat match goal with |- context [?a <? ?b] => destruct (N.ltb_spec a b) end; lia.
Qed.

Section Loc.
Variables M R W : N.
Hypothesis HM2 : 2 <= M.
Hypothesis HR : 1 <= R <= M.
Hypothesis HW : 1 <= W <= M.

(* addresses a step may write: pc + x with x within W/2 of 0 *)
Definition wnear (pc a : N) : Prop := exists x, nearp M (W / 2) x /\ a = addr M pc x.

Lemma eval_operand_loc c pc md num :
  pc < M ->
  let '(c2, rp, wp, ir) := eval_operand M R W c pc md num in
  nearp M (R / 2) rp /\ nearp M (W / 2) wp /\
  (exists t, nearp M (W / 2) t /\ forall a, a <> addr M pc t -> get c2 a = get c a) /\
  (exists c1, ir = get c1 (addr M pc rp)).
Proof.
  intros Hpc.
  pose proof (fold_nearp M num R HM2 HR) as Nr.
  pose proof (fold_nearp M num W HM2 HW) as Nw.
  unfold eval_operand, eval_operand_g.
  destruct md; cbn [mode_field predec postinc]; cbv zeta.
  3-8: (split; [apply fold_nearp; assumption|]; split; [apply fold_nearp; assumption|];
         split; [exists (fold M num W); split; [exact Nw|]; intros a Ha; rewrite ?get_upd;
                 destruct (N.eqb_spec a (addr M pc (fold M num W))); [contradiction|reflexivity]
                | eexists; reflexivity]).
  - (* DIRECT *) split; [exact Nr|]. split; [exact Nw|].
    split; [exists 0; split; [apply zero_nearp; assumption|reflexivity]|]. eexists; reflexivity.
  - (* IMMEDIATE *)
    split; [apply zero_nearp; assumption|]. split; [apply zero_nearp; assumption|].
    split; [exists 0; split; [apply zero_nearp; assumption|reflexivity]|].
    exists c. unfold addr. now rewrite N.add_0_r, N.mod_small.
Qed.

(* the opcode phase writes only the cell w *)
Lemma write_pairs_frame val ps c w a : a <> w -> get (write_pairs val ps c w) a = get c a.
Proof.
  intros Ha. unfold write_pairs. revert c.
  induction ps as [|[s d] ps IH]; intros c; cbn [fold_left fst snd]; [reflexivity|].
  rewrite IH. destruct (val s d); [|reflexivity].
  rewrite get_upd. destruct (N.eqb_spec a w); [contradiction|reflexivity].
Qed.

Lemma djn_frame (fs : list fld) c w a :
  a <> w ->
  get (fold_left (fun c f => upd c w (fun i => fset f i ((fget f i + M - 1) mod M))) fs c) a = get c a.
Proof.
  intros Ha. revert c. induction fs as [|f fs IH]; intros c; cbn [fold_left]; [reflexivity|].
  rewrite IH, get_upd. destruct (N.eqb_spec a w); [contradiction|reflexivity].
Qed.

Theorem step_core_write_local c pc :
  pc < M ->
  forall a, get (fst (step_core M R W c pc)) a <> get c a -> wnear pc a.
Proof.
  intros Hpc a Hne.
  unfold step_core, step_core_g in Hne. fold (eval_operand M R W) in Hne.
  set (IR := get c pc) in *.
  pose proof (eval_operand_loc c pc (i_am IR) (i_a IR) Hpc) as LA.
  destruct (eval_operand M R W c pc (i_am IR) (i_a IR)) as [[[c1 rpa] wpa] ira].
  destruct LA as (_ & _ & (tA & NtA & FA) & _).
  pose proof (eval_operand_loc c1 pc (i_bm IR) (i_b IR) Hpc) as LB.
  destruct (eval_operand M R W c1 pc (i_bm IR) (i_b IR)) as [[[c2 rpb] wpb] irb].
  destruct LB as (_ & Nwb & (tB & NtB & FB) & _).
  destruct (N.eq_dec a (addr M pc tA)) as [->|HA]; [exists tA; auto|].
  destruct (N.eq_dec a (addr M pc tB)) as [->|HB]; [exists tB; auto|].
  destruct (N.eq_dec a (addr M pc wpb)) as [->|Haw]; [exists wpb; auto|].
  exfalso. apply Hne. clear Hne.
  rewrite <- (FA a HA), <- (FB a HB).
  destruct (i_op IR); cbn [fst]; try reflexivity;
    try (destruct (i_md IR); first [apply write_pairs_frame; assumption
                                   | rewrite get_set; destruct (N.eqb_spec a (addr M pc wpb)); [contradiction|reflexivity]]);
    try (apply write_pairs_frame; assumption);
    try (apply djn_frame; assumption).
Qed.

Theorem step_core_jump_local c pc :
  pc < M ->
  forall x, In x (snd (step_core M R W c pc)) ->
  x = (pc + 1) mod M \/ x = (pc + 2) mod M \/ exists r, nearp M (R / 2) r /\ x = addr M pc r.
Proof.
  intros Hpc x Hin.
  unfold step_core, step_core_g in Hin. fold (eval_operand M R W) in Hin.
  set (IR := get c pc) in *.
  pose proof (eval_operand_loc c pc (i_am IR) (i_a IR) Hpc) as LA.
  destruct (eval_operand M R W c pc (i_am IR) (i_a IR)) as [[[c1 rpa] wpa] ira].
  destruct LA as (Nra & _ & _ & _).
  destruct (eval_operand M R W c1 pc (i_bm IR) (i_b IR)) as [[[c2 rpb] wpb] irb].
  assert (J : exists r, nearp M (R / 2) r /\ addr M pc rpa = addr M pc r) by (exists rpa; auto).
  destruct (i_op IR); cbn [snd] in Hin;
    repeat match type of Hin with
           | context [if ?b then _ else _] => destruct b
           end;
    cbn [In] in Hin;
    repeat match type of Hin with
           | _ \/ _ => destruct Hin as [Hin|Hin]
           | False => contradiction
           end; subst; auto.
Qed.

(* the instruction copied for an operand is read within floor(R/2) of the program counter *)
Theorem eval_operand_fetch_local c pc md num :
  pc < M ->
  let '(_, rp, _, ir) := eval_operand M R W c pc md num in
  nearp M (R / 2) rp /\ exists c1, ir = get c1 (addr M pc rp).
Proof.
  intros Hpc. pose proof (eval_operand_loc c pc md num Hpc) as L.
  destruct (eval_operand M R W c pc md num) as [[[c2 rp] wp] ir].
  destruct L as (A & _ & _ & B). auto.
Qed.
End Loc.

(* with limits equal to the core size, folding is reduction modulo M *)
Lemma fold_full M p : 0 < M -> fold M p M = p mod M.
Proof.
  intros. unfold fold. cbv zeta. destruct (M / 2 <? p mod M); lia.
Qed.

Lemma eval_operand_g_ext M fR fW fR' fW' c pc md num :
  (forall p, fR p = fR' p) -> (forall p, fW p = fW' p) ->
  eval_operand_g M fR fW c pc md num = eval_operand_g M fR' fW' c pc md num.
Proof.
  intros HR HW. unfold eval_operand_g.
  destruct md; cbn [mode_field predec postinc]; cbv zeta; rewrite ?HR, ?HW; try reflexivity;
    repeat (rewrite ?HR, ?HW); reflexivity.
Qed.

Theorem step_core_full_limits M c pc :
  0 < M -> step_core M M M c pc = step_core_unlimited M c pc.
Proof.
  intros HM. unfold step_core, step_core_unlimited, step_core_g.
  rewrite (eval_operand_g_ext M _ _ (fun p => p mod M) (fun p => p mod M) c pc)
    by (intros; apply fold_full; assumption).
  destruct (eval_operand_g M (fun p => p mod M) (fun p => p mod M) c pc (i_am (get c pc)) (i_a (get c pc)))
    as [[[c1 rpa] wpa] ira].
  rewrite (eval_operand_g_ext M _ _ (fun p => p mod M) (fun p => p mod M) c1 pc)
    by (intros; apply fold_full; assumption).
  reflexivity.
Qed.
