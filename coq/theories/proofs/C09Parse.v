(* C09Parse.v — the parser stage on the tokens of the canonical load-file layout:
   every instruction line and the ORG / END line become exactly the source lines
   the compiler stage expects. *)
From GM Require Import Base Text Token Lexer Scanner ExprSpec ExprEval ForExpand Parser Sim Compile
     Meaning Render LoadPrint C03Lexer.
From Coq Require Import Lia.
Open Scope N_scope.

(* ---------- the tokens of the canonical layout ---------- *)
Definition fld_toks (sg : bool) (m a : N) : list token :=
  if sg && (m / 2 <? a) then [minus_tok; num_tok (m - a)] else [num_tok a].
Definition instr_toks (legacy sg : bool) (m : N) (i : instr) : list token :=
  [mkT tokText (canon_op legacy i); sym [amode_char (i_am i)]] ++ fld_toks sg m (i_a i)
  ++ [mkT tokComma [44]; sym [amode_char (i_bm i)]] ++ fld_toks sg m (i_b i) ++ [nl_tok].
Definition dir_toks (kw : text) (start : Z) : list token := [mkT tokText kw; num_tok (Z.to_N start); nl_tok].
Definition canon_toks (legacy sg : bool) (m : N) (code : list instr) (start : Z) : list token :=
  (if legacy then flat_map (instr_toks legacy sg m) code ++ dir_toks (s2t "END") start
   else dir_toks (s2t "ORG") start ++ flat_map (instr_toks legacy sg m) code) ++ [tEOF].

(* ---------- the source lines they denote ---------- *)
Definition instr_sline (legacy sg : bool) (m : N) (line codeline : Z) (i : instr) : sline :=
  mkSL line codeline lineInstruction [] (canon_op legacy i) [amode_char (i_am i)] (fld_toks sg m (i_a i))
       [amode_char (i_bm i)] (fld_toks sg m (i_b i)) [] 1.
Definition dir_sline (kw : text) (line : Z) (start : Z) : sline :=
  mkSL line 0 linePseudoOp [] kw [] [num_tok (Z.to_N start)] [] [] [] 1.
Fixpoint instr_slines (legacy sg : bool) (m : N) (line codeline : Z) (code : list instr) : list sline :=
  match code with
  | [] => []
  | i :: t => instr_sline legacy sg m line codeline i :: instr_slines legacy sg m (line + 1) (codeline + 1) t
  end.

(* ---------- a parser positioned on a token list ---------- *)
Section WithMeta.
Variable mt : pmeta.      (* the metadata gathered so far: only whole-line comments change it *)
Definition ppos (l : list token) (line codeline : Z) (cur : sline) (lines : list sline) (e : bool) : parser :=
  match l with
  | t :: r => mkP r t false line codeline false cur mt e lines predefined []
  | [] => mkP [] tEOF true line codeline false cur mt e lines predefined []
  end.
Lemma pnext_ppos t t2 r line codeline cur lines e :
  pnext (ppos (t :: t2 :: r) line codeline cur lines e) =
  ppos (t2 :: r) (match t_typ t with tokNewline => (line + 1)%Z | _ => line end) codeline cur lines e.
Proof. reflexivity. Qed.

Definition plain_term (t : token) : Prop := tok_is_expr_term t = true /\ t_typ t <> tokText /\ t_typ t <> tokNewline.

Lemma expr_loop_run e : forall f t' rest line codeline cur lines en acc,
  Forall plain_term e -> tok_is_expr_term t' = false -> (length e < f)%nat ->
  expr_loop f (ppos (e ++ t' :: rest) line codeline cur lines en) acc [] =
  (ppos (t' :: rest) line codeline cur lines en, acc ++ e, []).
Proof.
  induction e as [|t e IH]; intros f t' rest line codeline cur lines en acc He Ht' Hf.
  - destruct f as [|f]; [lia|]. cbn [app expr_loop ppos p_nt]. rewrite Ht'. rewrite app_nil_r. reflexivity.
  - destruct f as [|f]; [cbn in Hf; lia|]. inversion He as [|x y [H1 [H2 H3]] Hy]; subst.
    cbn [app]. cbn [expr_loop]. replace (p_nt (ppos (t :: e ++ t' :: rest) line codeline cur lines en)) with t by reflexivity.
    rewrite H1.
    assert (Hr : match t_typ t with tokText => if mem_text (t_val t) [] then [] else [] ++ [t_val t] | _ => @nil text end = []).
    { destruct (t_typ t); try reflexivity. congruence. }
    rewrite Hr.
    assert (Hn : pnext (ppos (t :: e ++ t' :: rest) line codeline cur lines en) = ppos (e ++ t' :: rest) line codeline cur lines en).
    { destruct e as [|t2 e2]; cbn [app]; rewrite pnext_ppos; destruct (t_typ t); try reflexivity; congruence. }
    rewrite Hn. rewrite (IH f t' rest line codeline cur lines en (acc ++ [t]) Hy Ht'); [|cbn [length] in Hf; lia].
    rewrite <- app_assoc. reflexivity.
Qed.

(* ---------- single state functions on positioned parsers ---------- *)
Lemma st_line_text t r L C cur lines :
  t_typ t = tokText ->
  parse_step PLine (ppos (t :: r) L C cur lines false) = (ppos (t :: r) L C (empty_sline L) lines false, Some PLabels).
Proof. intros H. cbn [parse_step ppos p_end p_nt]. rewrite H. reflexivity. Qed.

Lemma st_labels_op t r L C cur lines en :
  t_typ t = tokText -> tok_is_op t = true ->
  parse_step PLabels (ppos (t :: r) L C cur lines en) =
  (ppos (t :: r) L C cur lines en, Some (if tok_is_pseudo t then PPseudoOp else POp)).
Proof. intros H1 H2. cbn [parse_step ppos p_nt]. rewrite H1, H2. reflexivity. Qed.

Definition set_op (c : sline) (codeline : Z) (ty : ltype) (op : text) : sline :=
  mkSL (sl_line c) codeline ty (sl_labels c) op (sl_amode c) (sl_a c) (sl_bmode c) (sl_b c) (sl_comment c) (sl_newlines c).
Definition set_amode (c : sline) (am : text) : sline :=
  mkSL (sl_line c) (sl_codeline c) (sl_typ c) (sl_labels c) (sl_op c) am (sl_a c) (sl_bmode c) (sl_b c) (sl_comment c) (sl_newlines c).
Definition set_bmode (c : sline) (bm : text) : sline :=
  mkSL (sl_line c) (sl_codeline c) (sl_typ c) (sl_labels c) (sl_op c) (sl_amode c) (sl_a c) bm (sl_b c) (sl_comment c) (sl_newlines c).
Definition add_newline (c : sline) : sline :=
  mkSL (sl_line c) (sl_codeline c) (sl_typ c) (sl_labels c) (sl_op c) (sl_amode c) (sl_a c) (sl_bmode c) (sl_b c) (sl_comment c) (sl_newlines c + 1).

Lemma st_op t t2 r L C cur lines en :
  t_typ t <> tokNewline -> tok_is_amode t2 = true ->
  parse_step POp (ppos (t :: t2 :: r) L C cur lines en) =
  (ppos (t2 :: r) L (C + 1)%Z (set_op cur C lineInstruction (t_val t)) lines en, Some PModeA).
Proof.
  intros H1 H2. cbn [parse_step]. cbv zeta.
  match goal with |- context [pnext ?q] =>
    replace (pnext q) with (ppos (t2 :: r) L (C + 1)%Z (set_op cur C lineInstruction (t_val t)) lines en)
      by (cbn; destruct (t_typ t); try reflexivity; congruence) end.
  cbn [ppos p_nt]. rewrite H2. reflexivity.
Qed.

Lemma st_mode_a t t2 r L C cur lines en :
  t_typ t <> tokNewline -> tok_is_expr_term t2 = true ->
  parse_step PModeA (ppos (t :: t2 :: r) L C cur lines en) =
  (ppos (t2 :: r) L C (set_amode cur (t_val t)) lines en, Some PExprA).
Proof.
  intros H1 H2. cbn [parse_step]. cbv zeta.
  match goal with |- context [pnext ?q] =>
    replace (pnext q) with (ppos (t2 :: r) L C (set_amode cur (t_val t)) lines en)
      by (cbn; destruct (t_typ t); try reflexivity; congruence) end.
  cbn [ppos p_nt]. rewrite H2. reflexivity.
Qed.
Lemma st_mode_b t t2 r L C cur lines en :
  t_typ t <> tokNewline -> tok_is_expr_term t2 = true ->
  parse_step PModeB (ppos (t :: t2 :: r) L C cur lines en) =
  (ppos (t2 :: r) L C (set_bmode cur (t_val t)) lines en, Some PExprB).
Proof.
  intros H1 H2. cbn [parse_step]. cbv zeta.
  match goal with |- context [pnext ?q] =>
    replace (pnext q) with (ppos (t2 :: r) L C (set_bmode cur (t_val t)) lines en)
      by (cbn; destruct (t_typ t); try reflexivity; congruence) end.
  cbn [ppos p_nt]. rewrite H2. reflexivity.
Qed.

Lemma st_comma t2 r L C cur lines en :
  tok_is_amode t2 = true ->
  parse_step Parser.PComma (ppos (mkT tokComma [44] :: t2 :: r) L C cur lines en) = (ppos (t2 :: r) L C cur lines en, Some PModeB).
Proof. intros H. cbn [parse_step]. rewrite pnext_ppos. cbn [t_typ ppos p_nt]. rewrite H. reflexivity. Qed.

Lemma st_expr_a e r L C cur lines en :
  Forall plain_term e -> sl_a cur = [] ->
  parse_step PExprA (ppos (e ++ mkT tokComma [44] :: r) L C cur lines en) =
  (ppos (mkT tokComma [44] :: r) L C (set_a cur e) lines en, Some Parser.PComma).
Proof.
  intros He Ha. cbn [parse_step].
  replace (p_refs (ppos (e ++ mkT tokComma [44] :: r) L C cur lines en)) with (@nil text) by (destruct e; reflexivity).
  replace (sl_a (p_cur (ppos (e ++ mkT tokComma [44] :: r) L C cur lines en))) with (@nil token) by (destruct e; cbn; congruence).
  rewrite (expr_loop_run e _ (mkT tokComma [44]) r L C cur lines en [] He eq_refl).
  - cbn [app]. reflexivity.
  - destruct e as [|t0 e0]; cbn [app ppos p_toks length]; [lia|]. rewrite app_length. cbn [length]. lia.
Qed.

Lemma st_expr_b e t' r L C cur lines en :
  Forall plain_term e -> sl_b cur = [] ->
  parse_step PExprB (ppos (e ++ nl_tok :: t' :: r) L C cur lines en) =
  (ppos (t' :: r) (L + 1)%Z C (add_newline (set_b cur e)) (lines ++ [add_newline (set_b cur e)]) en, Some PLine).
Proof.
  intros He Hb. cbn [parse_step].
  replace (p_refs (ppos (e ++ nl_tok :: t' :: r) L C cur lines en)) with (@nil text) by (destruct e; reflexivity).
  replace (sl_b (p_cur (ppos (e ++ nl_tok :: t' :: r) L C cur lines en))) with (@nil token) by (destruct e; cbn; congruence).
  rewrite (expr_loop_run e _ nl_tok (t' :: r) L C cur lines en [] He eq_refl).
  - cbn [app]. reflexivity.
  - destruct e as [|t0 e0]; cbn [app ppos p_toks length]; [lia|]. rewrite app_length. cbn [length]. lia.
Qed.

Lemma st_pseudo_op t t2 r L C cur lines en :
  t_typ t <> tokNewline -> tok_is_expr_term t2 = true ->
  parse_step PPseudoOp (ppos (t :: t2 :: r) L C cur lines en) =
  (ppos (t2 :: r) L C (set_op cur (sl_codeline cur) linePseudoOp (t_val t)) lines (en || lower_is (t_val t) "end"), Some PPseudoExpr).
Proof.
  intros H1 H2. cbn [parse_step]. cbv zeta.
  match goal with |- context [pnext ?q] =>
    replace (pnext q) with (ppos (t2 :: r) L C (set_op cur (sl_codeline cur) linePseudoOp (t_val t)) lines (en || lower_is (t_val t) "end"))
      by (cbn; destruct (t_typ t); try reflexivity; congruence) end.
  cbn [ppos p_nt]. rewrite H2. reflexivity.
Qed.

Lemma st_pseudo_expr e t' r L C cur lines en :
  Forall plain_term e -> sl_a cur = [] ->
  parse_step PPseudoExpr (ppos (e ++ nl_tok :: t' :: r) L C cur lines en) =
  (ppos (t' :: r) (L + 1)%Z C (add_newline (set_a cur e)) (lines ++ [add_newline (set_a cur e)]) en, Some PLine).
Proof.
  intros He Ha. cbn [parse_step].
  replace (p_refs (ppos (e ++ nl_tok :: t' :: r) L C cur lines en)) with (@nil text) by (destruct e; reflexivity).
  replace (sl_a (p_cur (ppos (e ++ nl_tok :: t' :: r) L C cur lines en))) with (@nil token) by (destruct e; cbn; congruence).
  rewrite (expr_loop_run e _ nl_tok (t' :: r) L C cur lines en [] He eq_refl).
  - cbn [app]. reflexivity.
  - destruct e as [|t0 e0]; cbn [app ppos p_toks length]; [lia|]. rewrite app_length. cbn [length]. lia.
Qed.

(* ---------- facts about the canonical tokens ---------- *)
Lemma op_tok_is_op legacy i :
  tok_is_op (mkT tokText (canon_op legacy i)) = true /\ tok_is_pseudo (mkT tokText (canon_op legacy i)) = false.
Proof. unfold canon_op. destruct legacy, (i_op i), (i_md i); vm_compute; split; reflexivity. Qed.
Lemma amode_tok am : tok_is_amode (sym [amode_char am]) = true /\ t_typ (sym [amode_char am]) <> tokNewline.
Proof. destruct am; split; try reflexivity; discriminate. Qed.
Lemma fld_plain sg m a : Forall plain_term (fld_toks sg m a) /\ fld_toks sg m a <> [] /\
  tok_is_expr_term (hd tEOF (fld_toks sg m a)) = true.
Proof.
  unfold fld_toks. destruct (sg && (m / 2 <? a)); (split; [|split; [discriminate|reflexivity]]);
    repeat constructor; cbn; try discriminate.
Qed.

Lemma parse_run_S f st p :
  parse_run (S f) st p = match parse_step st p with (p', None) => Some p' | (p', Some st') => parse_run f st' p' end.
Proof. reflexivity. Qed.

(* ---------- one instruction line ---------- *)
Lemma instr_line_run legacy sg m i t' rest L C cur lines f :
  parse_run (8 + f) PLine (ppos (instr_toks legacy sg m i ++ t' :: rest) L C cur lines false) =
  parse_run f PLine (ppos (t' :: rest) (L + 1)%Z (C + 1)%Z (instr_sline legacy sg m L C i)
                          (lines ++ [instr_sline legacy sg m L C i]) false).
Proof.
  destruct (op_tok_is_op legacy i) as [O1 O2]. destruct (amode_tok (i_am i)) as [A1 A2]. destruct (amode_tok (i_bm i)) as [B1 B2].
  destruct (fld_plain sg m (i_a i)) as [FA1 [FA2 FA3]]. destruct (fld_plain sg m (i_b i)) as [FB1 [FB2 FB3]].
  assert (EL : instr_toks legacy sg m i ++ t' :: rest =
               mkT tokText (canon_op legacy i) :: sym [amode_char (i_am i)] :: fld_toks sg m (i_a i)
               ++ mkT tokComma [44] :: sym [amode_char (i_bm i)] :: fld_toks sg m (i_b i) ++ nl_tok :: t' :: rest).
  { unfold instr_toks. cbn [app]. rewrite <- !app_assoc. cbn [app]. rewrite <- !app_assoc. reflexivity. }
  rewrite EL. clear EL.
  unfold instr_sline.
  set (FA := fld_toks sg m (i_a i)) in *. set (FB := fld_toks sg m (i_b i)) in *.
  set (top := mkT tokText (canon_op legacy i)) in *.
  change (8 + f)%nat with (S (S (S (S (S (S (S (S f)))))))).
  rewrite parse_run_S, st_line_text by reflexivity.
  rewrite parse_run_S, st_labels_op by (try reflexivity; exact O1). rewrite O2.
  rewrite parse_run_S, st_op by (try discriminate; exact A1).
  destruct FA as [|a0 FA'] eqn:EFA; [congruence|]. cbn [hd] in FA3.
  cbn [app]. rewrite parse_run_S, st_mode_a by (try exact A2; exact FA3).
  change (a0 :: FA' ++ mkT tokComma [44] :: sym [amode_char (i_bm i)] :: FB ++ nl_tok :: t' :: rest)
    with ((a0 :: FA') ++ mkT tokComma [44] :: sym [amode_char (i_bm i)] :: FB ++ nl_tok :: t' :: rest).
  rewrite parse_run_S, st_expr_a by (try exact FA1; reflexivity).
  rewrite parse_run_S, st_comma by exact B1.
  destruct FB as [|b0 FB'] eqn:EFB; [congruence|]. cbn [hd] in FB3.
  cbn [app]. rewrite parse_run_S, st_mode_b by (try exact B2; exact FB3).
  change (b0 :: FB' ++ nl_tok :: t' :: rest) with ((b0 :: FB') ++ nl_tok :: t' :: rest).
  rewrite parse_run_S, st_expr_b by (try exact FB1; reflexivity).
  reflexivity.
Qed.

(* ---------- the directive line ---------- *)
Lemma dir_line_run kw start t' rest L C cur lines f :
  tok_is_op (mkT tokText kw) = true -> tok_is_pseudo (mkT tokText kw) = true ->
  parse_run (4 + f) PLine (ppos (dir_toks kw start ++ t' :: rest) L C cur lines false) =
  parse_run f PLine (ppos (t' :: rest) (L + 1)%Z C (dir_sline kw L start) (lines ++ [dir_sline kw L start])
                          (lower_is kw "end")).
Proof.
  intros O1 O2. unfold dir_toks, dir_sline. cbn [app].
  change (4 + f)%nat with (S (S (S (S f)))).
  rewrite parse_run_S, st_line_text by reflexivity.
  rewrite parse_run_S, st_labels_op by (try reflexivity; exact O1). rewrite O2.
  rewrite parse_run_S, st_pseudo_op by (try discriminate; reflexivity).
  change (num_tok (Z.to_N start) :: nl_tok :: t' :: rest) with ([num_tok (Z.to_N start)] ++ nl_tok :: t' :: rest).
  rewrite parse_run_S, st_pseudo_expr; [reflexivity| |reflexivity].
  repeat constructor; cbn; discriminate.
Qed.

(* ---------- all instruction lines ---------- *)
Lemma instr_lines_run legacy sg m : forall code t' rest L C cur lines f,
  exists cur',
  parse_run (8 * length code + f) PLine (ppos (flat_map (instr_toks legacy sg m) code ++ t' :: rest) L C cur lines false) =
  parse_run f PLine (ppos (t' :: rest) (L + Z.of_nat (length code))%Z (C + Z.of_nat (length code))%Z cur'
                          (lines ++ instr_slines legacy sg m L C code) false).
Proof.
  induction code as [|i code IH]; intros t' rest L C cur lines f.
  - exists cur. cbn [flat_map app length instr_slines Nat.mul Nat.add Z.of_nat]. rewrite !Z.add_0_r, app_nil_r. reflexivity.
  - cbn [flat_map length instr_slines]. rewrite <- app_assoc.
    replace (8 * S (length code) + f)%nat with (8 + (8 * length code + f))%nat by lia.
    destruct (flat_map (instr_toks legacy sg m) code ++ t' :: rest) as [|x y] eqn:E.
    { destruct (flat_map (instr_toks legacy sg m) code); discriminate E. }
    rewrite instr_line_run. rewrite <- E.
    destruct (IH t' rest (L + 1)%Z (C + 1)%Z (instr_sline legacy sg m L C i) (lines ++ [instr_sline legacy sg m L C i]) f) as [cur' Hc].
    exists cur'. rewrite Hc. rewrite <- app_assoc. cbn [app].
    replace (L + 1 + Z.of_nat (length code))%Z with (L + Z.of_nat (S (length code)))%Z by lia.
    replace (C + 1 + Z.of_nat (length code))%Z with (C + Z.of_nat (S (length code)))%Z by lia.
    reflexivity.
Qed.

End WithMeta.

Lemma parse_run_mono f : forall st p r k, parse_run f st p = Some r -> parse_run (f + k) st p = Some r.
Proof.
  induction f as [|f IH]; intros st p r k H; [discriminate|].
  cbn [Nat.add]. rewrite parse_run_S in *. destruct (parse_step st p) as [p' [st'|]]; [apply IH; exact H|exact H].
Qed.

(* ---------- the whole canonical text ---------- *)
Definition canon_slines (legacy sg : bool) (m : N) (code : list instr) (start : Z) : list sline :=
  if legacy then instr_slines legacy sg m 1 0 code ++ [dir_sline (s2t "END") (1 + Z.of_nat (length code)) start]
  else dir_sline (s2t "ORG") 1 start :: instr_slines legacy sg m 2 0 code.

Lemma fld_len sg m a : (1 <= length (fld_toks sg m a))%nat.
Proof. unfold fld_toks. destruct (_ && _); cbn; lia. Qed.
Lemma instr_toks_len legacy sg m code : (7 * length code <= length (flat_map (instr_toks legacy sg m) code))%nat.
Proof.
  induction code as [|i t IH]; [cbn; lia|]. cbn [flat_map length]. rewrite app_length.
  assert (H7 : (7 <= length (instr_toks legacy sg m i))%nat).
  { unfold instr_toks. repeat (rewrite app_length || cbn [app length]).
    pose proof (fld_len sg m (i_a i)). pose proof (fld_len sg m (i_b i)). lia. }
  lia.
Qed.

Theorem parse_canon legacy sg m code start :
  parse (canon_toks legacy sg m code start) = Some (Some (canon_slines legacy sg m code start, mkPM [] [] [])).
Proof.
  unfold parse. set (toks := canon_toks legacy sg m code start).
  set (n := length code).
  assert (Hlen : (7 * n + 4 <= length toks)%nat).
  { unfold toks, canon_toks. pose proof (instr_toks_len legacy sg m code). fold n in H.
    destruct legacy; rewrite !app_length; cbn [length dir_toks app]; rewrite ?app_length; cbn [length]; lia. }
  assert (E : exists pf, parse_run (8 * n + 5) PLine
                (pnext (mkP toks (mkT tokError []) false 1 0 false (empty_sline 1) (mkPM [] [] []) false [] predefined [])) = Some pf
              /\ p_err pf = false /\ p_refs pf = [] /\ p_lines pf = canon_slines legacy sg m code start /\ p_meta pf = mkPM [] [] []).
  { unfold toks, canon_toks, canon_slines. destruct legacy.
    - (* '88: the code, then END *)
      rewrite <- app_assoc.
      destruct (flat_map (instr_toks true sg m) code ++ dir_toks (s2t "END") start ++ [tEOF]) as [|x y] eqn:E0.
      { destruct (flat_map (instr_toks true sg m) code); discriminate E0. }
      change (pnext (mkP (x :: y) (mkT tokError []) false 1 0 false (empty_sline 1) (mkPM [] [] []) false [] predefined []))
        with (ppos (mkPM [] [] []) (x :: y) 1 0 (empty_sline 1) [] false).
      rewrite <- E0. unfold dir_toks at 1. cbn [app].
      destruct (instr_lines_run (mkPM [] [] []) true sg m code (mkT tokText (s2t "END")) [num_tok (Z.to_N start); nl_tok; tEOF] 1 0 (empty_sline 1) [] 5) as [cur' Hc].
      fold n in Hc. rewrite Hc. cbn [app].
      change (mkT tokText (s2t "END") :: [num_tok (Z.to_N start); nl_tok; tEOF]) with (dir_toks (s2t "END") start ++ tEOF :: []).
      change 5%nat with (4 + 1)%nat. rewrite dir_line_run by reflexivity.
      eexists. split; [reflexivity|]. cbn. repeat split; reflexivity.
    - (* '94: ORG, then the code *)
      unfold dir_toks at 1. cbn [app].
      change (pnext (mkP (mkT tokText (s2t "ORG") :: num_tok (Z.to_N start) :: nl_tok :: flat_map (instr_toks false sg m) code ++ [tEOF])
                         (mkT tokError []) false 1 0 false (empty_sline 1) (mkPM [] [] []) false [] predefined []))
        with (ppos (mkPM [] [] []) (dir_toks (s2t "ORG") start ++ flat_map (instr_toks false sg m) code ++ [tEOF]) 1 0 (empty_sline 1) [] false).
      replace (8 * n + 5)%nat with (4 + (8 * n + 1))%nat by lia.
      destruct (flat_map (instr_toks false sg m) code ++ [tEOF]) as [|x y] eqn:E0.
      { destruct (flat_map (instr_toks false sg m) code); discriminate E0. }
      rewrite dir_line_run by reflexivity. rewrite <- E0.
      destruct (instr_lines_run (mkPM [] [] []) false sg m code tEOF [] (1 + 1)%Z 0 (dir_sline (s2t "ORG") 1 start) ([] ++ [dir_sline (s2t "ORG") 1 start]) 1) as [cur' Hc].
      fold n in Hc. change (lower_is (s2t "ORG") "end") with false. rewrite Hc.
      eexists. split; [reflexivity|]. cbn. repeat split; reflexivity. }
  destruct E as [pf [E1 [E2 [E3 [E4 E5]]]]].
  replace (4 * length toks + 10)%nat with ((8 * n + 5) + (4 * length toks + 10 - (8 * n + 5)))%nat by lia.
  rewrite (parse_run_mono _ _ _ _ _ E1). rewrite E2, E3, E4, E5. reflexivity.
Qed.
