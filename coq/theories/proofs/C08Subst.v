(* C08Subst.v — the link between the expander's token-level unrolling and the abstract unrolling of Render.unroll,
   for one line: replacing the counter word by the number j in the tokens of a rendered instruction line gives the
   rendering of the line with the counter replaced by the literal j in its operand expressions (Render.subst_item). *)
From GM Require Import Base Text Token Lexer Scanner ExprSpec ExprEval ForExpand Parser Sim Compile
     Prog Meaning Render AsmSpec C03Lexer C05Lexer C05Fuel C03Proof C07Model C10Proof C14Proof C16Proof ScanProof
     C08Proof C08Block C08Scan C08Passes C08Flat C14Expand C09Parse C09Asm C09GenCompile C09GenLex
     C03Parse C03Compile C03Labels C03EquCompile C03EquLabels C03Flat.
From Coq Require Import Lia.
Open Scope Z_scope.

Section Subst.
Variable spell spellc : N -> text.      (* spellc: the spelling inside the block, where the counter has a name *)
Variable cid : N.
Variable c : text.
Hypothesis Hc : spellc cid = c.
Hypothesis Hother : forall id, id <> cid -> spellc id = spell id /\ spell id <> c.

Lemma etoks_subst j e :
  map (subst_body c [] j) (etoks spellc e) = etoks spell (Render.subst_counter cid (Z.of_N j) e).
Proof.
  unfold etoks. induction e as [n|id|e IH|m e IH|o a IHa b IHb]; cbn [nprint Render.subst_counter map].
  - reflexivity.
  - destruct (N.eqb_spec id cid) as [->|Hn]; cbn [nprint map ntok_tok].
    + unfold subst_body. cbn [t_typ t_val]. rewrite Hc, text_eqb_refl. cbn [inj]. rewrite N2Z.id. reflexivity.
    + destruct (Hother id Hn) as [E1 E2]. unfold subst_body. cbn [t_typ t_val]. rewrite E1, text_eqb_neq by exact E2. reflexivity.
  - rewrite map_app, map_app, IH, map_app. reflexivity.
  - rewrite IH. destruct m; reflexivity.
  - rewrite !map_app. cbn [map]. rewrite IHa, IHb. destruct o; reflexivity.
Qed.

Lemma nlevel_subst j e : nlevel (Render.subst_counter cid j e) = nlevel e.
Proof. destruct e as [n|id|e|m e|o a b]; cbn [Render.subst_counter nlevel]; try reflexivity. destruct (id =? cid)%N; reflexivity. Qed.
Lemma nok_subst j e : 0 <= j -> nok e -> nok (Render.subst_counter cid j e).
Proof.
  intros Hj. induction e as [n|id|e IH|m e IH|o a IHa b IHb]; cbn [Render.subst_counter nok]; intros H.
  - exact H.
  - destruct (id =? cid)%N; cbn [nok]; [exact Hj|exact I].
  - apply IH. exact H.
  - destruct H as [H1 H2]. split; [apply IH; exact H1|rewrite nlevel_subst; exact H2].
  - destruct H as [H1 [H2 [H3 H4]]]. rewrite !nlevel_subst. auto.
Qed.

Definition subst_line (j : Z) (l : Prog.iline) : Prog.iline :=
  mkIL (il_labels l) (il_op l) (il_mod l) (Render.subst_operand cid j (il_a l))
       (match il_b l with Some b => Some (Render.subst_operand cid j b) | None => None end).

(* one line: the j-th written-out copy renders the abstractly substituted line *)
Theorem copy_renders j l t : il_labels l = [] -> renders_line spellc l t ->
  match subst_elem c j (LInstr t) with
  | LInstr t' => renders_line spell (subst_line (Z.of_N j) l) t'
  | _ => False
  end.
Proof.
  intros Hl [Hn [Hop [[Em [Ea Hna]] Hb]]]. cbn [subst_elem]. unfold renders_line, subst_line.
  cbn [tl_labs tl_op tl_am tl_A tl_B il_labels il_op il_mod il_a il_b].
  split; [rewrite Hn, Hl; reflexivity|]. split; [exact Hop|]. split.
  - unfold renders_operand, Render.subst_operand. cbn [o_mode o_expr]. split; [exact Em|]. split; [rewrite Ea; apply etoks_subst|].
    apply nok_subst; [lia|exact Hna].
  - destruct (il_b l) as [b|], (tl_B t) as [[bm B]|]; try contradiction; [|exact I].
    destruct Hb as [Em' [Eb Hnb]]. unfold renders_operand, Render.subst_operand. cbn [o_mode o_expr].
    split; [exact Em'|]. split; [rewrite Eb; apply etoks_subst|]. apply nok_subst; [lia|exact Hnb].
Qed.

(* the abstract substitution of Render.unroll on an instruction item is this substitution *)
Lemma subst_item_line f j l : Render.subst_item (S f) cid j (IInstr l) = IInstr (subst_line j l).
Proof. reflexivity. Qed.
End Subst.
