(* FrontEnd.v — lexer, symbol scanner, FOR expander (pass driver included) and
   parser, composed: on every input each of them ends within its fuel (the
   evaluation of FOR counts included: EquFuel). *)
From GM Require Import Base Text Token Lexer Scanner ExprSpec ExprEval ForExpand Parser Compile
     C05Lexer C05Expander C05Fuel ScanProof ParserFuel EquFuel.
From Coq Require Import Lia.
Open Scope N_scope.

(* a stream that begins with its terminal token holds no FOR *)
Lemma scan_terminal_first t rest : is_terminal t = true ->
  exists syms, scan_input (t :: rest) = Some (Some (syms, false)).
Proof.
  intros Ht. unfold scan_input.
  replace (3 * length (t :: rest) + 6)%nat with (S (S (3 * length rest + 7))) by (cbn [length]; lia).
  unfold reader_init, rnext. cbn [r_eof r_toks]. rewrite Ht.
  unfold is_terminal in Ht. cbn [scan_run scan_step sc_rd r_next].
  destruct (t_typ t) eqn:E; try discriminate Ht; cbn [scan_run scan_step sc_rd r_next]; rewrite E; cbn; eexists; reflexivity.
Qed.

Lemma reader_init_eof toks : r_eof (reader_init toks) = true ->
  toks = [] \/ exists t rest, toks = t :: rest /\ is_terminal t = true.
Proof.
  unfold reader_init, rnext. cbn [r_eof r_toks]. destruct toks as [|t rest]; [auto|].
  cbn [r_eof]. intros H. right. eauto.
Qed.

Lemma pass_loop_ends cfg n :
  forall toks, closed_stream toks ->
    exists r, pass_loop cfg n toks = Some r /\ match r with Some toks' => closed_stream toks' | None => True end.
Proof.
  induction n as [|n IH]; intros toks C; cbn [pass_loop]; [eexists; split; [reflexivity|exact I]|].
  destruct (scan_input toks) as [[[syms for_seen]|]|] eqn:Es.
  - destruct for_seen; [|eexists; split; [reflexivity|exact C]].
    destruct (for_expand_ends toks (with_constants cfg syms) C (fun e => expand_and_evaluate_total e _)) as [r Er]. rewrite Er.
    destruct r as [r|].
    + apply IH. apply (for_expand_clean toks (with_constants cfg syms) r Er).
    + exfalso. unfold for_expand in Er. destruct (r_eof (reader_init toks)) eqn:Ee.
      * destruct (reader_init_eof toks Ee) as [->|[t [rest [-> Ht]]]].
        -- apply (closed_nonempty _ C). reflexivity.
        -- destruct (scan_terminal_first t rest Ht) as [s2 Es2]. rewrite Es2 in Es. discriminate Es.
      * destruct (for_run _ _ _ _); discriminate Er.
  - eexists. split; [reflexivity|exact I].
  - exfalso. apply (scan_input_total toks C). exact Es.
Qed.

(* for every input text: the lexer ends; every scan and expansion pass ends; the parser ends *)
Theorem front_end_ends cfg inp :
  exists toks, lex_ascii inp = Some toks /\
  exists r, pass_loop cfg (S max_for_passes) toks = Some r /\
  match r with Some toks' => parse toks' <> None | None => True end.
Proof.
  destruct (lex_ascii_total inp) as [toks [El C]]. exists toks. split; [exact El|].
  destruct (pass_loop_ends cfg (S max_for_passes) toks C) as [r [Er Cr]]. exists r. split; [exact Er|].
  destruct r as [toks'|]; [|exact I]. apply parse_total. exact Cr.
Qed.

(* so assembling can only run out of fuel inside the compiler proper (EQU substitution loops) *)
Corollary compile_warrior_fuel cfg inp :
  compile_warrior cfg inp = COutOfFuel ->
  exists lines meta, compile cfg lines meta = COutOfFuel.
Proof.
  intros H. unfold compile_warrior in H.
  destruct (front_end_ends cfg inp) as [toks [El [r [Er Hp]]]]. rewrite El in H.
  destruct (negb (counts_modelled toks None)); [discriminate H|]. rewrite Er in H.
  destruct r as [toks'|]; [|discriminate H].
  destruct (parse toks') as [[[lines meta]|]|] eqn:Ep; [|discriminate H|congruence].
  exists lines, meta. exact H.
Qed.

(* ---------- the compiler proper ---------- *)
From GM Require Import Sim C14Proof SubstFuel.

Lemma eval_assertions_ends m c lines :
  graph_has_cycle (build_graph (c_values c)) = Some false -> eval_assertions m c lines <> None.
Proof.
  intros Hc. induction lines as [|ln t IH]; cbn [eval_assertions]; [discriminate|].
  destruct (sl_typ ln); try exact IH.
  destruct (has_prefix (s2t ";assert") (sl_comment ln)); [|exact IH].
  assert (Ha : eval_assert m c (skipn 7 (sl_comment ln)) <> None).
  { unfold eval_assert. destruct (lex_ascii_total (skipn 7 (sl_comment ln))) as [toks [El _]]. rewrite El.
    pose proof (expand_expression_acyclic m c 0 (removelast toks) Hc) as Hx.
    destruct (expand_expression (expand_fuel c) m c 0 (removelast toks)) as [[e|]|]; [|discriminate|congruence].
    destruct (evaluate_expression e); discriminate. }
  destruct (eval_assert m c (skipn 7 (sl_comment ln))) as [[v| |]|]; try discriminate; [exact IH|congruence].
Qed.

Lemma assemble_line_fuel cfg values resolved labels se ln :
  expand_expressions values (build_graph values) = Some (Some resolved) ->
  assemble_line cfg (mkC resolved labels se) ln <> AFuel.
Proof.
  intros E. unfold assemble_line.
  set (c := mkC resolved labels se).
  assert (Hx : forall e, expand_expression (expand_fuel c) (Z.of_N (c_size cfg)) c (sl_codeline ln) e <> None)
    by (intros e; apply (expand_expression_resolved _ values); exact E).
  cbv zeta.
  destruct (match sl_amode ln with [] => _ | _ => _ end); [|discriminate].
  destruct (match sl_bmode ln with [] => _ | _ => _ end); [|discriminate].
  match goal with |- match ?x with Some _ => _ | None => AErr end <> _ => destruct x as [[o md]|]; [|discriminate] end.
  destruct (expand_expression (expand_fuel c) (Z.of_N (c_size cfg)) c (sl_codeline ln) (sl_a ln)) as [[x|]|] eqn:Ea;
    [|discriminate|exfalso; apply (Hx (sl_a ln)); exact Ea].
  destruct (evaluate_expression x); try discriminate.
  destruct (sl_b ln) as [|b0 bs]; [destruct o; discriminate|].
  destruct (expand_expression (expand_fuel c) (Z.of_N (c_size cfg)) c (sl_codeline ln) (b0 :: bs)) as [[y|]|] eqn:Eb;
    [|discriminate|exfalso; apply (Hx (b0 :: bs)); exact Eb].
  destruct (evaluate_expression y); discriminate.
Qed.

Lemma assemble_all_fuel cfg values resolved labels se :
  expand_expressions values (build_graph values) = Some (Some resolved) ->
  forall lines acc, assemble_all cfg (mkC resolved labels se) lines acc <> inl AFuel.
Proof.
  intros E. induction lines as [|ln t IH]; intros acc; cbn [assemble_all]; [discriminate|].
  destruct (sl_typ ln); try apply IH.
  pose proof (assemble_line_fuel cfg values resolved labels se ln E) as Hl.
  destruct (assemble_line cfg (mkC resolved labels se) ln); try (intros X; inversion X; fail); [apply IH|congruence].
Qed.

Theorem compile_ends cfg lines meta : compile cfg lines meta <> COutOfFuel.
Proof.
  unfold compile. destruct (negb (validate cfg)); [discriminate|].
  set (c0 := load_symbols cfg lines). set (g := build_graph (c_values c0)).
  pose proof (cycle_check_total g) as Hc.
  destruct (graph_has_cycle g) as [[|]|] eqn:Eg; [discriminate| |congruence].
  pose proof (eval_assertions_ends (Z.of_N (c_size cfg)) c0 lines Eg) as Ha.
  destruct (eval_assertions (Z.of_N (c_size cfg)) c0 lines) as [[v| |]|]; try discriminate; [|congruence].
  pose proof (expand_expressions_total (c_values c0) g Eg (build_graph_length _)) as Hx.
  destruct (expand_expressions (c_values c0) g) as [[resolved|]|] eqn:Ex; [|discriminate|congruence].
  pose proof (assemble_all_fuel cfg (c_values c0) resolved (c_labels c0) (c_startexpr c0) Ex lines []) as Hl.
  destruct (assemble_all cfg _ lines []) as [[]|code]; try discriminate; [congruence|].
  destruct (_ <? _); [discriminate|].
  pose proof (expand_expression_resolved (Z.of_N (c_size cfg)) (c_values c0) resolved (c_labels c0) (c_startexpr c0) 0 (c_startexpr c0) Ex) as Hs.
  cbn [c_startexpr] in *.
  destruct (expand_expression _ _ _ 0 (c_startexpr c0)) as [[se|]|]; [|discriminate|congruence].
  destruct (evaluate_expression se); try discriminate. destruct (_ || _)%bool; discriminate.
Qed.

(* C05 at full strength on the model: assembling never runs out of fuel, whatever the input *)
Theorem compile_warrior_ends cfg inp : compile_warrior cfg inp <> COutOfFuel.
Proof.
  intros H. destruct (compile_warrior_fuel cfg inp H) as [lines [meta Hc]]. apply (compile_ends cfg lines meta Hc).
Qed.
