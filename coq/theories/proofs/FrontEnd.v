(* FrontEnd.v — lexer, symbol scanner, FOR expander (pass driver included) and
   parser, composed: on every input each of them ends within its fuel (the
   evaluation of FOR counts included: EquFuel). *)
From GM Require Import Base Text Token Lexer Scanner ExprSpec ExprEval ForExpand Parser Compile
     C05Lexer C05Expander C05Fuel ScanProof ParserFuel EquFuel.
From Coq Require Import Lia.
Open Scope N_scope.

(* a stream that begins with its terminal token holds no FOR *)
Lemma scan_terminal_first t rest : is_terminal t = true ->
  exists syms, scan_input (t :: rest) = Some (Some (syms, false)).
Proof.
  intros Ht. unfold scan_input.
  replace (3 * length (t :: rest) + 6)%nat with (S (S (3 * length rest + 7))) by (cbn [length]; lia).
  unfold reader_init, rnext. cbn [r_eof r_toks]. rewrite Ht.
  unfold is_terminal in Ht. cbn [scan_run scan_step sc_rd r_next].
  destruct (t_typ t) eqn:E; try discriminate Ht; cbn [scan_run scan_step sc_rd r_next]; rewrite E; cbn; eexists; reflexivity.
Qed.

Lemma reader_init_eof toks : r_eof (reader_init toks) = true ->
  toks = [] \/ exists t rest, toks = t :: rest /\ is_terminal t = true.
Proof.
  unfold reader_init, rnext. cbn [r_eof r_toks]. destruct toks as [|t rest]; [auto|].
  cbn [r_eof]. intros H. right. eauto.
Qed.

Lemma pass_loop_ends cfg n :
  forall toks, closed_stream toks ->
    exists r, pass_loop cfg n toks = Some r /\ match r with Some toks' => closed_stream toks' | None => True end.
Proof.
  induction n as [|n IH]; intros toks C; cbn [pass_loop]; [eexists; split; [reflexivity|exact I]|].
  destruct (scan_input toks) as [[[syms for_seen]|]|] eqn:Es.
  - destruct for_seen; [|eexists; split; [reflexivity|exact C]].
    destruct (for_expand_ends toks (with_constants cfg syms) C (fun e => expand_and_evaluate_total e _)) as [r Er]. rewrite Er.
    destruct r as [r|].
    + apply IH. apply (for_expand_clean toks (with_constants cfg syms) r Er).
    + exfalso. unfold for_expand in Er. destruct (r_eof (reader_init toks)) eqn:Ee.
      * destruct (reader_init_eof toks Ee) as [->|[t [rest [-> Ht]]]].
        -- apply (closed_nonempty _ C). reflexivity.
        -- destruct (scan_terminal_first t rest Ht) as [s2 Es2]. rewrite Es2 in Es. discriminate Es.
      * destruct (for_run _ _ _ _); discriminate Er.
  - eexists. split; [reflexivity|exact I].
  - exfalso. apply (scan_input_total toks C). exact Es.
Qed.

(* for every input text: the lexer ends; every scan and expansion pass ends; the parser ends *)
Theorem front_end_ends cfg inp :
  exists toks, lex_ascii inp = Some toks /\
  exists r, pass_loop cfg (S max_for_passes) toks = Some r /\
  match r with Some toks' => parse toks' <> None | None => True end.
Proof.
  destruct (lex_ascii_total inp) as [toks [El C]]. exists toks. split; [exact El|].
  destruct (pass_loop_ends cfg (S max_for_passes) toks C) as [r [Er Cr]]. exists r. split; [exact Er|].
  destruct r as [toks'|]; [|exact I]. apply parse_total. exact Cr.
Qed.

(* so assembling can only run out of fuel inside the compiler proper (EQU substitution loops) *)
Corollary compile_warrior_fuel cfg inp :
  compile_warrior cfg inp = COutOfFuel ->
  exists lines meta, compile cfg lines meta = COutOfFuel.
Proof.
  intros H. unfold compile_warrior in H.
  destruct (front_end_ends cfg inp) as [toks [El [r [Er Hp]]]]. rewrite El, Er in H.
  destruct r as [toks'|]; [|discriminate H].
  destruct (parse toks') as [[[lines meta]|]|] eqn:Ep; [|discriminate H|congruence].
  exists lines, meta. exact H.
Qed.
