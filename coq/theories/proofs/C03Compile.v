(* C03Compile.v — the compiler stage on instruction lines with labels, against the
   reference meaning (spec/Meaning.v): names in operand expressions are predefined
   constants or labels; a label is its address minus the index of the referring
   instruction; omitted modes and modifiers take the dialect's defaults; a lone operand
   lands where the dialect prescribes. *)
From GM Require Import Base Text Token Lexer Scanner ExprSpec ExprEval ForExpand Parser Sim Compile
     Prog Meaning AsmSpec C03Lexer C03Proof C06Proof C07Parser C07Signs C07Proof C07Model C10Proof C14Proof
     C09Proof C09Parse C09Compile C09GenCompile C03Parse.
From Coq Require Import Lia ZifyN ZifyNat ZifyBool.
Ltac Zify.zify_post_hook ::= Z.div_mod_to_equations.
Open Scope Z_scope.

(* ---------- operand expressions as written ---------- *)
Section Spelling.
Variable spell : N -> text.

Definition ntok_tok (t : ntok) : token := match t with TE e => inj e | TN id => mkT tokText (spell id) end.
Definition etoks (e : nexpr) : list token := map ntok_tok (nprint e).

Fixpoint names (e : nexpr) : list N :=
  match e with
  | NLit _ => [] | NName id => [id] | NPar e => names e | NSgn _ e => names e
  | NBin _ a b => names a ++ names b
  end.

(* well formed: literals are not negative, and the tree is parenthesised enough to be read back *)
Definition nlevel (e : nexpr) : nat := match e with NBin o _ _ => prec o | _ => 6%nat end.
Fixpoint nok (e : nexpr) : Prop :=
  match e with
  | NLit n => 0 <= n
  | NName _ => True
  | NPar e => nok e
  | NSgn _ e => nok e /\ (6 <= nlevel e)%nat
  | NBin o a b => nok a /\ nok b /\ (prec o <= nlevel a)%nat /\ (prec o < nlevel b)%nat
  end.

(* a value written as tokens: a number, or a minus sign and a number *)
Definition lit_of (v : Z) : expr := if v <? 0 then Sgn true (Lit (- v)) else Lit v.
Fixpoint nsub (rho : N -> Z) (e : nexpr) : expr :=
  match e with
  | NLit n => Lit n
  | NName id => lit_of (rho id)
  | NPar e => Par (nsub rho e)
  | NSgn m e => Sgn m (nsub rho e)
  | NBin o a b => Bin o (nsub rho a) (nsub rho b)
  end.
Lemma lit_of_level v : level (lit_of v) = 6%nat.
Proof. unfold lit_of. destruct (v <? 0); reflexivity. Qed.
Lemma lit_of_ok v : ok (lit_of v).
Proof. unfold lit_of. destruct (v <? 0) eqn:E; cbn; [split; [lia|lia]|lia]. Qed.
Lemma lit_of_denote v : denote (lit_of v) = Some v.
Proof. unfold lit_of. destruct (v <? 0); cbn; [f_equal; lia|reflexivity]. Qed.
Lemma nsub_level rho e : level (nsub rho e) = nlevel e.
Proof. destruct e; try reflexivity. apply lit_of_level. Qed.
Lemma nsub_ok rho e : nok e -> ok (nsub rho e).
Proof.
  induction e as [n|id|e IH|m e IH|o a IHa b IHb]; cbn [nok nsub ok]; intros H.
  - exact H.
  - apply lit_of_ok.
  - apply IH. exact H.
  - destruct H as [H1 H2]. split; [apply IH; exact H1|rewrite nsub_level; exact H2].
  - destruct H as [H1 [H2 [H3 H4]]]. rewrite !nsub_level. auto.
Qed.
Lemma num_toks_print v : num_toks v = map TE (print (lit_of v)).
Proof. unfold num_toks, lit_of. destruct (v <? 0); reflexivity. Qed.

(* ---------- the reference: one substitution pass, token by token ---------- *)
Definition sp_tok (cf : mconf) (ls : labels) (i : Z) (t : ntok) : option (list ntok) :=
  match t with
  | TE _ => Some [t]
  | TN id =>
    match predefined_value cf id with
    | Some v => Some (num_toks v)
    | None => match lab_find' id ls with Some a => Some (num_toks (a - i)) | None => None end
    end
  end.
Fixpoint sp_all (cf : mconf) (ls : labels) (i : Z) (l : list ntok) : option (list ntok) :=
  match l with
  | [] => Some []
  | t :: r => match sp_tok cf ls i t, sp_all cf ls i r with Some a, Some b => Some (a ++ b) | _, _ => None end
  end.
Lemma subst_pass_tokenwise cf ls i l : subst_pass cf [] ls i l = sp_all cf ls i l.
Proof.
  unfold subst_pass.
  assert (G : forall acc, fold_left (fun acc t =>
               match acc with
               | None => None
               | Some out =>
                 match t with
                 | TE _ => Some (out ++ [t])
                 | TN id =>
                   match predefined_value cf id with
                   | Some v => Some (out ++ num_toks v)
                   | None =>
                     match env_find id [] with
                     | Some d => Some (out ++ nprint d)
                     | None => match lab_find' id ls with
                               | Some a => Some (out ++ num_toks (a - i))
                               | None => None
                               end
                     end
                   end
                 end
               end) l acc = match acc, sp_all cf ls i l with Some out, Some b => Some (out ++ b) | _, _ => None end).
  { induction l as [|t r IH]; intros acc.
    - cbn. destruct acc; [rewrite app_nil_r|]; reflexivity.
    - cbn [fold_left sp_all]. rewrite IH. destruct acc as [out|]; [|destruct (sp_tok cf ls i t), (sp_all cf ls i r); reflexivity].
      destruct t as [e|id]; cbn [sp_tok env_find].
      + destruct (sp_all cf ls i r); [rewrite <- app_assoc|]; reflexivity.
      + destruct (predefined_value cf id) as [v|].
        * destruct (sp_all cf ls i r); [rewrite <- app_assoc|]; reflexivity.
        * destruct (lab_find' id ls) as [a|]; [|reflexivity]. destruct (sp_all cf ls i r); [rewrite <- app_assoc|]; reflexivity. }
  rewrite G. destruct (sp_all cf ls i l); reflexivity.
Qed.
Lemma sp_all_app cf ls i a b :
  sp_all cf ls i (a ++ b) = match sp_all cf ls i a, sp_all cf ls i b with Some x, Some y => Some (x ++ y) | _, _ => None end.
Proof.
  induction a as [|t r IH]; cbn [app sp_all].
  - destruct (sp_all cf ls i b); reflexivity.
  - rewrite IH. destruct (sp_tok cf ls i t), (sp_all cf ls i r), (sp_all cf ls i b); try reflexivity. rewrite app_assoc. reflexivity.
Qed.

(* what a name stands for at instruction index i *)
Definition rho_of (cf : mconf) (ls : labels) (i : Z) (id : N) : Z :=
  match predefined_value cf id with
  | Some v => v
  | None => match lab_find' id ls with Some a => a - i | None => 0 end
  end.
Definition known (cf : mconf) (ls : labels) (id : N) : Prop :=
  predefined_value cf id <> None \/ lab_find' id ls <> None.

Lemma sp_all_known cf ls i e : Forall (known cf ls) (names e) ->
  sp_all cf ls i (nprint e) = Some (map TE (print (nsub (rho_of cf ls i) e))).
Proof.
  induction e as [n|id|e IH|m e IH|o a IHa b IHb]; cbn [names nprint nsub print]; intros H.
  - reflexivity.
  - inversion H as [|x y Hk _]; subst. cbn [sp_all sp_tok]. unfold rho_of. unfold known in Hk. destruct (predefined_value cf id) as [v|].
    + rewrite app_nil_r, num_toks_print. reflexivity.
    + destruct (lab_find' id ls) as [a|]; [rewrite app_nil_r, num_toks_print; reflexivity|]. destruct Hk; congruence.
  - cbn [sp_all sp_tok]. rewrite sp_all_app, (IH H). cbn [sp_all sp_tok app map]. rewrite map_app. reflexivity.
  - cbn [sp_all sp_tok]. rewrite (IH H). reflexivity.
  - apply Forall_app in H. destruct H as [Ha Hb]. rewrite sp_all_app, (IHa Ha). cbn [sp_all sp_tok]. rewrite (IHb Hb).
    cbn [app]. rewrite map_app. reflexivity.
Qed.
Lemma sp_all_some cf ls i e l : sp_all cf ls i (nprint e) = Some l -> Forall (known cf ls) (names e).
Proof.
  revert l. induction e as [n|id|e IH|m e IH|o a IHa b IHb]; cbn [names nprint]; intros l H.
  - constructor.
  - constructor; [|constructor]. cbn [sp_all sp_tok] in H. unfold known.
    destruct (predefined_value cf id); [left; discriminate|]. destruct (lab_find' id ls); [right; discriminate|discriminate].
  - cbn [sp_all sp_tok] in H. rewrite sp_all_app in H. destruct (sp_all cf ls i (nprint e)) as [x|] eqn:E; [|discriminate]. eapply IH. reflexivity.
  - cbn [sp_all sp_tok] in H. destruct (sp_all cf ls i (nprint e)) as [x|] eqn:E; [|discriminate]. eapply IH. reflexivity.
  - rewrite sp_all_app in H. destruct (sp_all cf ls i (nprint a)) as [x|] eqn:Ea; [|discriminate].
    cbn [sp_all sp_tok] in H. destruct (sp_all cf ls i (nprint b)) as [y|] eqn:Eb; [|discriminate].
    apply Forall_app. split; [eapply IHa|eapply IHb]; reflexivity.
Qed.

Definition all_te (l : list ntok) : bool := forallb (fun t => match t with TE _ => true | TN _ => false end) l.
Definition strip (l : list ntok) : list etok := flat_map (fun t => match t with TE e => [e] | TN _ => [] end) l.
Lemma strip_te l : strip (map TE l) = l.
Proof. induction l as [|t r IH]; [reflexivity|]. cbn. f_equal. exact IH. Qed.
Lemma all_te_map l : all_te (map TE l) = true.
Proof. induction l as [|t r IH]; [reflexivity|]. exact IH. Qed.
Lemma all_te_nonames e : all_te (nprint e) = true -> names e = [].
Proof.
  unfold all_te. induction e as [n|id|e IH|m e IH|o a IHa b IHb]; cbn [names nprint forallb]; intros H.
  - reflexivity.
  - discriminate.
  - rewrite forallb_app in H. apply andb_prop in H. destruct H as [_ H]. apply andb_prop in H. destruct H as [H _]. apply IH. exact H.
  - apply IH. exact H.
  - rewrite forallb_app in H. apply andb_prop in H. destruct H as [Ha Hb]. cbn [forallb] in Hb. rewrite (IHa Ha), (IHb Hb). reflexivity.
Qed.
Lemma nonames_print rho e : names e = [] -> nprint e = map TE (print (nsub rho e)).
Proof.
  induction e as [n|id|e IH|m e IH|o a IHa b IHb]; cbn [names nprint nsub print]; intros H.
  - reflexivity.
  - discriminate.
  - rewrite (IH H). cbn [map]. rewrite map_app. reflexivity.
  - rewrite (IH H). reflexivity.
  - apply app_eq_nil in H. destruct H as [Ha Hb]. rewrite (IHa Ha), (IHb Hb). rewrite map_app. reflexivity.
Qed.

(* the reference value of an operand expression *)
Lemma value_at_spec cf ls i e v : nok e -> value_at cf [] ls i e = MV v ->
  Forall (known cf ls) (names e) /\ denote (nsub (rho_of cf ls i) e) = Some v /\ in_int32 v = true.
Proof.
  intros Hok. unfold value_at. cbn [length subst_all]. fold (all_te (nprint e)).
  set (rho := rho_of cf ls i).
  assert (G : forall l, l = print (nsub rho e) ->
              match eval_tokens l with Some v0 => if in_int32 v0 then MV v0 else MAny | None => MErr end = MV v ->
              denote (nsub rho e) = Some v /\ in_int32 v = true).
  { intros l -> H. rewrite eval_print in H by (apply nsub_ok; exact Hok).
    destruct (denote (nsub rho e)) as [w|]; [|discriminate]. destruct (in_int32 w) eqn:E; [|discriminate]. inversion H; subst. auto. }
  destruct (all_te (nprint e)) eqn:Ea.
  - intros H. pose proof (all_te_nonames e Ea) as Hn. split; [rewrite Hn; constructor|].
    apply (G (strip (nprint e))); [|exact H]. fold (strip (nprint e)). rewrite (nonames_print rho e Hn). apply strip_te.
  - rewrite subst_pass_tokenwise. destruct (sp_all cf ls i (nprint e)) as [l'|] eqn:Es; [|discriminate].
    pose proof (sp_all_some cf ls i e l' Es) as Hk. rewrite (sp_all_known cf ls i e Hk) in Es. inversion Es; subst l'.
    fold (all_te (map TE (print (nsub rho e)))). rewrite all_te_map. fold (strip (map TE (print (nsub rho e)))). rewrite strip_te.
    intros H. split; [exact Hk|]. apply (G _ eq_refl H).
Qed.

(* ---------- the model: expansion and evaluation of the same expression ---------- *)
Definition name_expands (m : Z) (c : comp) (line : Z) (rho : N -> Z) (id : N) : Prop :=
  expand_tok m c line (mkT tokText (spell id)) = Some (map inj (print (lit_of (rho id)))).

Lemma expand_named m c line rho e : Forall (name_expands m c line rho) (names e) ->
  expand_all m c line (etoks e) = Some (map inj (print (nsub rho e))).
Proof.
  unfold etoks.
  induction e as [n|id|e IH|mi e IH|o a IHa b IHb]; cbn [names nprint nsub print map]; intros H.
  - reflexivity.
  - inversion H as [|x y Hk _]; subst. cbn [expand_all ntok_tok]. unfold name_expands in Hk. rewrite Hk. rewrite app_nil_r. reflexivity.
  - rewrite map_app. cbn [expand_all ntok_tok map]. rewrite expand_all_app, (IH H). cbn [expand_all expand_tok inj t_typ app].
    rewrite map_app. reflexivity.
  - cbn [expand_all ntok_tok]. rewrite (IH H). destruct mi; reflexivity.
  - apply Forall_app in H. destruct H as [Ha Hb]. rewrite map_app. cbn [map ntok_tok]. rewrite expand_all_app, (IHa Ha).
    cbn [expand_all]. rewrite (IHb Hb). rewrite map_app. destruct o; reflexivity.
Qed.

Lemma inj_not_text l : Forall (fun t => t_typ t <> tokText) (map inj l).
Proof. induction l as [|t r IH]; cbn [map]; constructor; [destruct t; discriminate|exact IH]. Qed.

Lemma expand_expression_named f m c line rho e : Forall (name_expands m c line rho) (names e) ->
  expand_expression (S (S f)) m c line (etoks e) = Some (Some (map inj (print (nsub rho e)))).
Proof.
  intros H. cbn [expand_expression]. rewrite expand_pass_tokenwise, (expand_named m c line rho e H).
  destruct (toks_eqb (etoks e) (map inj (print (nsub rho e)))); [reflexivity|].
  rewrite expand_pass_tokenwise, (expand_plain m c line _ (inj_not_text _)), toks_eqb_refl. reflexivity.
Qed.

Lemma in_int32_ok v : in_int32 v = int32_ok v.
Proof. reflexivity. Qed.

(* an operand whose reference value is v is evaluated to v by the model *)
Lemma operand_value f m c line rho e v : nok e -> Forall (name_expands m c line rho) (names e) ->
  denote (nsub rho e) = Some v -> in_int32 v = true ->
  exists x, expand_expression (S (S f)) m c line (etoks e) = Some (Some x) /\ evaluate_expression x = EOk v.
Proof.
  intros Hok Hn Hd Hv. exists (map inj (print (nsub rho e))). split; [apply expand_expression_named; exact Hn|].
  rewrite evaluate_printed by (apply nsub_ok; exact Hok). rewrite Hd. rewrite <- in_int32_ok, Hv. reflexivity.
Qed.

End Spelling.

(* ---------- mnemonics ---------- *)
Definition optext_ok (o : opcode) (mo : option opmode) (optext : text) : Prop :=
  match mo with
  | Some md => exists o1 o2, optext = o1 ++ 46%N :: o2 /\ lower o1 = lower (opcode_name o) /\ lower o2 = lower (opmode_name md) /\
                             ~ In 46%N o1 /\ ~ In 46%N o2
  | None => lower optext = lower (opcode_name o)
  end.

Lemma lower_keeps_dot s : In 46%N s -> In 46%N (lower s).
Proof. intros H. unfold lower. apply in_map_iff. exists 46%N. split; [reflexivity|exact H]. Qed.
Lemma opcode_name_nodot o : ~ In 46%N (lower (opcode_name o)).
Proof. destruct o; vm_compute; intuition discriminate. Qed.
Lemma plain_nodot o optext : lower optext = lower (opcode_name o) -> ~ In 46%N optext.
Proof. intros H Hin. apply (opcode_name_nodot o). rewrite <- H. apply lower_keeps_dot. exact Hin. Qed.

Lemma pseudo_has_no_dot s : In 46%N s -> is_pseudo_text s = false.
Proof.
  intros H. apply lower_keeps_dot in H. unfold is_pseudo_text. cbv zeta.
  assert (G : forall w : string, ~ In 46%N (s2t w) -> text_eqb (lower s) (s2t w) = false).
  { intros w Hw. destruct (text_eqb (lower s) (s2t w)) eqn:E; [|reflexivity]. apply text_eqb_eq in E. rewrite E in H. contradiction. }
  rewrite !G; [reflexivity| | | | |]; vm_compute; intuition discriminate.
Qed.

Lemma optext_tok o mo optext : optext_ok o mo optext -> op_tok (mkT tokText optext).
Proof.
  intros H. unfold op_tok, tok_is_op, tok_is_pseudo. cbn [t_typ t_val]. split; [reflexivity|].
  destruct mo as [md|].
  - destruct H as [o1 [o2 [-> _]]].
    assert (Hd : In 46%N (o1 ++ 46%N :: o2)) by (apply in_or_app; right; left; reflexivity).
    split; [|apply pseudo_has_no_dot; exact Hd].
    replace (existsb (N.eqb 46) (o1 ++ 46%N :: o2)) with true; [reflexivity|].
    symmetry. apply existsb_exists. exists 46%N. split; [exact Hd|reflexivity].
  - cbn [optext_ok] in H. rewrite (opcode_of_text_lower _ _ H), opcode_name_code. rewrite (is_pseudo_lower _ _ H).
    split; [rewrite orb_true_r; destruct o; reflexivity|destruct o; reflexivity].
Qed.

(* the model's mnemonic resolution, named *)
Definition op_resolve (legacy : bool) (op sa sb : text) (am bm : amode) : option (opcode * opmode) :=
  if legacy then
    if negb ((match sa with [] => true | s => match amode88_of_text s with Some _ => true | None => false end end)
             && (match sb with [] => true | s => match amode88_of_text s with Some _ => true | None => false end end))
    then None else
    match opcode88_of_text op with
    | None => None
    | Some o => match op_mode_88 o am bm with Some md => Some (o, md) | None => None end
    end
  else
    match split_dot op [] with
    | [o; md] =>
      match opcode_of_text o, opmode_of_text md with
      | Some o', Some md' => Some (o', md')
      | _, _ => match opcode_of_text op with
                | Some o' => Some (o', op_mode_94 o' am bm)
                | None => None
                end
      end
    | _ => match opcode_of_text op with
           | Some o' => Some (o', op_mode_94 o' am bm)
           | None => None
           end
    end.

(* the reference's modifier for the same line *)
Definition md_spec (legacy : bool) (o : opcode) (mo : option opmode) (am bm : amode) : option opmode :=
  if legacy then match mo with Some _ => None | None => implied_modifier_88 o am bm end
  else Some (match mo with Some m => m | None => default_modifier_94 o am bm end).

Definition eff_mode (dflt : amode) (m : option amode) : amode := match m with Some a => a | None => dflt end.

Lemma resolve_ok legacy o mo optext wa wb dflt md :
  optext_ok o mo optext -> is88mode dflt = true ->
  md_spec legacy o mo (eff_mode dflt wa) (eff_mode dflt wb) = Some md ->
  op_resolve legacy optext (mode_text (option_map amode_char wa)) (mode_text (option_map amode_char wb))
             (eff_mode dflt wa) (eff_mode dflt wb) = Some (o, md).
Proof.
  intros Hop Hd Hm. unfold op_resolve, md_spec in *. destruct legacy.
  - destruct mo as [m0|]; [discriminate|]. cbn [optext_ok] in Hop.
    destruct (implied_88_facts _ _ _ _ Hm) as [F1 [F2 [F3 F4]]].
    assert (E88 : forall w, is88mode (eff_mode dflt w) = true ->
              match mode_text (option_map amode_char w) with [] => true
              | _ :: _ => match amode88_of_text (mode_text (option_map amode_char w)) with Some _ => true | None => false end end = true).
    { intros [a|] Hw; cbn [option_map mode_text eff_mode] in *; [rewrite (amode88_text _ Hw)|]; reflexivity. }
    rewrite (E88 wa F2), (E88 wb F3). cbn [andb negb].
    unfold opcode88_of_text in *. rewrite (opcode_of_text_lower _ _ Hop). unfold Lop in F1.
    rewrite (opcode_of_text_lower _ (opcode_name o) (lower_idem _)) in F1. rewrite F1, F4. reflexivity.
  - inversion Hm; subst md. clear Hm. destruct mo as [m0|].
    + destruct Hop as [o1 [o2 [-> [L1 [L2 [N1 N2]]]]]]. rewrite (split_one_dot o1 o2 N1 N2).
      rewrite (opcode_of_text_lower o1 _ L1), opcode_name_code, (opmode_of_text_lower o2 _ L2), opmode_name_code. reflexivity.
    + cbn [optext_ok] in Hop. rewrite (split_nodot optext [] (plain_nodot o optext Hop)). cbn [app].
      rewrite (opcode_of_text_lower _ _ Hop), opcode_name_code, defaults_94. reflexivity.
Qed.

(* ---------- assemble_line, in named pieces ---------- *)
Definition mode_of_text (dflt : amode) (s : text) : option amode := match s with [] => Some dflt | _ => amode_of_text s end.
Definition ev_field (cfg : config) (c : comp) (line : Z) (e : list token) : ares + Z :=
  match expand_expression (expand_fuel c) (Z.of_N (c_size cfg)) c line e with
  | None => inl AFuel
  | Some None => inl AErr
  | Some (Some x) => match evaluate_expression x with
                     | EOk v => inr v
                     | EErr => inl AErr
                     | EUnmodelled => inl AUnmodelled
                     end
  end.
Definition line_fields (cfg : config) (c : comp) (ln : sline) (o : opcode) (md : opmode) (am bm : amode) : ares :=
  let m := Z.of_N (c_size cfg) in
  match ev_field cfg c (sl_codeline ln) (sl_a ln) with
  | inl e => e
  | inr av =>
    match sl_b ln with
    | [] =>
      match o with
      | DAT => AOk (mkI o md 0 IMMEDIATE (norm_field av m) am)
      | _ => AOk (mkI o md (norm_field av m) am 0 bm)
      end
    | be => match ev_field cfg c (sl_codeline ln) be with
            | inl e => e
            | inr bv => AOk (mkI o md (norm_field av m) am (norm_field bv m) bm)
            end
    end
  end.
Definition line_dflt (cfg : config) (ln : sline) : amode :=
  if (c_mode cfg =? 0)%N && lower_is (sl_op ln) "dat" then IMMEDIATE else DIRECT.
Lemma assemble_line_eq cfg c ln :
  assemble_line cfg c ln =
  match mode_of_text (line_dflt cfg ln) (sl_amode ln), mode_of_text (line_dflt cfg ln) (sl_bmode ln) with
  | Some am, Some bm =>
    match op_resolve (c_mode cfg =? 0)%N (sl_op ln) (sl_amode ln) (sl_bmode ln) am bm with
    | None => AErr
    | Some (o, md) => line_fields cfg c ln o md am bm
    end
  | _, _ => AErr
  end.
Proof.
  unfold assemble_line, line_fields, ev_field, op_resolve, mode_of_text, line_dflt. cbv zeta.
  destruct (sl_amode ln), (sl_bmode ln); try reflexivity.
Qed.

(* ---------- a rendered line assembles to what it denotes ---------- *)
Section Lines.
Variable spell : N -> text.

Definition renders_operand (o : operand) (m : option N) (toks : list token) : Prop :=
  m = option_map amode_char (o_mode o) /\ toks = etoks spell (o_expr o) /\ nok (o_expr o).
Definition renders_line (l : Prog.iline) (t : tline) : Prop :=
  lnames (tl_labs t) = map spell (il_labels l) /\ optext_ok (il_op l) (il_mod l) (tl_op t) /\
  renders_operand (il_a l) (tl_am t) (tl_A t) /\
  match il_b l, tl_B t with
  | Some b, Some (bm, B) => renders_operand b bm B
  | None, None => True
  | _, _ => False
  end.

Lemma etoks_nonempty e : etoks spell e <> [].
Proof. unfold etoks. destruct e; cbn [nprint map]; try discriminate. destruct (nprint e1); discriminate. Qed.

Lemma dflt_agrees cfg l t : optext_ok (il_op l) (il_mod l) (tl_op t) ->
  ((c_mode cfg =? 0)%N = true -> il_mod l = None) ->
  (if (c_mode cfg =? 0)%N && lower_is (tl_op t) "dat" then IMMEDIATE else DIRECT) =
  (if (c_mode cfg =? 0)%N then match il_op l with DAT => IMMEDIATE | _ => DIRECT end else DIRECT).
Proof.
  intros Hop Hl. destruct (c_mode cfg =? 0)%N; [|reflexivity]. rewrite (Hl eq_refl) in Hop. cbn [optext_ok] in Hop.
  cbn [andb]. unfold lower_is. rewrite Hop. destruct (il_op l); reflexivity.
Qed.

Lemma mode_of_rendered dflt w : mode_of_text dflt (mode_text (option_map amode_char w)) = Some (eff_mode dflt w).
Proof. destruct w as [a|]; cbn [option_map mode_text mode_of_text eff_mode]; [apply amode_text|reflexivity]. Qed.

Lemma assemble_rendered cfg c ls l t i x :
  (0 < c_size cfg)%N ->
  renders_line l t ->
  (forall id, known (mconf_of cfg) ls id -> name_expands spell (Z.of_N (c_size cfg)) c i (rho_of (mconf_of cfg) ls i) id) ->
  instr_meaning (mconf_of cfg) [] ls i l = MI x ->
  assemble_line cfg c (tline_sline i t) = AOk x.
Proof.
  intros Hm [Hlab [Hop [[Ea1 [Ea2 Ea3]] Hb]]] Hnames H.
  set (cf := mconf_of cfg) in *. set (m := Z.of_N (c_size cfg)) in *.
  unfold instr_meaning in H. cbv zeta in H. change (mf_legacy cf) with (c_mode cfg =? 0)%N in H.
  set (legacy := (c_mode cfg =? 0)%N) in *.
  set (dflt := if legacy then match il_op l with DAT => IMMEDIATE | _ => DIRECT end else DIRECT) in *.
  assert (Hd88 : is88mode dflt = true) by (unfold dflt; destruct legacy, (il_op l); reflexivity).
  set (am := eff_mode dflt (o_mode (il_a l))).
  set (bm := match il_b l with Some b => eff_mode dflt (o_mode b) | None => dflt end).
  change (match o_mode (il_a l) with Some m0 => m0 | None => dflt end) with am in H.
  change (match il_b l with Some b => match o_mode b with Some m0 => m0 | None => dflt end | None => dflt end) with bm in H.
  change (if legacy then match il_mod l with Some _ => None | None => implied_modifier_88 (il_op l) am bm end
          else Some (match il_mod l with Some m0 => m0 | None => default_modifier_94 (il_op l) am bm end))
    with (md_spec legacy (il_op l) (il_mod l) am bm) in H.
  destruct (md_spec legacy (il_op l) (il_mod l) am bm) as [md|] eqn:Emd; [|discriminate].
  assert (Hleg : legacy = true -> il_mod l = None).
  { intros E. unfold md_spec in Emd. rewrite E in Emd. destruct (il_mod l); [discriminate|reflexivity]. }
  (* the A operand *)
  destruct (value_at cf [] ls i (o_expr (il_a l))) as [av| |] eqn:Eva; try discriminate.
  destruct (value_at_spec cf ls i _ av Ea3 Eva) as [Ka [Da Ia]].
  assert (Na : Forall (name_expands spell m c i (rho_of cf ls i)) (names (o_expr (il_a l)))).
  { eapply Forall_impl; [|exact Ka]. intros id Hk. apply Hnames. exact Hk. }
  destruct (operand_value spell (S (length (c_values c))) m c i _ _ av Ea3 Na Da Ia) as [xa [Xa1 Xa2]].
  (* the model's line *)
  rewrite assemble_line_eq. unfold line_dflt. cbn [tline_sline sl_op sl_amode sl_bmode].
  rewrite (dflt_agrees cfg l t Hop Hleg). fold legacy. fold dflt.
  rewrite Ea1, mode_of_rendered. fold am.
  assert (Ebm : exists wb, (match tl_B t with Some (bm0, _) => mode_text bm0 | None => [] end) = mode_text (option_map amode_char wb) /\
                           bm = eff_mode dflt wb).
  { unfold bm. destruct (il_b l) as [b|], (tl_B t) as [[bm0 B]|]; try (destruct Hb; fail).
    - destruct Hb as [Eb1 _]. exists (o_mode b). rewrite Eb1. split; reflexivity.
    - exists None. split; reflexivity. }
  destruct Ebm as [wb [Ebm1 Ebm2]]. rewrite Ebm1, mode_of_rendered, <- Ebm2.
  pose proof (resolve_ok legacy (il_op l) (il_mod l) (tl_op t) (o_mode (il_a l)) wb dflt md Hop Hd88) as R.
  fold am in R. rewrite <- Ebm2 in R. rewrite (R Emd).
  unfold line_fields, ev_field. cbn [tline_sline sl_codeline sl_a sl_b]. fold m.
  rewrite Ea2. unfold expand_fuel. rewrite Xa1, Xa2.
  rewrite norm_field_mod by lia.
  destruct (il_b l) as [b|] eqn:Eb, (tl_B t) as [[bm0 B]|] eqn:EB; try (destruct Hb; fail).
  - destruct Hb as [Eb1 [Eb2 Eb3]].
    destruct (value_at cf [] ls i (o_expr b)) as [bv| |] eqn:Evb; try discriminate.
    destruct (value_at_spec cf ls i _ bv Eb3 Evb) as [Kb [Db Ib]].
    assert (Nb : Forall (name_expands spell m c i (rho_of cf ls i)) (names (o_expr b))).
    { eapply Forall_impl; [|exact Kb]. intros id Hk. apply Hnames. exact Hk. }
    destruct (operand_value spell (S (length (c_values c))) m c i _ _ bv Eb3 Nb Db Ib) as [xb [Xb1 Xb2]].
    rewrite Eb2. destruct (etoks spell (o_expr b)) as [|b0 bs] eqn:Et; [exfalso; exact (etoks_nonempty _ Et)|].
    rewrite Xb1, Xb2. rewrite norm_field_mod by lia. inversion H; subst x. reflexivity.
  - destruct (il_op l); inversion H; subst x; reflexivity.
Qed.

End Lines.

(* ---------- the compiler looks at the essential lines only ---------- *)
Lemma ls_step_core cfg st ln : ls_step cfg st (core ln) = ls_step cfg st ln.
Proof. destruct st as [c cur]. destruct ln. reflexivity. Qed.
Lemma ls_step_blank cfg st ln : is_blank ln = true -> ls_step cfg st ln = st.
Proof. destruct st as [c cur]. unfold is_blank, ls_step. destruct (sl_typ ln); try discriminate. reflexivity. Qed.
Lemma ls_essential cfg : forall lines st, fold_left (ls_step cfg) (essential lines) st = fold_left (ls_step cfg) lines st.
Proof.
  induction lines as [|ln t IH]; intros st; [reflexivity|].
  unfold essential in *. cbn [filter fold_left]. destruct (is_blank ln) eqn:E; cbn [negb].
  - rewrite (ls_step_blank cfg st ln E). apply IH.
  - cbn [map fold_left]. rewrite ls_step_core. apply IH.
Qed.
Lemma ea_essential m c : forall lines, eval_assertions m c (essential lines) = eval_assertions m c lines.
Proof.
  induction lines as [|ln t IH]; [reflexivity|].
  unfold essential in *. cbn [filter]. destruct (is_blank ln) eqn:E; cbn [negb].
  - cbn [eval_assertions]. unfold is_blank in E. destruct (sl_typ ln); try discriminate. exact IH.
  - cbn [map eval_assertions]. change (sl_typ (core ln)) with (sl_typ ln). change (sl_comment (core ln)) with (sl_comment ln).
    rewrite IH. reflexivity.
Qed.
Lemma assemble_core cfg c ln : assemble_line cfg c (core ln) = assemble_line cfg c ln.
Proof. destruct ln. reflexivity. Qed.
Lemma aa_essential cfg c : forall lines acc, assemble_all cfg c (essential lines) acc = assemble_all cfg c lines acc.
Proof.
  induction lines as [|ln t IH]; intros acc; [reflexivity|].
  unfold essential in *. cbn [filter]. destruct (is_blank ln) eqn:E; cbn [negb].
  - cbn [assemble_all]. unfold is_blank in E. destruct (sl_typ ln); try discriminate. apply IH.
  - cbn [map assemble_all]. change (sl_typ (core ln)) with (sl_typ ln). rewrite assemble_core.
    destruct (sl_typ ln); try apply IH. destruct (assemble_line cfg c ln); try reflexivity. apply IH.
Qed.
Theorem compile_essential cfg lines meta : compile cfg (essential lines) meta = compile cfg lines meta.
Proof.
  unfold compile. rewrite !load_symbols_fold, ls_essential. rewrite ea_essential.
  destruct (negb (validate cfg)); [reflexivity|].
  destruct (graph_has_cycle _) as [[|]|]; try reflexivity.
  destruct (eval_assertions _ _ _) as [[v| |]|]; try reflexivity.
  destruct (expand_expressions _ _) as [[res|]|]; try reflexivity.
  rewrite aa_essential. reflexivity.
Qed.

(* ---------- label tables ---------- *)
Lemma lab_set_find k k' v m : lab_find k (lab_set k' v m) = if text_eqb k k' then Some v else lab_find k m.
Proof.
  induction m as [|[k0 v0] t IH]; cbn [lab_set lab_find].
  - reflexivity.
  - destruct (text_eqb k' k0) eqn:E0; cbn [lab_find].
    + destruct (text_eqb k k') eqn:E1; [reflexivity|].
      apply text_eqb_eq in E0. subst k0. rewrite E1. reflexivity.
    + destruct (text_eqb k k0) eqn:E2.
      * destruct (text_eqb k k') eqn:E1; [|reflexivity].
        apply text_eqb_eq in E1, E2. subst. rewrite text_eqb_refl in E0. discriminate.
      * exact IH.
Qed.

Fixpoint assoc (k : text) (kvs : list (text * Z)) : option Z :=
  match kvs with [] => None | (k', v) :: t => if text_eqb k k' then Some v else assoc k t end.
Definition set_all (kvs : list (text * Z)) (m : labtab) : labtab := fold_left (fun m kv => lab_set (fst kv) (snd kv) m) kvs m.
Lemma assoc_none k kvs : ~ In k (map fst kvs) -> assoc k kvs = None.
Proof.
  induction kvs as [|[k0 v0] t IH]; intros H; [reflexivity|]. cbn [assoc].
  destruct (text_eqb k k0) eqn:E; [apply text_eqb_eq in E; subst; exfalso; apply H; left; reflexivity|].
  apply IH. intros Hin. apply H. right. exact Hin.
Qed.
Lemma set_all_find k : forall kvs m, NoDup (map fst kvs) ->
  lab_find k (set_all kvs m) = match assoc k kvs with Some v => Some v | None => lab_find k m end.
Proof.
  induction kvs as [|[k0 v0] t IH]; intros m Hnd; [reflexivity|].
  cbn [map fst] in Hnd. inversion Hnd as [|x y Hx Hy]; subst.
  unfold set_all in *. cbn [fold_left fst snd]. rewrite (IH _ Hy). cbn [assoc].
  destruct (text_eqb k k0) eqn:E.
  - apply text_eqb_eq in E. subst k0. rewrite (assoc_none k t Hx). rewrite lab_set_find, text_eqb_refl. reflexivity.
  - destruct (assoc k t); [reflexivity|]. rewrite lab_set_find, E. reflexivity.
Qed.
Lemma set_all_app a b m : set_all (a ++ b) m = set_all b (set_all a m).
Proof. unfold set_all. apply fold_left_app. Qed.

Section Docs.
Variable spell : N -> text.

(* the labels of a program, with their addresses *)
Fixpoint lab_pairs (a : Z) (ils : list Prog.iline) : labels :=
  match ils with [] => [] | l :: t => map (fun id => (id, a)) (il_labels l) ++ lab_pairs (a + 1) t end.
Definition spell_pairs (ps : labels) : list (text * Z) := map (fun p => (spell (fst p), snd p)) ps.

Lemma collect_instrs : forall ils a ev ls ins,
  collect (map IInstr ils) a ev ls ins = (ev, ls ++ lab_pairs a ils, ins ++ ils, a + Z.of_nat (length ils)).
Proof.
  induction ils as [|l t IH]; intros a ev ls ins; cbn [map collect lab_pairs length].
  - rewrite !app_nil_r, Z.add_0_r. reflexivity.
  - rewrite IH. rewrite <- !app_assoc. cbn [app]. f_equal. lia.
Qed.
Lemma assertions_instrs cf ev ls ils : assertions cf ev ls (map IInstr ils) = MOk [] 0.
Proof. induction ils as [|l t IH]; [reflexivity|exact IH]. Qed.

Lemma lab_pairs_keys a ils : map fst (lab_pairs a ils) = flat_map il_labels ils.
Proof.
  revert a. induction ils as [|l t IH]; intros a; [reflexivity|]. cbn [lab_pairs flat_map]. rewrite map_app, IH.
  f_equal. rewrite map_map. cbn [fst]. apply map_id.
Qed.
Lemma lab_pairs_range : forall ils a id v, lab_find' id (lab_pairs a ils) = Some v -> a <= v < a + Z.of_nat (length ils).
Proof.
  induction ils as [|l t IH]; intros a id v H; [discriminate|]. cbn [lab_pairs length] in *.
  assert (G : forall ids rest, lab_find' id (map (fun id0 => (id0, a)) ids ++ rest) = Some v -> v = a \/ lab_find' id rest = Some v).
  { induction ids as [|x ids IHi]; intros rest Hr; [right; exact Hr|]. cbn [map app lab_find'] in Hr.
    destruct (x =? id)%N; [left; inversion Hr; reflexivity|apply IHi; exact Hr]. }
  destruct (G _ _ H) as [->|H2]; [lia|]. specialize (IH _ _ _ H2). lia.
Qed.

Lemma assoc_spelled id ps : (forall a b, In a (id :: map fst ps) -> In b (id :: map fst ps) -> spell a = spell b -> a = b) ->
  assoc (spell id) (spell_pairs ps) = lab_find' id ps.
Proof.
  induction ps as [|[k v] t IH]; intros Hinj; [reflexivity|]. cbn [spell_pairs map assoc lab_find' fst snd].
  destruct (N.eqb_spec k id) as [->|Hne].
  - rewrite text_eqb_refl. reflexivity.
  - rewrite text_eqb_neq.
    + apply IH. intros a b Ha Hb. apply Hinj.
      * destruct Ha as [Ha|Ha]; [left; exact Ha|right; right; exact Ha].
      * destruct Hb as [Hb|Hb]; [left; exact Hb|right; right; exact Hb].
    + intros E. apply Hne. symmetry. apply Hinj; [left; reflexivity|right; left; reflexivity|exact E].
Qed.

(* ---------- documents that render a program ---------- *)
(* the first argument: the expression of the ORG line, if the document has one *)
Inductive renders_doc : option nexpr -> list Prog.iline -> list (lelem * nat) -> Prop :=
| RDnil : renders_doc None [] []
| RDinstr org l ils t k es : renders_line spell l t -> renders_doc org ils es -> renders_doc org (l :: ils) ((LInstr t, k) :: es)
| RDcomment org c k ils es : comment_plain c -> renders_doc org ils es -> renders_doc org ils ((LComment c, k) :: es)
| RDorg e kw cmt k ils es : dir_kw_ok kw "org" -> nok e -> renders_doc None ils es ->
    renders_doc (Some e) ils ((LDir kw (etoks spell e) cmt, k) :: es).

Lemma rd_names org ils es : renders_doc org ils es -> dnames es = map spell (flat_map il_labels ils).
Proof.
  induction 1 as [|org l ils t k es [Hl _] _ IH|org c k ils es _ _ IH|e kw cmt k ils es _ _ _ IH]; cbn [dnames flat_map]; try exact IH; [reflexivity|].
  rewrite map_app, Hl, IH. reflexivity.
Qed.

Lemma set_labels ids C : forall tab,
  fold_left (fun m l0 => lab_set l0 C m) (map spell ids) tab = set_all (spell_pairs (map (fun id => (id, C)) ids)) tab.
Proof. induction ids as [|id t IH]; intros tab; [reflexivity|]. cbn [map fold_left]. rewrite IH. reflexivity. Qed.

Lemma rd_symbols cfg org ils es : renders_doc org ils es -> forall C v tab se cur,
  fold_left (ls_step cfg) (elines C es) (mkC v tab se, cur) =
  (mkC v (set_all (spell_pairs (lab_pairs C ils)) tab) (match org with Some e => etoks spell e | None => se end),
   cur + Z.of_nat (length ils)).
Proof.
  induction 1 as [|org l ils t k es [Hl _] _ IH|org c k ils es _ _ IH|e kw cmt k ils es Hkw _ _ IH]; intros C v tab se cur; cbn [elines fold_left lab_pairs length].
  - unfold set_all. cbn. rewrite Z.add_0_r. reflexivity.
  - cbn [ls_step tline_sline sl_typ sl_labels sl_codeline c_values c_labels c_startexpr]. rewrite IH.
    rewrite Hl, set_labels. unfold spell_pairs. rewrite map_app, set_all_app. f_equal. lia.
  - cbn [ls_step comment_sline sl_typ]. apply IH.
  - destruct (dir_kw_facts kw "org" (or_introl eq_refl) Hkw) as [_ [_ [K1 [K2 K3]]]]. cbn in K2, K3.
    cbn [ls_step dir_sline sl_typ sl_op sl_a c_values c_labels]. rewrite K1, K2. rewrite IH. reflexivity.
Qed.

Lemma rd_assertions m c org ils es : renders_doc org ils es -> forall C, eval_assertions m c (elines C es) = Some (EOk 1).
Proof.
  induction 1 as [|org l ils t k es _ _ IH|org cm k ils es Hc _ IH|e kw cmt k ils es _ _ _ IH]; intros C; cbn [elines eval_assertions]; [reflexivity| | |].
  - cbn [tline_sline sl_typ]. apply IH.
  - cbn [comment_sline sl_typ sl_comment]. unfold comment_plain in Hc. rewrite Hc. apply IH.
  - cbn [dir_sline sl_typ]. apply IH.
Qed.

Lemma rd_assemble cfg c ls org ils es : (0 < c_size cfg)%N -> renders_doc org ils es ->
  forall i acc code s,
  (forall j id, i <= j < i + Z.of_nat (length ils) -> known (mconf_of cfg) ls id ->
                name_expands spell (Z.of_N (c_size cfg)) c j (rho_of (mconf_of cfg) ls j) id) ->
  meaning_code (mconf_of cfg) [] ls i ils acc = MOk code s ->
  assemble_all cfg c (elines i es) acc = inr code.
Proof.
  intros Hm. induction 1 as [|org l ils t k es Hl _ IH|org cm k ils es _ _ IH|e kw cmt k ils es _ _ _ IH]; intros i acc code s Hn H; cbn [elines assemble_all].
  - cbn [meaning_code] in H. inversion H; subst. reflexivity.
  - cbn [meaning_code] in H. destruct (instr_meaning (mconf_of cfg) [] ls i l) as [x| |] eqn:Ei; try discriminate.
    cbn [tline_sline sl_typ]. change (mkSL 0 i lineInstruction _ _ _ _ _ _ _ 0) with (tline_sline i t).
    rewrite (assemble_rendered spell cfg c ls l t i x Hm Hl); [|intros id Hk; apply Hn; [cbn [length]; lia|exact Hk]|exact Ei].
    apply (IH (i + 1) (acc ++ [x]) code s); [|exact H]. intros j id Hj. apply Hn. cbn [length]. lia.
  - cbn [comment_sline sl_typ]. apply (IH i acc code s Hn H).
  - cbn [dir_sline sl_typ]. apply (IH i acc code s Hn H).
Qed.
End Docs.

(* ---------- spelling of names ---------- *)
Section Whole.
Variable spell : N -> text.

Record spell_ok (ids : list N) : Prop := mkSpellOk {
  sp_pre : spell ID_CORESIZE = s2t "CORESIZE" /\ spell ID_MAXLENGTH = s2t "MAXLENGTH" /\
           spell ID_MAXPROCESSES = s2t "MAXPROCESSES" /\ spell ID_MINDISTANCE = s2t "MINDISTANCE";
  sp_lab : forall id, In id ids -> label_name (spell id) /\ ~ In (spell id) predefined;
  sp_inj : forall a b, In a ids -> In b ids -> spell a = spell b -> a = b;
  sp_nodup : NoDup ids;
  sp_word : forall id, spell id <> [42%N] }.     (* a name is a word, not the symbol "*" *)

Lemma constants_none cfg k : ~ In k predefined -> sym_find k (load_constants cfg) = None.
Proof.
  intros H. unfold load_constants. cbn [sym_find].
  rewrite !text_eqb_neq; [reflexivity| | | |]; intros E; apply H; rewrite E; cbn; auto.
Qed.

Lemma lab_find'_in id ps v : lab_find' id ps = Some v -> In id (map fst ps).
Proof.
  induction ps as [|[k w] t IH]; [discriminate|]. cbn [lab_find' map fst].
  destruct (N.eqb_spec k id); [intros _; left; assumption|intros H; right; apply IH; exact H].
Qed.

Lemma NoDup_map_spell ids : NoDup ids -> (forall a b, In a ids -> In b ids -> spell a = spell b -> a = b) -> NoDup (map spell ids).
Proof.
  induction ids as [|x t IH]; intros Hnd Hinj; [constructor|]. inversion Hnd as [|y z Hx Ht]; subst. cbn [map]. constructor.
  - intros Hin. apply in_map_iff in Hin. destruct Hin as [y [Ey Hy]]. apply Hx.
    rewrite <- (Hinj y x); [exact Hy|right; exact Hy|left; reflexivity|exact Ey].
  - apply IH; [exact Ht|]. intros a b Ha Hb. apply Hinj; right; assumption.
Qed.

Lemma rem_small_abs a m : Z.abs a < m -> Z.rem a m = a.
Proof.
  intros H. destruct (Z_lt_le_dec a 0) as [Hn|Hp].
  - replace a with (- (- a)) at 1 by lia. rewrite Z.rem_opp_l', Z.rem_small by lia. lia.
  - apply Z.rem_small. lia.
Qed.

Lemma known_expands cfg ls se j id :
  spell_ok (map fst ls) -> (forall a, lab_find' id ls = Some a -> Z.abs (a - j) < Z.of_N (c_size cfg)) ->
  known (mconf_of cfg) ls id ->
  name_expands spell (Z.of_N (c_size cfg)) (mkC (load_constants cfg) (set_all (spell_pairs spell ls) []) se) j
               (rho_of (mconf_of cfg) ls j) id.
Proof.
  intros [[P1 [P2 [P3 P4]]] Hlab Hinj Hnd _] Hrange Hk.
  unfold name_expands, expand_tok, rho_of. cbn [t_typ t_val c_values c_labels].
  destruct (constants_lookup cfg) as [C1 [C2 [C3 C4]]].
  unfold known in Hk. unfold predefined_value in *. cbn [mconf_of mf_M mf_len mf_procs mf_dist] in *.
  assert (Hnum : forall n, Some [num_tok n] = Some (map inj (print (lit_of (Z.of_N n))))).
  { intros n. unfold lit_of. replace (Z.of_N n <? 0) with false by lia. cbn [print map inj]. rewrite N2Z.id. reflexivity. }
  destruct (N.eqb_spec id ID_CORESIZE) as [->|N1]; [rewrite P1, C1; apply Hnum|].
  destruct (N.eqb_spec id ID_MAXLENGTH) as [->|N2]; [rewrite P2, C2; apply Hnum|].
  destruct (N.eqb_spec id ID_MAXPROCESSES) as [->|N3]; [rewrite P3, C3; apply Hnum|].
  destruct (N.eqb_spec id ID_MINDISTANCE) as [->|N4]; [rewrite P4, C4; apply Hnum|].
  destruct Hk as [Hk|Hk]; [congruence|].
  destruct (lab_find' id ls) as [a|] eqn:Ea; [|congruence].
  pose proof (lab_find'_in _ _ _ Ea) as Hin.
  destruct (Hlab id Hin) as [_ Hnp]. rewrite (constants_none cfg _ Hnp).
  rewrite set_all_find.
  - rewrite (assoc_spelled spell id ls).
    + rewrite Ea. cbn [lab_find]. cbv zeta. rewrite rem_small_abs by (apply Hrange; reflexivity).
      unfold lit_of. destruct (a - j <? 0); reflexivity.
    + intros x y Hx Hy. apply Hinj; [destruct Hx as [<-|Hx]|destruct Hy as [<-|Hy]]; assumption.
  - unfold spell_pairs. rewrite map_map. cbn [fst].
    rewrite <- (map_map fst spell). apply NoDup_map_spell; assumption.
Qed.

Lemma meaning_code_length cf ev ls : forall ils i acc code s,
  meaning_code cf ev ls i ils acc = MOk code s -> length code = (length acc + length ils)%nat /\ s = 0.
Proof.
  induction ils as [|l t IH]; intros i acc code s H; cbn [meaning_code] in H.
  - inversion H; subst. cbn [length]. split; [lia|reflexivity].
  - destruct (instr_meaning cf ev ls i l); try discriminate. destruct (IH _ _ _ _ H) as [E1 E2].
    rewrite app_length in E1. cbn [length] in *. split; [lia|exact E2].
Qed.

(* ---------- the END line ---------- *)
Definition end_pairs (n : Z) (elabs : list N) : labels := map (fun id => (id, n)) elabs.
Definition renders_end (pend : option nexpr) (elabs : list N) (x : endline) : Prop :=
  lnames (en_labs x) = map spell elabs /\ lower_is (en_kw x) "end" = true /\
  match pend with Some e => en_e x = etoks spell e /\ nok e | None => en_e x = [] end.

Lemma lab_find'_app id a b : lab_find' id (a ++ b) = match lab_find' id a with Some v => Some v | None => lab_find' id b end.
Proof. induction a as [|[k v] t IH]; [reflexivity|]. cbn [app lab_find']. destruct (k =? id)%N; [reflexivity|exact IH]. Qed.
Lemma end_pairs_find id n elabs a : lab_find' id (end_pairs n elabs) = Some a -> a = n /\ elabs <> [].
Proof.
  induction elabs as [|x t IH]; [discriminate|]. cbn [end_pairs map lab_find']. fold (end_pairs n t).
  destruct (x =? id)%N; [intros H; inversion H; split; [reflexivity|discriminate]|]. intros H. split; [apply (IH H)|discriminate].
Qed.

Lemma aa_skip_last cfg c x : sl_typ x <> lineInstruction -> forall l acc, assemble_all cfg c (l ++ [x]) acc = assemble_all cfg c l acc.
Proof.
  intros Hx. induction l as [|ln t IH]; intros acc; cbn [app assemble_all].
  - destruct (sl_typ x); try reflexivity. congruence.
  - destruct (sl_typ ln); try apply IH. destruct (assemble_line cfg c ln); try reflexivity. apply IH.
Qed.
Lemma ea_skip_last m c x : sl_typ x <> lineComment -> forall l, eval_assertions m c (l ++ [x]) = eval_assertions m c l.
Proof.
  intros Hx. induction l as [|ln t IH]; cbn [app eval_assertions].
  - destruct (sl_typ x); try reflexivity. congruence.
  - destruct (sl_typ ln); try apply IH. destruct (has_prefix (s2t ";assert") (sl_comment ln)); [|apply IH].
    destruct (eval_assert m c (skipn 7 (sl_comment ln))) as [[v| |]|]; try reflexivity. apply IH.
Qed.

(* the compiler on the essential lines of a document that renders a program of labelled instructions with its
   ORG line and END line, if any *)
Theorem compile_program cfg org pend elabs ils es xo lines meta nm au code start :
  validate cfg = true -> renders_doc spell org ils es -> spell_ok (flat_map il_labels ils ++ elabs) ->
  match xo with
  | Some x => renders_end pend elabs x /\ (elabs = [] \/ Z.of_nat (length ils) < Z.of_N (c_size cfg))
  | None => pend = None /\ elabs = []
  end ->
  match org with Some e => nok e | None => True end ->
  essential lines = elines 0 es ++ match xo with Some x => [end_sline x] | None => [] end ->
  meaning (mconf_of cfg) (mkProg (map IInstr ils) org pend nm au elabs) = MOk code start ->
  compile cfg lines meta = COk code start meta.
Proof.
  intros Hv Hrd Hsp Hend Horg Hess Hmean.
  assert (Hm : (0 < c_size cfg)%N) by (unfold validate in Hv; destruct (c_size cfg <? 3)%N eqn:E; [discriminate Hv|lia]).
  assert (Hlc : (c_len cfg <= c_size cfg)%N).
  { unfold validate in Hv. destruct (c_size cfg <? c_len cfg)%N eqn:E; [|lia].
    repeat (rewrite ?andb_false_r, ?andb_false_l in Hv). discriminate Hv. }
  set (n := Z.of_nat (length ils)).
  unfold meaning in Hmean. cbn [pr_items pr_end_labels pr_org pr_end] in Hmean.
  rewrite collect_instrs in Hmean. cbn [app] in Hmean. rewrite assertions_instrs in Hmean. rewrite Z.add_0_l in Hmean.
  fold n in Hmean. change (map (fun id => (id, n)) elabs) with (end_pairs n elabs) in Hmean.
  set (ls := lab_pairs 0 ils ++ end_pairs n elabs) in *.
  destruct (meaning_code (mconf_of cfg) [] ls 0 ils []) as [code' s'| |] eqn:Emc; try discriminate.
  destruct (meaning_code_length _ _ _ _ _ _ _ _ Emc) as [Elen _]. cbn [length Nat.add] in Elen.
  destruct (mf_len (mconf_of cfg) <? Z.of_nat (length code')) eqn:El; [discriminate|].
  cbn [mconf_of mf_len] in El.
  (* the label table and the start expression of the model *)
  assert (Hkeys : map fst ls = flat_map il_labels ils ++ elabs).
  { unfold ls. rewrite map_app, lab_pairs_keys. f_equal. unfold end_pairs. rewrite map_map. cbn [fst]. apply map_id. }
  assert (Hrange : forall id a j, 0 <= j -> (j < n \/ j = 0) -> lab_find' id ls = Some a -> Z.abs (a - j) < Z.of_N (c_size cfg)).
  { intros id a j Hj0 Hj Ha. unfold ls in Ha. rewrite lab_find'_app in Ha.
    destruct (lab_find' id (lab_pairs 0 ils)) as [v|] eqn:E1.
    - inversion Ha; subst v. pose proof (lab_pairs_range spell _ _ _ _ E1) as Hr. fold n in Hr. lia.
    - destruct (end_pairs_find _ _ _ _ Ha) as [-> Hne].
      destruct xo as [x|]; [|destruct Hend as [_ Hnil]; congruence].
      destruct Hend as [_ [Hnil|Hlt]]; [congruence|]. fold n in Hlt. lia. }
  set (se := match xo with
             | Some x => match en_e x with [] => match org with Some e => etoks spell e | None => [num_tok 0] end | a => a end
             | None => match org with Some e => etoks spell e | None => [num_tok 0] end
             end).
  set (c := mkC (load_constants cfg) (set_all (spell_pairs spell ls) []) se).
  assert (Hsym : load_symbols cfg (elines 0 es ++ match xo with Some x => [end_sline x] | None => [] end) = c).
  { rewrite load_symbols_fold, fold_left_app.
    rewrite (rd_symbols spell cfg org ils es Hrd 0 (load_constants cfg) [] [num_tok 0] 0). fold n. unfold c, se, ls.
    destruct xo as [x|].
    - destruct Hend as [[Hl [Hkw _]] _]. cbn [fold_left ls_step end_sline sl_typ sl_op sl_labels sl_a c_values c_labels c_startexpr fst].
      assert (K1 : lower_is (en_kw x) "equ" = false /\ lower_is (en_kw x) "org" = false).
      { unfold lower_is in *. apply text_eqb_eq in Hkw. rewrite Hkw. split; reflexivity. }
      destruct K1 as [K1 K2]. rewrite K1, K2, Hkw. cbn [fst].
      rewrite Hl, set_labels. unfold spell_pairs. rewrite map_app, set_all_app. rewrite Z.add_0_l. reflexivity.
    - destruct Hend as [_ ->]. cbn [fold_left fst end_pairs map]. rewrite app_nil_r. reflexivity. }
  assert (Hknown : forall j id, 0 <= j -> (j < n \/ j = 0) -> known (mconf_of cfg) ls id ->
                     name_expands spell (Z.of_N (c_size cfg)) c j (rho_of (mconf_of cfg) ls j) id).
  { intros j id Hj0 Hj Hk. apply known_expands; [rewrite Hkeys; exact Hsp| |exact Hk].
    intros a Ha. apply (Hrange id a j Hj0 Hj Ha). }
  rewrite <- compile_essential, Hess. unfold compile. rewrite Hv. cbn [negb]. rewrite Hsym.
  cbn [c_values c_labels c_startexpr c]. rewrite constants_acyclic.
  assert (Hea : eval_assertions (Z.of_N (c_size cfg)) c (elines 0 es ++ match xo with Some x => [end_sline x] | None => [] end) = Some (EOk 1)).
  { destruct xo as [x|]; [rewrite ea_skip_last by (cbn; discriminate)|rewrite app_nil_r]; apply (rd_assertions spell _ _ org ils es Hrd 0). }
  fold c. rewrite Hea. rewrite constants_resolved. fold c.
  assert (Haa : assemble_all cfg c (elines 0 es ++ match xo with Some x => [end_sline x] | None => [] end) [] = inr code').
  { destruct xo as [x|]; [rewrite aa_skip_last by (cbn; discriminate)|rewrite app_nil_r];
      (apply (rd_assemble spell cfg c ls org ils es Hm Hrd 0 [] code' s'); [|exact Emc]);
      intros j id Hj Hk; apply Hknown; try assumption; fold n in Hj; lia. }
  change (mkC (load_constants cfg) (set_all (spell_pairs spell ls) []) se) with c. rewrite Haa.
  replace (c_len cfg <? N.of_nat (length code'))%N with false by lia.
  (* the entry point *)
  assert (Hstart : forall e, nok e -> se = etoks spell e ->
            match value_at (mconf_of cfg) [] ls 0 e with
            | MV v => if (v <? 0) || (negb (v =? 0) && (Z.of_nat (length code') <=? v)) then MReject else MOk code' v
            | MErr => MReject
            | MAny => MUnconstrained
            end = MOk code start ->
            match expand_expression (expand_fuel c) (Z.of_N (c_size cfg)) c 0 se with
            | None => COutOfFuel
            | Some None => CErr
            | Some (Some se0) =>
              match evaluate_expression se0 with
              | EErr => CErr
              | EUnmodelled => CUnmodelled
              | EOk sv => if ((sv <? 0) || (negb (sv =? 0) && (Z.of_nat (length code') <=? sv))) then CErr else COk code' sv meta
              end
            end = COk code start meta).
  { intros e He Ese H. destruct (value_at (mconf_of cfg) [] ls 0 e) as [v| |] eqn:Ev; try discriminate.
    destruct (value_at_spec (mconf_of cfg) ls 0 e v He Ev) as [Ke [De Ie]].
    assert (Ne : Forall (name_expands spell (Z.of_N (c_size cfg)) c 0 (rho_of (mconf_of cfg) ls 0)) (names e)).
    { eapply Forall_impl; [|exact Ke]. intros id Hk. apply Hknown; [lia|right; reflexivity|exact Hk]. }
    destruct (operand_value spell (S (length (c_values c))) (Z.of_N (c_size cfg)) c 0 _ e v He Ne De Ie) as [xs [X1 X2]].
    rewrite Ese. unfold expand_fuel. rewrite X1, X2.
    destruct ((v <? 0) || (negb (v =? 0) && (Z.of_nat (length code') <=? v))); [discriminate|]. inversion H; subst. reflexivity. }
  destruct org as [eo|], pend as [ep|]; try discriminate.
  - (* ORG *)
    apply (Hstart eo Horg); [|exact Hmean]. unfold se. destruct xo as [x|]; [|reflexivity].
    destruct Hend as [[_ [_ Hee]] _]. rewrite Hee. reflexivity.
  - (* END with an expression *)
    destruct xo as [x|]; [|destruct Hend as [Hp _]; discriminate Hp].
    destruct Hend as [[_ [_ [Hee Hnok]]] _]. apply (Hstart ep Hnok); [|exact Hmean]. unfold se. rewrite Hee.
    destruct (etoks spell ep) eqn:E; [exfalso; exact (etoks_nonempty spell ep E)|reflexivity].
  - (* neither *)
    inversion Hmean; subst code' start.
    assert (Ese : se = [num_tok 0]).
    { unfold se. destruct xo as [x|]; [|reflexivity]. destruct Hend as [[_ [_ Hee]] _]. rewrite Hee. reflexivity. }
    rewrite Ese. unfold expand_fuel. rewrite expand_expression_plain by (repeat constructor; cbn; discriminate).
    rewrite eval_num. reflexivity.
Qed.

End Whole.
