(* C07Proof.v — reduction modulo the core size, predefined constants, assertions. *)
From GM Require Import Base Text Token Lexer Scanner ExprSpec ExprEval Parser Compile Sim C16Proof.
From Coq Require Import Lia.
Open Scope Z_scope.

Lemma norm_field_mod v m : 0 < m -> norm_field v m = Z.to_N (v mod m).
Proof.
  intros Hm. unfold norm_field. f_equal.
  destruct (Z_lt_le_dec v 0) as [Hv|Hv].
  - remember (- v) as a eqn:Ea. assert (Ev : v = - a) by lia. subst v. clear Ea.
    rewrite Z.rem_opp_l by lia. rewrite Z.rem_mod_nonneg by lia.
    pose proof (Z.mod_pos_bound a m Hm) as Hb.
    destruct (Z.eq_dec (a mod m) 0) as [E|E].
    + rewrite E. cbn. rewrite Z.mod_opp_l_z by (try lia; exact E). reflexivity.
    + destruct (- (a mod m) <? 0) eqn:E0; [|lia].
      rewrite Z.rem_small by lia. rewrite Z.mod_opp_l_nz by (try lia; exact E). lia.
  - rewrite Z.rem_mod_nonneg by lia. pose proof (Z.mod_pos_bound v m Hm).
    destruct (v mod m <? 0) eqn:E0; [lia|reflexivity].
Qed.

(* a number token evaluates to its value (when it fits the 32-bit evaluator) *)
Lemma eval_num n : evaluate_expression [num_tok n] = if int32_ok (Z.of_N n) then EOk (Z.of_N n) else EErr.
Proof.
  unfold evaluate_expression, num_tok, flip_double_negatives, combine_signs, go_eval.
  cbn -[dec_of_N parse_digits eval_tokens int32_ok]. rewrite parse_digits_dec. reflexivity.
Qed.

Lemma constants_table cfg :
  load_constants cfg =
  [(s2t "CORESIZE", [num_tok (c_size cfg)]); (s2t "MAXLENGTH", [num_tok (c_len cfg)]);
   (s2t "MAXPROCESSES", [num_tok (c_procs cfg)]); (s2t "MINDISTANCE", [num_tok (c_dist cfg)])].
Proof. reflexivity. Qed.

Lemma constants_lookup cfg :
  sym_find (s2t "CORESIZE") (load_constants cfg) = Some [num_tok (c_size cfg)] /\
  sym_find (s2t "MAXLENGTH") (load_constants cfg) = Some [num_tok (c_len cfg)] /\
  sym_find (s2t "MAXPROCESSES") (load_constants cfg) = Some [num_tok (c_procs cfg)] /\
  sym_find (s2t "MINDISTANCE") (load_constants cfg) = Some [num_tok (c_dist cfg)].
Proof. repeat split; reflexivity. Qed.

(* an assertion passes exactly when its expression evaluates to a non-zero value *)
Lemma assert_passes m c txt v :
  eval_assert m c txt = Some (EOk v) <->
  exists toks e, lex_ascii txt = Some toks /\
                 expand_expression (expand_fuel c) m c 0 (removelast toks) = Some (Some e) /\
                 evaluate_expression e = EOk v /\ v <> 0.
Proof.
  unfold eval_assert. split.
  - destruct (lex_ascii txt) as [toks|]; [|discriminate].
    destruct (expand_expression _ _ _ _ _) as [[e|]|] eqn:E; try discriminate.
    destruct (evaluate_expression e) as [w| |] eqn:Ev; try discriminate.
    destruct (Z.eqb_spec w 0); [discriminate|]. intros H. inversion H; subst.
    exists toks, e. auto.
  - intros [toks [e [E1 [E2 [E3 E4]]]]]. rewrite E1, E2, E3.
    destruct (Z.eqb_spec v 0); [congruence|reflexivity].
Qed.
Lemma assert_zero_rejects m c txt toks e :
  lex_ascii txt = Some toks ->
  expand_expression (expand_fuel c) m c 0 (removelast toks) = Some (Some e) ->
  evaluate_expression e = EOk 0 -> eval_assert m c txt = Some EErr.
Proof. intros E1 E2 E3. unfold eval_assert. rewrite E1, E2, E3. reflexivity. Qed.
