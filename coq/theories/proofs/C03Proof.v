(* C03Proof.v — the compile stage: default modifiers, label offsets, textual EQU
   substitution, letter case of mnemonics, the entry point. *)
From GM Require Import Base Text Token Lexer Scanner ExprSpec ExprEval Parser Compile Sim Meaning Render
     C07Parser C07Signs C07Model C07Proof C09Proof C14Proof C16Proof.
From Coq Require Import Lia.
Open Scope Z_scope.

(* ---------- default modifiers ---------- *)
Lemma defaults_94 o am bm : op_mode_94 o am bm = default_modifier_94 o am bm.
Proof. destruct o, am, bm; reflexivity. Qed.

(* ---------- letter case of mnemonics, modifiers and pseudo-ops ---------- *)
Lemma opcode_any_case s k o : opcode_of_text (recase s k (opcode_name o)) = Some o.
Proof. unfold opcode_of_text. rewrite lower_recase. destruct o; reflexivity. Qed.
Lemma opmode_any_case s k md : opmode_of_text (recase s k (opmode_name md)) = Some md.
Proof. unfold opmode_of_text. rewrite lower_recase. destruct md; reflexivity. Qed.
Lemma pseudo_any_case s k (kw : text) : is_pseudo_text (recase s k kw) = is_pseudo_text kw.
Proof. unfold is_pseudo_text. rewrite lower_recase. reflexivity. Qed.

(* ---------- one substitution pass is token-wise: EQU names are replaced by their text ---------- *)
Definition expand_tok (m : Z) (c : comp) (line : Z) (t : token) : option (list token) :=
  match t_typ t with
  | tokText =>
    match sym_find (t_val t) (c_values c) with
    | Some v => Some v
    | None =>
      match lab_find (t_val t) (c_labels c) with
      | Some lab =>
        let v := Z.rem (lab - line) m in
        if v <? 0 then Some [minus_tok; num_tok (Z.to_N (- v))] else Some [num_tok (Z.to_N v)]
      | None => None
      end
    end
  | _ => Some [t]
  end.
Fixpoint expand_all (m : Z) (c : comp) (line : Z) (l : list token) : option (list token) :=
  match l with
  | [] => Some []
  | t :: r => match expand_tok m c line t, expand_all m c line r with
              | Some a, Some b => Some (a ++ b)
              | _, _ => None
              end
  end.

Lemma expand_pass_fold m c line l : forall acc,
  fold_left (fun acc t =>
               match acc with
               | None => None
               | Some out =>
                 match t_typ t with
                 | tokText =>
                   match sym_find (t_val t) (c_values c) with
                   | Some v => Some (out ++ v)
                   | None =>
                     match lab_find (t_val t) (c_labels c) with
                     | Some lab =>
                       let v := Z.rem (lab - line) m in
                       if (v <? 0)%Z then Some (out ++ [minus_tok; num_tok (Z.to_N (- v))])
                       else Some (out ++ [num_tok (Z.to_N v)])
                     | None => None
                     end
                   end
                 | _ => Some (out ++ [t])
                 end
               end) l acc =
  match acc, expand_all m c line l with
  | Some out, Some b => Some (out ++ b)
  | _, _ => None
  end.
Proof.
  induction l as [|t r IH]; intros acc.
  - cbn. destruct acc; [rewrite app_nil_r|]; reflexivity.
  - cbn [fold_left expand_all]. rewrite IH. destruct acc as [out|]; [|destruct (expand_tok m c line t), (expand_all m c line r); reflexivity].
    unfold expand_tok. destruct (t_typ t); try (destruct (expand_all m c line r); [rewrite <- app_assoc|]; reflexivity).
    destruct (sym_find (t_val t) (c_values c)) as [v|].
    + destruct (expand_all m c line r); [rewrite <- app_assoc|]; reflexivity.
    + destruct (lab_find (t_val t) (c_labels c)) as [lab|]; [|reflexivity]. cbv zeta.
      destruct (Z.rem (lab - line) m <? 0); destruct (expand_all m c line r); try rewrite <- app_assoc; reflexivity.
Qed.
Lemma expand_pass_tokenwise m c line l : expand_pass m c line l = expand_all m c line l.
Proof. unfold expand_pass. rewrite expand_pass_fold. destruct (expand_all m c line l); reflexivity. Qed.
Lemma expand_all_app m c line a b :
  expand_all m c line (a ++ b) =
  match expand_all m c line a, expand_all m c line b with Some x, Some y => Some (x ++ y) | _, _ => None end.
Proof.
  induction a as [|t r IH]; cbn [app expand_all].
  - destruct (expand_all m c line b); reflexivity.
  - rewrite IH. destruct (expand_tok m c line t), (expand_all m c line r), (expand_all m c line b); try reflexivity.
    rewrite app_assoc. reflexivity.
Qed.

(* ---------- a label is the offset from the referring instruction ---------- *)
Lemma ttype_eqb_refl t : ttype_eqb t t = true.
Proof. unfold ttype_eqb. apply N.eqb_refl. Qed.
Lemma toks_eqb_refl l : toks_eqb l l = true.
Proof.
  unfold toks_eqb. induction l as [|t r IH]; [reflexivity|]. cbn [list_eqb]. rewrite IH.
  unfold tok_eqb. rewrite ttype_eqb_refl, text_eqb_refl. reflexivity.
Qed.
Lemma rem_mod_same a m : 0 < m -> (Z.rem a m) mod m = a mod m.
Proof.
  intros Hm. pose proof (Z.quot_rem' a m) as E.
  replace (Z.rem a m) with (a + (- Z.quot a m) * m) by lia. apply Z_mod_plus_full.
Qed.

Lemma expand_two_passes f m c line l l' :
  expand_pass m c line l = Some l' -> toks_eqb l l' = false -> expand_pass m c line l' = Some l' ->
  expand_expression (S (S f)) m c line l = Some (Some l').
Proof.
  intros H1 H2 H3. cbn [expand_expression]. rewrite H1, H2, H3, toks_eqb_refl. reflexivity.
Qed.

Lemma label_offset values labels se l L line m f :
  lab_find l labels = Some L -> sym_find l values = None -> 0 < m <= 2147483648 ->
  exists toks v,
    expand_expression (S (S f)) m (mkC values labels se) line [mkT tokText l] = Some (Some toks) /\
    evaluate_expression toks = EOk v /\
    norm_field v m = Z.to_N ((L - line) mod m).
Proof.
  intros HL HS Hm. set (c := mkC values labels se). set (v := Z.rem (L - line) m).
  assert (Hv : - m < v < m) by (unfold v; pose proof (Z.rem_bound_abs (L - line) m); lia).
  assert (P1 : expand_pass m c line [mkT tokText l] =
               Some (if v <? 0 then [minus_tok; num_tok (Z.to_N (- v))] else [num_tok (Z.to_N v)])).
  { rewrite expand_pass_tokenwise. cbn [expand_all expand_tok t_typ t_val c_values c_labels c].
    rewrite HS, HL. cbv zeta. fold v. destruct (v <? 0); reflexivity. }
  destruct (v <? 0) eqn:Es.
  - exists [minus_tok; num_tok (Z.to_N (- v))], v. split; [|split].
    + apply expand_two_passes; [exact P1|reflexivity|]. rewrite expand_pass_tokenwise. reflexivity.
    + pose proof (evaluate_printed (Sgn true (Lit (- v))) ltac:(cbn; lia)) as E.
      cbn [print map inj bop_text denote] in E. unfold minus_tok, num_tok. rewrite E.
      replace (- - v) with v by lia. unfold int32_ok. replace ((-2147483648 <=? v) && (v <=? 2147483647)) with true by lia. reflexivity.
    + rewrite norm_field_mod by lia. unfold v. rewrite rem_mod_same by lia. reflexivity.
  - exists [num_tok (Z.to_N v)], v. split; [|split].
    + apply expand_two_passes; [exact P1|reflexivity|]. rewrite expand_pass_tokenwise. reflexivity.
    + rewrite eval_num. rewrite Z2N.id by lia. unfold int32_ok.
      replace ((-2147483648 <=? v) && (v <=? 2147483647)) with true by lia. reflexivity.
    + rewrite norm_field_mod by lia. unfold v. rewrite rem_mod_same by lia. reflexivity.
Qed.

(* ---------- the entry point is the value of the ORG / END expression ---------- *)
Lemma entry_point cfg lines meta code start meta' :
  compile cfg lines meta = COk code start meta' ->
  exists resolved se,
    let c0 := load_symbols cfg lines in
    let c := mkC resolved (c_labels c0) (c_startexpr c0) in
    expand_expression (expand_fuel c) (Z.of_N (c_size cfg)) c 0 (c_startexpr c0) = Some (Some se) /\
    evaluate_expression se = EOk start /\ meta' = meta.
Proof.
  unfold compile. destruct (negb (validate cfg)); [discriminate|].
  destruct (graph_has_cycle _) as [[|]|]; try discriminate.
  destruct (eval_assertions _ _ _) as [[v| |]|]; try discriminate.
  destruct (expand_expressions _ _) as [[resolved|]|]; try discriminate.
  destruct (assemble_all _ _ _ _) as [[]|code']; try discriminate.
  destruct (c_len cfg <? N.of_nat (length code'))%N; [discriminate|].
  destruct (expand_expression _ _ _ _ _) as [[se|]|] eqn:E; try discriminate.
  destruct (evaluate_expression se) as [sv| |] eqn:Ev; try discriminate.
  destruct ((sv <? 0) || _); [discriminate|]. intros H. inversion H; subst.
  exists resolved, se. cbv zeta. auto.
Qed.
