(* C05Lexer.v — the lexer goroutine (lex.go) always ends, after a number of state
   functions linear in the input, and what it sends is a run of ordinary tokens
   followed by exactly one terminal token (EOF or error): every send is received
   by Tokens(), so nothing is left blocked.  For every classification of runes. *)
From GM Require Import Base Text Token Lexer Scanner.
From Coq Require Import Lia.
Open Scope N_scope.

Definition nonterm (t : token) : Prop := is_terminal t = false.
Definition closed_stream (l : list token) : Prop :=
  exists pre t, l = pre ++ [t] /\ is_terminal t = true /\ Forall nonterm pre.

Definition rem (l : lexer) : nat := if l_eof l then O else S (length (l_inp l)).

Lemma lnext_cases l :
  (snd (fst (lnext l)) = true) \/
  (snd (fst (lnext l)) = false /\ l_eof l = false /\ l_eof (snd (lnext l)) = false /\ S (rem (snd (lnext l))) = rem l).
Proof.
  unfold lnext, rem. destruct (l_eof l) eqn:E; [left; reflexivity|].
  destruct (l_inp l) as [|r t] eqn:Ei; [left; reflexivity|]. right. cbn. auto.
Qed.

Section Lex.
Variables is_space is_letter is_digit : N -> bool.

(* what a loop may return: stopped with a closed stream, or back to lexInput having sent ordinary tokens *)
Definition loop_ok (l : lexer) (res : list token * option lstate * lexer) : Prop :=
  let '(sent, nxt, l') := res in
  match nxt with
  | None => closed_stream sent
  | Some st => st = LInput /\ Forall nonterm sent /\ (rem l' <= rem l)%nat
  end.
Definition consumed (l : lexer) (res : list token * option lstate * lexer) : Prop :=
  let '(_, nxt, l') := res in match nxt with None => True | Some _ => (rem l' < rem l)%nat end.

Lemma closed_one pre t : is_terminal t = true -> Forall nonterm pre -> closed_stream (pre ++ [t]).
Proof. intros H1 H2. exists pre, t. auto. Qed.

Lemma space_loop_ok f : forall l out, (rem l < f)%nat -> Forall nonterm out ->
  loop_ok l (space_loop is_space f l out) /\
  (is_space (l_nr l) = true -> consumed l (space_loop is_space f l out)).
Proof.
  induction f as [|f IH]; intros l out Hf Ho; [lia|].
  cbn [space_loop]. destruct (is_space (l_nr l)) eqn:Es.
  - set (out1 := if l_nr l =? 10 then out ++ [mkT tokNewline []] else out).
    assert (Ho1 : Forall nonterm out1).
    { unfold out1. destruct (l_nr l =? 10); [|exact Ho]. apply Forall_app. split; [exact Ho|]. constructor; [reflexivity|constructor]. }
    destruct (lnext_cases l) as [He | [He [E1 [E2 E3]]]];
      destruct (lnext l) as [[r eof] l'] eqn:En; cbn [fst snd] in *; subst eof.
    + split; [|intros _; exact I]. cbn. apply closed_one; [reflexivity|exact Ho1].
    + destruct (IH l' out1 ltac:(lia) Ho1) as [A _].
      destruct (space_loop is_space f l' out1) as [[sent nxt] l''].
      split.
      * unfold loop_ok in *. destruct nxt as [st|]; [|exact A]. destruct A as [A1 [A2 A3]]. split; [exact A1|]. split; [exact A2|lia].
      * intros _. unfold consumed. unfold loop_ok in A. destruct nxt as [st|]; [|exact I]. destruct A as [_ [_ A3]]. lia.
  - split; [|discriminate]. cbn. split; [reflexivity|]. split; [exact Ho|lia].
Qed.

Lemma text_loop_ok f : forall l buf, (rem l < f)%nat ->
  loop_ok l (text_loop is_letter is_digit f l buf) /\
  (text_char is_letter is_digit (l_nr l) = true -> consumed l (text_loop is_letter is_digit f l buf)).
Proof.
  induction f as [|f IH]; intros l buf Hf; [lia|].
  cbn [text_loop]. destruct (text_char is_letter is_digit (l_nr l)) eqn:Es.
  - destruct (lnext_cases l) as [He | [He [E1 [E2 E3]]]];
      destruct (lnext l) as [[r eof] l'] eqn:En; cbn [fst snd] in *; subst eof.
    + split; [|intros _; exact I]. cbn. apply (closed_one [mkT tokText (buf ++ [r])]); [reflexivity|].
      constructor; [reflexivity|constructor].
    + destruct (IH l' (buf ++ [r]) ltac:(lia)) as [A _].
      destruct (text_loop is_letter is_digit f l' (buf ++ [r])) as [[sent nxt] l''].
      split.
      * unfold loop_ok in *. destruct nxt as [st|]; [|exact A]. destruct A as [A1 [A2 A3]]. split; [exact A1|]. split; [exact A2|lia].
      * intros _. unfold consumed. unfold loop_ok in A. destruct nxt as [st|]; [|exact I]. destruct A as [_ [_ A3]]. lia.
  - split; [|discriminate]. cbn. split; [reflexivity|]. split; [|lia].
    destruct buf; [constructor|]. constructor; [reflexivity|constructor].
Qed.

Lemma digit_loop_ok f : forall l buf, (rem l < f)%nat ->
  loop_ok l (digit_loop is_digit f l buf) /\
  (is_digit (l_nr l) = true -> consumed l (digit_loop is_digit f l buf)).
Proof.
  induction f as [|f IH]; intros l buf Hf; [lia|].
  cbn [digit_loop]. destruct (is_digit (l_nr l)) eqn:Es.
  - destruct (lnext_cases l) as [He | [He [E1 [E2 E3]]]];
      destruct (lnext l) as [[r eof] l'] eqn:En; cbn [fst snd] in *; subst eof.
    + split; [|intros _; exact I]. cbn. apply (closed_one [mkT tokNumber (buf ++ [r])]); [reflexivity|].
      constructor; [reflexivity|constructor].
    + destruct (IH l' (buf ++ [r]) ltac:(lia)) as [A _].
      destruct (digit_loop is_digit f l' (buf ++ [r])) as [[sent nxt] l''].
      split.
      * unfold loop_ok in *. destruct nxt as [st|]; [|exact A]. destruct A as [A1 [A2 A3]]. split; [exact A1|]. split; [exact A2|lia].
      * intros _. unfold consumed. unfold loop_ok in A. destruct nxt as [st|]; [|exact I]. destruct A as [_ [_ A3]]. lia.
  - split; [|discriminate]. cbn. split; [reflexivity|]. split; [|lia]. constructor; [reflexivity|constructor].
Qed.

Lemma comment_loop_ok f : forall l buf, (rem l < f)%nat ->
  loop_ok l (comment_loop f l buf) /\
  ((l_nr l =? 10) = false -> consumed l (comment_loop f l buf)).
Proof.
  induction f as [|f IH]; intros l buf Hf; [lia|].
  cbn [comment_loop]. destruct (l_nr l =? 10) eqn:Es.
  - split; [|discriminate]. cbn. split; [reflexivity|]. split; [|lia]. constructor; [reflexivity|constructor].
  - destruct (lnext_cases l) as [He | [He [E1 [E2 E3]]]];
      destruct (lnext l) as [[r eof] l'] eqn:En; cbn [fst snd] in *; subst eof.
    + split; [|intros _; exact I]. cbn. apply (closed_one [mkT tokComment (buf ++ [l_nr l])]); [reflexivity|].
      constructor; [reflexivity|constructor].
    + destruct (IH l' (buf ++ [l_nr l]) ltac:(lia)) as [A _].
      destruct (comment_loop f l' (buf ++ [l_nr l])) as [[sent nxt] l''].
      split.
      * unfold loop_ok in *. destruct nxt as [st|]; [|exact A]. destruct A as [A1 [A2 A3]]. split; [exact A1|]. split; [exact A2|lia].
      * intros _. unfold consumed. unfold loop_ok in A. destruct nxt as [st|]; [|exact I]. destruct A as [_ [_ A3]]. lia.
Qed.

Lemma zero_loop_ok f : forall l, (rem l < f)%nat ->
  match zero_loop f l with
  | None => True
  | Some l' => (rem l' <= rem l)%nat /\ ((l_nr l =? 48) = true -> (rem l' < rem l)%nat) /\
               ((l_nr l =? 48) = false -> l' = l)
  end.
Proof.
  induction f as [|f IH]; intros l Hf; [lia|].
  cbn [zero_loop]. destruct (l_nr l =? 48) eqn:Es.
  - destruct (lnext_cases l) as [He | [He [E1 [E2 E3]]]];
      destruct (lnext l) as [[r eof] l'] eqn:En; cbn [fst snd] in *; subst eof; [exact I|].
    specialize (IH l' ltac:(lia)). destruct (zero_loop f l') as [l''|]; [|exact I].
    destruct IH as [A _]. split; [lia|]. split; [intros _; lia|discriminate].
  - split; [lia|]. split; [discriminate|reflexivity].
Qed.

Definition weight (st : lstate) : nat :=
  match st with LInput => 1 | LText | LNumber | LComment => 0 | _ => 2 end%nat.
Definition mu (st : lstate) (l : lexer) : nat := (2 * rem l + weight st)%nat.
Definition inv (st : lstate) (l : lexer) : Prop :=
  match st with
  | LText => text_char is_letter is_digit (l_nr l) = true
  | LNumber => is_digit (l_nr l) = true
  | LComment => (l_nr l =? 10) = false
  | _ => True
  end.
Definition step_ok (st : lstate) (l : lexer) (res : list token * option lstate * lexer) : Prop :=
  let '(sent, nxt, l') := res in
  match nxt with
  | None => closed_stream sent
  | Some st' => Forall nonterm sent /\ (mu st' l' < mu st l)%nat /\ inv st' l'
  end.

Lemma rem_bound l : (rem l < S (S (length (l_inp l))))%nat.
Proof. unfold rem. destruct (l_eof l); lia. Qed.

Lemma consume_ok st l nxt : (weight nxt <= 2)%nat -> (1 <= weight st)%nat -> inv nxt (snd (lnext l)) ->
  step_ok st l (consume l nxt).
Proof.
  intros Hw Hs Hi. unfold consume.
  destruct (lnext_cases l) as [He | [He [E1 [E2 E3]]]];
    destruct (lnext l) as [[r eof] l'] eqn:En; cbn [fst snd] in *; subst eof.
  - cbn. apply (closed_one []); [reflexivity|constructor].
  - cbn. split; [constructor|]. split; [unfold mu; lia|exact Hi].
Qed.
Lemma emit_consume_ok st l t : nonterm t -> (1 <= weight st)%nat ->
  step_ok st l (emit_consume l t LInput).
Proof.
  intros Ht Hs. unfold emit_consume.
  destruct (lnext_cases l) as [He | [He [E1 [E2 E3]]]];
    destruct (lnext l) as [[r eof] l'] eqn:En; cbn [fst snd] in *; subst eof.
  - cbn. apply (closed_one [t]); [reflexivity|]. constructor; [exact Ht|constructor].
  - cbn. split; [constructor; [exact Ht|constructor]|]. split; [unfold mu; cbn [weight]; lia|exact I].
Qed.

Lemma loop_step st l res : loop_ok l res -> consumed l res -> step_ok st l res.
Proof.
  destruct res as [[sent nxt] l']. unfold loop_ok, consumed, step_ok. destruct nxt as [st'|]; [|auto].
  intros [-> [A B]] C. split; [exact A|]. split; [unfold mu; cbn [weight]; lia|exact I].
Qed.

Lemma lex_step_ok st l : inv st l -> step_ok st l (lex_step is_space is_letter is_digit st l).
Proof.
  intros Hi. pose proof (rem_bound l) as Hb.
  destruct st; cbn [lex_step].
  - (* lexInput *)
    destruct (is_space (l_nr l)) eqn:E1.
    { destruct (space_loop_ok _ l [] Hb ltac:(constructor)) as [A B]. apply loop_step; [exact A|apply B; exact E1]. }
    destruct (is_letter (l_nr l) || (l_nr l =? 95)) eqn:E2.
    { cbn. split; [constructor|]. split; [unfold mu; cbn [weight]; lia|].
      cbn [inv]. unfold text_char. apply orb_prop in E2. destruct E2 as [-> | ->]; [reflexivity|]. apply orb_true_r. }
    destruct (is_digit (l_nr l)) eqn:E3.
    { cbn. split; [constructor|]. split; [unfold mu; cbn [weight]; lia|exact E3]. }
    destruct (l_nr l =? 0) eqn:E4.
    { cbn. apply (closed_one []); [reflexivity|constructor]. }
    destruct (l_nr l =? 59) eqn:E5.
    { cbn. split; [constructor|]. split; [unfold mu; cbn [weight]; lia|].
      cbn [inv]. apply N.eqb_eq in E5. rewrite E5. reflexivity. }
    repeat match goal with
           | |- step_ok _ _ (if ?c then _ else _) => destruct c
           end;
      try (apply emit_consume_ok; [reflexivity|cbn; lia]);
      try (apply consume_ok; [cbn; lia|cbn; lia|exact I]).
    cbn. apply (closed_one [mkT tokInvalid [l_nr l]]); [reflexivity|]. constructor; [reflexivity|constructor].
  - destruct (text_loop_ok _ l [] Hb) as [A B]. apply loop_step; [exact A|apply B; exact Hi].
  - pose proof (zero_loop_ok _ l Hb) as Z. destruct (zero_loop (S (S (length (l_inp l)))) l) as [l1|].
    + destruct Z as [Z1 [Z2 Z3]].
      destruct (digit_loop_ok (S (S (length (l_inp l)))) l1 [] ltac:(lia)) as [A B].
      destruct (l_nr l =? 48) eqn:E.
      * specialize (Z2 eq_refl).
        destruct (digit_loop is_digit (S (S (length (l_inp l)))) l1 []) as [[sent nxt] l'].
        unfold loop_ok in A. unfold step_ok. destruct nxt as [st'|]; [|exact A].
        destruct A as [-> [A1 A2]]. split; [exact A1|]. split; [unfold mu; cbn [weight]; lia|exact I].
      * rewrite (Z3 eq_refl) in *. apply loop_step; [exact A|apply B; exact Hi].
    + cbn. apply (closed_one [mkT tokNumber [48]]); [reflexivity|]. constructor; [reflexivity|constructor].
  - destruct (comment_loop_ok _ l [] Hb) as [A B]. apply loop_step; [exact A|apply B; exact Hi].
  - destruct (l_nr l =? 61); [apply emit_consume_ok; [reflexivity|cbn; lia]|]. cbn. apply (closed_one []); [reflexivity|constructor].
  - destruct (l_nr l =? 124); [apply emit_consume_ok; [reflexivity|cbn; lia]|]. cbn. apply (closed_one []); [reflexivity|constructor].
  - destruct (l_nr l =? 38); [apply emit_consume_ok; [reflexivity|cbn; lia]|]. cbn. apply (closed_one []); [reflexivity|constructor].
  - destruct (l_nr l =? 61); [apply emit_consume_ok; [reflexivity|cbn; lia]|].
    cbn. split; [constructor; [reflexivity|constructor]|]. split; [unfold mu; cbn [weight]; lia|exact I].
  - destruct (l_nr l =? 61); [apply emit_consume_ok; [reflexivity|cbn; lia]|].
    cbn. split; [constructor; [reflexivity|constructor]|]. split; [unfold mu; cbn [weight]; lia|exact I].
Qed.

Lemma lex_run_ok f : forall st l out, (mu st l < f)%nat -> inv st l -> Forall nonterm out ->
  exists s, lex_run is_space is_letter is_digit f st l out = Some s /\ closed_stream s.
Proof.
  induction f as [|f IH]; intros st l out Hf Hi Ho; [lia|].
  cbn [lex_run]. pose proof (lex_step_ok st l Hi) as S.
  destruct (lex_step is_space is_letter is_digit st l) as [[sent nxt] l']. unfold step_ok in S.
  destruct nxt as [st'|].
  - destruct S as [S1 [S2 S3]]. apply IH; [lia|exact S3|]. apply Forall_app. split; assumption.
  - exists (out ++ sent). split; [reflexivity|]. destruct S as [pre [t [-> [T1 T2]]]].
    exists (out ++ pre), t. rewrite app_assoc. split; [reflexivity|]. split; [exact T1|]. apply Forall_app. split; assumption.
Qed.

Theorem lex_sends_closed inp :
  exists s, lex_sends is_space is_letter is_digit inp = Some s /\ closed_stream s.
Proof.
  unfold lex_sends. apply lex_run_ok; [|exact I|constructor].
  unfold lex_init, lnext, mu, rem. cbn [l_eof l_inp snd weight]. destruct inp as [|r t]; cbn [length l_eof l_inp snd]; lia.
Qed.
End Lex.

(* what Tokens() hands to the next stage is all of it: nothing sent is left unreceived *)
Lemma recv_closed s : closed_stream s -> recv_until_terminal s = s.
Proof.
  intros [pre [t [-> [T1 T2]]]]. induction T2 as [|x pre Hx _ IH].
  - cbn. unfold is_terminal in T1. destruct (t_typ t); try discriminate T1; reflexivity.
  - cbn [app recv_until_terminal]. unfold nonterm, is_terminal in Hx. destruct (t_typ x); try discriminate Hx; rewrite IH; reflexivity.
Qed.

Theorem lex_ascii_total inp : exists s, lex_ascii inp = Some s /\ closed_stream s.
Proof.
  unfold lex_ascii. destruct (lex_sends_closed is_space_a is_letter_a is_digit_a inp) as [s [E C]].
  rewrite E. exists s. rewrite recv_closed by exact C. auto.
Qed.
