(* C07Signs.v — combineSigns and flipDoubleNegatives (expr.go) on the tokens of a
   printed expression: what reaches the evaluator is again a printed expression,
   with the same value, and never contains "++" or "--". *)
From GM Require Import ExprSpec C07Parser.
From Coq Require Import Lia.
Open Scope Z_scope.

Definition is_minus (t : etok) : bool := match t with EOp OSub => true | _ => false end.
Definition is_plus (t : etok) : bool := match t with EOp OAdd => true | _ => false end.
Definition is_opt (t : etok) : bool := match t with EOp _ => true | _ => false end.

(* ---------- combineSigns as a state machine over the tokens ---------- *)
Inductive cst := NotSym | After (neg : bool).
Definition cst_of (t : etok) : cst := if is_opt t then After false else NotSym.
Fixpoint sm (st : cst) (l : list etok) : list etok :=
  match l with
  | [] => match st with After true => [EOp OSub] | _ => [] end
  | t :: r =>
    match st with
    | NotSym => t :: sm (cst_of t) r
    | After neg =>
      if is_minus t then sm (After (negb neg)) r
      else if is_plus t then sm (After neg) r
      else (if neg then [EOp OSub] else []) ++ t :: sm (cst_of t) r
    end
  end.

(* ---------- flipDoubleNegatives ---------- *)
Fixpoint flip_nf (l : list etok) : list etok :=
  match l with
  | [] => []
  | a :: t => match t with
              | [] => l
              | b :: r => if is_minus a && is_minus b then EOp OAdd :: flip_nf r else a :: flip_nf t
              end
  end.

(* ---------- the same two steps on syntax trees ---------- *)
Definition wrap (neg : bool) (e : expr) : expr := if neg then Sgn true e else e.
Fixpoint N1f (e : expr) : expr :=
  match e with
  | Lit n => Lit n
  | Par e => Par (N1f e)
  | Sgn m e => Sgn m (N1t false e)
  | Bin o a b => Bin o (N1f a) (N1t false b)
  end
with N1t (neg : bool) (e : expr) : expr :=
  match e with
  | Lit n => wrap neg (Lit n)
  | Par e => wrap neg (Par (N1f e))
  | Sgn m e => N1t (xorb neg m) e
  | Bin o a b => Bin o (N1t neg a) (N1t false b)
  end.

Lemma sm_print e :
  (forall rest, sm NotSym (print e ++ rest) = print (N1f e) ++ sm NotSym rest) /\
  (forall neg rest, sm (After neg) (print e ++ rest) = print (N1t neg e) ++ sm NotSym rest).
Proof.
  induction e as [n|e [IHf IHt]|m e [IHf IHt]|o a [IHaf IHat] b [IHbf IHbt]].
  - split; [reflexivity|]. intros [|] rest; reflexivity.
  - split.
    + intros rest. cbn [print N1f app sm cst_of is_opt]. rewrite <- app_assoc. rewrite IHf. cbn [app sm cst_of is_opt].
      rewrite <- app_assoc. reflexivity.
    + intros neg rest. cbn [print N1t app sm is_minus is_plus cst_of is_opt]. rewrite <- app_assoc. rewrite IHf.
      cbn [app sm cst_of is_opt]. destruct neg; cbn [wrap print app]; rewrite <- app_assoc; reflexivity.
  - split.
    + intros rest. cbn [print N1f app sm]. destruct m; cbn [cst_of is_opt]; rewrite IHt; reflexivity.
    + intros neg rest. cbn [print N1t app sm]. destruct m; cbn [is_minus is_plus]; rewrite IHt; destruct neg; reflexivity.
  - split.
    + intros rest. cbn [print N1f]. rewrite <- !app_assoc. rewrite IHaf. cbn [app sm cst_of is_opt]. rewrite IHbt. reflexivity.
    + intros neg rest. cbn [print N1t]. rewrite <- !app_assoc. rewrite IHat. cbn [app sm cst_of is_opt]. rewrite IHbt. reflexivity.
Qed.

Definition vsign (neg : bool) (v : val) : val := if neg then vneg v else v.
Lemma vneg_invol v : vneg (vneg v) = v.
Proof. destruct v as [x|]; cbn; [f_equal; lia|reflexivity]. Qed.
Lemma denote_sgn m e : denote (Sgn m e) = vsign m (denote e).
Proof. cbn [denote]. destruct (denote e), m; reflexivity. Qed.
Lemma vsign_xorb a b v : vsign (xorb a b) v = vsign a (vsign b v).
Proof. destruct a, b; cbn [xorb vsign]; rewrite ?vneg_invol; reflexivity. Qed.

Lemma level_bin_lt o : (prec o < 6)%nat.
Proof. destruct o; cbn; lia. Qed.

Lemma N1_ok e : ok e ->
  (ok (N1f e) /\ level (N1f e) = level e /\ denote (N1f e) = denote e) /\
  (forall neg, (neg = true -> (6 <= level e)%nat) ->
     ok (N1t neg e) /\ level (N1t neg e) = level e /\ denote (N1t neg e) = vsign neg (denote e)).
Proof.
  induction e as [n|e IH|m e IH|o a IHa b IHb]; intros Hok.
  - split; [auto|]. intros [|] _; cbn; auto.
  - cbn [ok] in Hok. destruct (IH Hok) as [[F1 [F2 F3]] _]. split.
    + cbn [N1f ok level denote]. auto.
    + intros [|] _; cbn [N1t wrap ok level denote]; rewrite F3.
      * split; [split; [exact F1|cbn; lia]|]. split; [reflexivity|]. destruct (denote e); reflexivity.
      * auto.
  - cbn [ok] in Hok. destruct Hok as [Hok Hl]. destruct (IH Hok) as [_ T]. split.
    + destruct (T false ltac:(discriminate)) as [T1 [T2 T3]].
      cbn [N1f ok level]. rewrite T2. split; [split; assumption|]. split; [reflexivity|].
      rewrite !denote_sgn, T3. reflexivity.
    + intros neg _. destruct (T (xorb neg m) (fun _ => Hl)) as [T1 [T2 T3]].
      cbn [N1t level]. split; [exact T1|]. split; [rewrite T2; destruct e; cbn in *; try lia; pose proof (level_bin_lt o); lia|].
      rewrite T3, denote_sgn. apply vsign_xorb.
  - cbn [ok] in Hok. destruct Hok as (Ha & Hb & La & Lb).
    destruct (IHa Ha) as [[A1 [A2 A3]] AT]. destruct (IHb Hb) as [_ BT].
    destruct (BT false ltac:(discriminate)) as [B1 [B2 B3]]. cbn [vsign] in B3.
    split.
    + cbn [N1f ok level denote]. rewrite A2, B2, A3, B3. auto.
    + intros neg Hn. assert (neg = false) as ->.
      { destruct neg; [|reflexivity]. specialize (Hn eq_refl). cbn [level] in Hn. pose proof (level_bin_lt o). lia. }
      destruct (AT false ltac:(discriminate)) as [C1 [C2 C3]]. cbn [vsign] in C3.
      cbn [N1t ok level denote vsign]. rewrite C2, B2, C3, B3. auto.
Qed.

(* ---------- stage 2: "- -" becomes "+" ---------- *)
Fixpoint starts_neg (e : expr) : bool :=
  match e with
  | Sgn true _ => true
  | Bin _ a _ => starts_neg a
  | _ => false
  end.
Definition rop (o : bop) (b : expr) : bop := match o with OSub => if starts_neg b then OAdd else OSub | _ => o end.
Definition rdrop (o : bop) (b : expr) : bool := match o with OSub => starts_neg b | _ => false end.

Fixpoint N2f (e : expr) : expr :=
  match e with
  | Lit n => Lit n
  | Par e => Par (N2f e)
  | Sgn true e => if starts_neg e then Sgn false (N2t e) else Sgn true (N2f e)
  | Sgn false e => Sgn false (N2f e)
  | Bin o a b => Bin (rop o b) (N2f a) (if rdrop o b then N2t b else N2f b)
  end
with N2t (e : expr) : expr :=        (* the leading '-' of e has been paired away *)
  match e with
  | Sgn true x => N2f x
  | Bin o a b => Bin (rop o b) (N2t a) (if rdrop o b then N2t b else N2f b)
  | _ => e
  end.

Lemma flip_nonminus a l : is_minus a = false -> flip_nf (a :: l) = a :: flip_nf l.
Proof. intros H. cbn [flip_nf]. destruct l as [|b r]; [reflexivity|]. rewrite H. reflexivity. Qed.
Lemma flip_minus_minus r : flip_nf (EOp OSub :: EOp OSub :: r) = EOp OAdd :: flip_nf r.
Proof. reflexivity. Qed.
Lemma flip_minus_other b r : is_minus b = false -> flip_nf (EOp OSub :: b :: r) = EOp OSub :: flip_nf (b :: r).
Proof. intros H. cbn [flip_nf is_minus andb]. rewrite H. reflexivity. Qed.

Lemma print_head e : exists h t, print e = h :: t /\ is_minus h = starts_neg e.
Proof.
  induction e as [n|e IH|m e IH|o a IHa b IHb].
  - eexists _, _. split; reflexivity.
  - eexists _, _. split; reflexivity.
  - destruct m; eexists _, _; split; reflexivity.
  - destruct IHa as [h [t [E1 E2]]]. exists h, (t ++ EOp o :: print b). cbn [print starts_neg]. rewrite E1. split; [reflexivity|exact E2].
Qed.

Lemma flip_print e :
  (forall rest, flip_nf (print e ++ rest) = print (N2f e) ++ flip_nf rest) /\
  (starts_neg e = true -> forall rest, flip_nf (tl (print e) ++ rest) = print (N2t e) ++ flip_nf rest).
Proof.
  induction e as [n|e [IHf IHt]|m e [IHf IHt]|o a [IHaf IHat] b [IHbf IHbt]].
  - split; [|discriminate]. intros rest. cbn [print app N2f]. apply flip_nonminus. reflexivity.
  - split; [|discriminate]. intros rest. cbn [print app N2f]. rewrite flip_nonminus by reflexivity.
    rewrite <- app_assoc, IHf. cbn [app]. rewrite flip_nonminus by reflexivity. rewrite <- app_assoc. reflexivity.
  - destruct m.
    + split.
      * intros rest. cbn [print app N2f]. destruct (print_head e) as [h [t [E1 E2]]].
        destruct (starts_neg e) eqn:Es.
        -- specialize (IHt eq_refl rest). rewrite E1 in *. cbn [tl] in IHt. cbn [app].
           destruct h as [k|[]| |]; try discriminate E2. rewrite flip_minus_minus. cbn [print app]. rewrite IHt. reflexivity.
        -- cbn [print app]. rewrite <- IHf. rewrite E1. cbn [app]. rewrite flip_minus_other by exact E2. reflexivity.
      * intros _ rest. cbn [print tl N2t]. apply IHf.
    + split; [|discriminate]. intros rest. cbn [print app N2f]. rewrite flip_nonminus by reflexivity. rewrite IHf. reflexivity.
  - assert (R : forall rest, flip_nf (EOp o :: print b ++ rest) =
                             EOp (rop o b) :: print (if rdrop o b then N2t b else N2f b) ++ flip_nf rest).
    { intros rest. destruct (print_head b) as [h [t [E1 E2]]].
      destruct o; cbn [rop rdrop]; try (rewrite flip_nonminus by reflexivity; rewrite IHbf; reflexivity).
      destruct (starts_neg b) eqn:Es.
      - specialize (IHbt eq_refl rest). rewrite E1 in *. cbn [tl] in IHbt. cbn [app].
        destruct h as [k|[]| |]; try discriminate E2. rewrite flip_minus_minus. rewrite IHbt. reflexivity.
      - rewrite <- IHbf. rewrite E1. cbn [app]. rewrite flip_minus_other by exact E2. reflexivity. }
    split.
    + intros rest. cbn [print N2f]. rewrite <- !app_assoc. rewrite IHaf. cbn [app]. rewrite R. reflexivity.
    + intros Hs rest. cbn [starts_neg] in Hs. cbn [print N2t].
      destruct (print_head a) as [h [t [E1 E2]]]. specialize (IHat Hs). rewrite E1 in *. cbn [app tl] in *.
      rewrite <- !app_assoc. rewrite IHat. cbn [app]. rewrite R. reflexivity.
Qed.

Lemma denote_bin o a b : denote (Bin o a b) = vapply o (denote a) (denote b).
Proof. cbn [denote]. unfold vapply. destruct (denote a), (denote b); reflexivity. Qed.
Lemma level_le6 e : (level e <= 6)%nat.
Proof. destruct e; cbn; try lia. pose proof (level_bin_lt o). lia. Qed.
Lemma vapply_sub_neg x y : vapply OAdd x (vneg y) = vapply OSub x y.
Proof. destruct x, y; cbn; reflexivity. Qed.
Lemma vapply_neg_l o x y : prec o = 5%nat -> vapply o (vneg x) y = vneg (vapply o x y).
Proof.
  intros Hp. destruct o; try discriminate Hp; destruct x as [a|], y as [b|]; cbn; try reflexivity.
  - f_equal. lia.
  - destruct (Z.eqb_spec b 0); [reflexivity|]. cbn [vneg]. f_equal. apply Z.quot_opp_l. assumption.
  - destruct (Z.eqb_spec b 0); [reflexivity|]. cbn [vneg]. f_equal. apply Z.rem_opp_l. assumption.
Qed.

Lemma N2_ok e : ok e ->
  (ok (N2f e) /\ level (N2f e) = level e /\ denote (N2f e) = denote e) /\
  (starts_neg e = true -> (5 <= level e)%nat ->
     ok (N2t e) /\ level (N2t e) = level e /\ denote (N2t e) = vneg (denote e)).
Proof.
  induction e as [n|e IH|m e IH|o a IHa b IHb]; intros Hok.
  - split; [auto|discriminate].
  - cbn [ok] in Hok. destruct (IH Hok) as [[F1 [F2 F3]] _]. split; [|discriminate].
    cbn [N2f ok level denote]. auto.
  - cbn [ok] in Hok. destruct Hok as [Hok Hl]. destruct (IH Hok) as [[F1 [F2 F3]] T].
    assert (L6 : level e = 6%nat) by (pose proof (level_le6 e); lia).
    destruct m.
    + split.
      * cbn [N2f]. destruct (starts_neg e) eqn:Es.
        -- destruct (T eq_refl ltac:(lia)) as [T1 [T2 T3]].
           cbn [ok level]. rewrite T2. split; [split; [exact T1|lia]|]. split; [reflexivity|].
           rewrite !denote_sgn, T3. reflexivity.
        -- cbn [ok level]. rewrite F2. split; [split; [exact F1|lia]|]. split; [reflexivity|].
           rewrite !denote_sgn, F3. reflexivity.
      * intros _ _. cbn [N2t level]. split; [exact F1|]. split; [lia|].
        rewrite F3, denote_sgn. cbn [vsign]. rewrite vneg_invol. reflexivity.
    + split; [|discriminate]. cbn [N2f ok level]. rewrite F2. split; [split; [exact F1|lia]|]. split; [reflexivity|].
      rewrite !denote_sgn, F3. reflexivity.
  - cbn [ok] in Hok. destruct Hok as (Ha & Hb & La & Lb).
    destruct (IHa Ha) as [[A1 [A2 A3]] AT]. destruct (IHb Hb) as [[B1 [B2 B3]] BT].
    set (b' := if rdrop o b then N2t b else N2f b).
    assert (R : ok b' /\ level b' = level b /\ prec (rop o b) = prec o /\
                forall x, vapply (rop o b) x (denote b') = vapply o x (denote b)).
    { unfold b'. destruct o; cbn [rop rdrop]; try (rewrite B3; auto).
      destruct (starts_neg b) eqn:Es; [|rewrite B3; auto].
      destruct (BT eq_refl ltac:(cbn in Lb; lia)) as [T1 [T2 T3]].
      split; [exact T1|]. split; [exact T2|]. split; [reflexivity|]. intros x. rewrite T3. apply vapply_sub_neg. }
    destruct R as [R1 [R2 [R3 R4]]].
    split.
    + cbn [N2f]. fold b'. cbn [ok level]. rewrite A2, R2, R3. split; [auto|]. split; [reflexivity|].
      rewrite !denote_bin, A3. apply R4.
    + intros Hs H5. cbn [starts_neg] in Hs. cbn [level] in H5.
      assert (P5 : prec o = 5%nat) by (destruct o; cbn in *; lia).
      destruct (AT Hs ltac:(lia)) as [T1 [T2 T3]].
      cbn [N2t]. fold b'. cbn [ok level]. rewrite T2, R2, R3. split; [auto|]. split; [reflexivity|].
      rewrite !denote_bin, T3. rewrite <- (R4 (denote a)). apply vapply_neg_l. rewrite R3. exact P5.
Qed.

(* ---------- shapes: what stage 1 produces, and why stage 2 leaves no "++" / "--" ---------- *)
Fixpoint sgn_head (e : expr) : option bool :=
  match e with Sgn m _ => Some m | Bin _ a _ => sgn_head a | _ => None end.
Definition ob_eqb (a b : option bool) : bool :=
  match a, b with Some x, Some y => Bool.eqb x y | None, None => true | _, _ => false end.
Lemma starts_neg_head e : starts_neg e = ob_eqb (sgn_head e) (Some true).
Proof. induction e as [n|e IH|[|] e IH|o a IHa b IHb]; cbn; auto. Qed.

Definition is_atom (e : expr) : bool := match e with Lit _ | Par _ => true | _ => false end.
Definition nonbin (e : expr) : bool := match e with Bin _ _ _ => false | _ => true end.
Fixpoint formS (e : expr) : bool :=
  match e with
  | Lit _ => true
  | Par e => formS e
  | Sgn _ e => nonbin e && formA e
  | Bin _ a b => formS a && formA b
  end
with formA (e : expr) : bool :=
  match e with
  | Lit _ => true
  | Par e => formS e
  | Sgn m e => m && is_atom e && formA e
  | Bin _ a b => formA a && formA b
  end.

Lemma nonbin_level e : (6 <= level e)%nat -> nonbin e = true.
Proof. destruct e; cbn; try reflexivity. pose proof (level_bin_lt o). lia. Qed.

Lemma N1_form e : ok e ->
  formS (N1f e) = true /\ (forall neg, (neg = true -> (6 <= level e)%nat) -> formA (N1t neg e) = true).
Proof.
  induction e as [n|e IH|m e IH|o a IHa b IHb]; intros Hok.
  - split; [reflexivity|]. intros [|] _; reflexivity.
  - cbn [ok] in Hok. destruct (IH Hok) as [F _]. split; [exact F|].
    intros [|] _; cbn [N1t wrap formA is_atom andb]; exact F.
  - cbn [ok] in Hok. destruct Hok as [Hok Hl]. destruct (IH Hok) as [_ T]. split.
    + cbn [N1f formS]. rewrite (T false) by discriminate.
      destruct (N1_ok e Hok) as [_ X]. destruct (X false ltac:(discriminate)) as [_ [L _]].
      rewrite nonbin_level by lia. reflexivity.
    + intros neg _. cbn [N1t]. apply T. intros _. exact Hl.
  - cbn [ok] in Hok. destruct Hok as (Ha & Hb & La & Lb).
    destruct (IHa Ha) as [FA TA]. destruct (IHb Hb) as [_ TB]. split.
    + cbn [N1f formS]. rewrite FA, (TB false) by discriminate. reflexivity.
    + intros neg Hn. assert (neg = false) as ->.
      { destruct neg; [|reflexivity]. specialize (Hn eq_refl). cbn [level] in Hn. pose proof (level_bin_lt o). lia. }
      cbn [N1t formA]. rewrite (TA false), (TB false) by discriminate. reflexivity.
Qed.

(* no "++", no "--" in the printed tree *)
Definition op_clash (o : bop) (h : option bool) : bool :=
  match o, h with OAdd, Some false => true | OSub, Some true => true | _, _ => false end.
Fixpoint wfadj (e : expr) : bool :=
  match e with
  | Lit _ => true
  | Par e => wfadj e
  | Sgn m e => wfadj e && negb (ob_eqb (sgn_head e) (Some m))
  | Bin o a b => wfadj a && wfadj b && negb (op_clash o (sgn_head b))
  end.

Lemma N2_wf e :
  (formA e = true ->
     wfadj (N2f e) = true /\ sgn_head (N2f e) = sgn_head e /\ sgn_head e <> Some false /\
     (starts_neg e = true -> wfadj (N2t e) = true /\ sgn_head (N2t e) = None)) /\
  (formS e = true -> wfadj (N2f e) = true).
Proof.
  induction e as [n|e [IHA IHS]|m e [IHA IHS]|o a [IHaA IHaS] b [IHbA IHbS]].
  - split; [intros _|reflexivity]. split; [reflexivity|]. split; [reflexivity|]. split; [discriminate|discriminate].
  - split.
    + cbn [formA]. intros F. cbn [N2f wfadj sgn_head starts_neg]. split; [apply IHS; exact F|].
      split; [reflexivity|]. split; [discriminate|discriminate].
    + cbn [formS]. intros F. apply IHS. exact F.
  - split.
    + cbn [formA]. intros F. apply andb_prop in F. destruct F as [F F3]. apply andb_prop in F. destruct F as [-> F2].
      destruct (IHA F3) as [W [H1 [H2 _]]].
      assert (Hn : sgn_head e = None) by (destruct e; try discriminate F2; reflexivity).
      assert (Es : starts_neg e = false) by (rewrite starts_neg_head, Hn; reflexivity).
      cbn [N2f N2t]. rewrite Es. cbn [wfadj sgn_head]. rewrite W, H1, Hn. cbn.
      split; [reflexivity|]. split; [reflexivity|]. split; [discriminate|]. intros _. split; [first [exact W|reflexivity]|]. first [exact Hn|rewrite H1; exact Hn|reflexivity].
    + cbn [formS]. intros F. apply andb_prop in F. destruct F as [F1 F2].
      destruct (IHA F2) as [W [H1 [H2 T]]].
      destruct m.
      * cbn [N2f]. destruct (starts_neg e) eqn:Es.
        -- destruct (T eq_refl) as [W2 H3]. cbn [wfadj]. rewrite W2, H3. reflexivity.
        -- cbn [wfadj]. rewrite W, H1. rewrite starts_neg_head in Es. rewrite Es. reflexivity.
      * cbn [N2f wfadj]. rewrite W, H1. destruct (sgn_head e) as [[|]|]; try reflexivity. congruence.
  - assert (R : formA b = true ->
                wfadj (if rdrop o b then N2t b else N2f b) = true /\
                op_clash (rop o b) (sgn_head (if rdrop o b then N2t b else N2f b)) = false).
    { intros F. destruct (IHbA F) as [W [H1 [H2 T]]].
      destruct o; cbn [rop rdrop]; try (split; [exact W|]; rewrite H1).
      - destruct (sgn_head b) as [[|]|]; try reflexivity. congruence.
      - destruct (starts_neg b) eqn:Es.
        + destruct (T eq_refl) as [W2 H3]. rewrite H3. split; [exact W2|reflexivity].
        + rewrite H1. split; [exact W|]. rewrite starts_neg_head in Es. destruct (sgn_head b) as [[|]|]; try reflexivity. discriminate.
      - reflexivity.
      - reflexivity.
      - reflexivity. }
    split.
    + cbn [formA]. intros F. apply andb_prop in F. destruct F as [F1 F2].
      destruct (IHaA F1) as [W [H1 [H2 T]]]. destruct (R F2) as [R1 R2].
      cbn [N2f N2t wfadj sgn_head starts_neg]. rewrite W, R1, R2. split; [reflexivity|]. split; [exact H1|]. split; [exact H2|].
      intros Es. destruct (T Es) as [W2 H3]. rewrite W2. split; [reflexivity|exact H3].
    + cbn [formS]. intros F. apply andb_prop in F. destruct F as [F1 F2]. destruct (R F2) as [R1 R2].
      cbn [N2f wfadj]. rewrite (IHaS F1), R1, R2. reflexivity.
Qed.

(* ---------- both steps together ---------- *)
Definition signs_norm (e : expr) : expr := N2f (N1f e).
Theorem signs_tokens e : flip_nf (sm NotSym (print e)) = print (signs_norm e).
Proof.
  unfold signs_norm. rewrite <- (app_nil_r (print e)).
  rewrite (proj1 (sm_print e)). cbn [sm]. rewrite (proj1 (flip_print (N1f e))). cbn [flip_nf]. rewrite !app_nil_r. reflexivity.
Qed.
Theorem signs_norm_ok e : ok e ->
  ok (signs_norm e) /\ denote (signs_norm e) = denote e /\ wfadj (signs_norm e) = true.
Proof.
  intros Hok. unfold signs_norm.
  destruct (N1_ok e Hok) as [[A1 [A2 A3]] _].
  destruct (N2_ok (N1f e) A1) as [[B1 [B2 B3]] _].
  split; [exact B1|]. split; [rewrite B3; exact A3|].
  apply (proj2 (N2_wf (N1f e))). apply (proj1 (N1_form e Hok)).
Qed.
