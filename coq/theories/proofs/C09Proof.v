(* C09Proof.v — the canonical load-file text, under every layout style, reads back
   through the load-file reader (load.go) to the warrior it was printed from. *)
From GM Require Import Base Text Token Compile Load Meaning Render LoadPrint AsmSpec C06Proof C10Proof C16Proof.
From Coq Require Import Lia ZifyN ZifyNat ZifyBool.
Ltac Zify.zify_post_hook ::= Z.div_mod_to_equations.
Open Scope N_scope.

(* ---------- characters that lower-casing, comment stripping and comma replacement leave alone ---------- *)
Definition stable_c (c : N) : Prop := lower_c c = c /\ c <> 59 /\ c <> 44.
Definition stable (x : text) : Prop := Forall stable_c x.
Definition spc (c : N) : Prop := c = 32 \/ c = 9 \/ c = 13.
Definition blankt (x : text) : Prop := Forall spc x.

Lemma spc_stable c : spc c -> stable_c c.
Proof. intros [-> | [-> | ->]]; repeat split; discriminate. Qed.
Lemma blank_stable x : blankt x -> stable x.
Proof. intros H. eapply Forall_impl; [|exact H]. apply spc_stable. Qed.
Lemma stable_app x y : stable x -> stable y -> stable (x ++ y).
Proof. intros; apply Forall_app; split; assumption. Qed.

Lemma lower_app x y : lower (x ++ y) = lower x ++ lower y.
Proof. apply map_app. Qed.
Lemma lower_stable x : stable x -> lower x = x.
Proof. intros H. induction H as [|c x [Hc _] _ IH]; [reflexivity|]. cbn [lower map]. fold (lower x). rewrite Hc, IH. reflexivity. Qed.
Lemma bs_step c r : c <> 59 -> before_semicolon (c :: r) = c :: before_semicolon r.
Proof.
  intros H. destruct c as [|p]; [reflexivity|].
  do 6 (destruct p as [p|p|]; try reflexivity). congruence.
Qed.
Lemma bs_stable x y : stable x -> before_semicolon (x ++ y) = x ++ before_semicolon y.
Proof.
  intros H. induction H as [|c x [_ [Hc _]] _ IH]; [reflexivity|].
  cbn [app]. rewrite bs_step by exact Hc. rewrite IH. reflexivity.
Qed.
Lemma bs_single c y : c <> 59 -> before_semicolon ([c] ++ y) = [c] ++ before_semicolon y.
Proof. intros H. cbn [app]. apply bs_step. exact H. Qed.
Lemma bs_stable_end x : stable x -> before_semicolon x = x.
Proof. intros H. rewrite <- (app_nil_r x) at 1. rewrite bs_stable by exact H. cbn. apply app_nil_r. Qed.
Lemma c2s_app x y : commas_to_spaces (x ++ y) = commas_to_spaces x ++ commas_to_spaces y.
Proof. apply map_app. Qed.
Lemma c2s_stable x : stable x -> commas_to_spaces x = x.
Proof.
  intros H. induction H as [|c x [_ [_ Hc]] _ IH]; [reflexivity|].
  cbn [commas_to_spaces map]. fold (commas_to_spaces x). rewrite IH.
  destruct (N.eqb_spec c 44); [congruence|reflexivity].
Qed.

(* ---------- layout pieces ---------- *)
Lemma gap_blank s k : blankt (gap s k) /\ gap s k <> [].
Proof.
  unfold gap. destruct (pick s k 4) as [|[p|[p|p|]|]]; split; try discriminate;
    repeat (constructor; [unfold spc; auto|]); constructor.
Qed.
Lemma optgap_blank s k : blankt (optgap s k).
Proof.
  unfold optgap. destruct (pick s k 3) as [|[p|[p|p|]|]]; repeat (constructor; [unfold spc; auto|]); constructor.
Qed.
Lemma eol_blank s k : exists x, eol s k = x ++ [10] /\ blankt x.
Proof.
  unfold eol. destruct (pick s k 4 =? 0).
  - exists [13]. split; [reflexivity|]. constructor; [unfold spc; auto|constructor].
  - exists []. split; [reflexivity|constructor].
Qed.

Lemma lower_c_idem c : lower_c (lower_c c) = lower_c c.
Proof. unfold lower_c, is_upper_a. destruct ((65 <=? c) && (c <=? 90)) eqn:E; [|rewrite E; reflexivity].
  destruct ((65 <=? c + 32) && (c + 32 <=? 90)) eqn:E2; [lia|reflexivity]. Qed.
Lemma lower_idem t : lower (lower t) = lower t.
Proof. unfold lower. rewrite map_map. apply map_ext. apply lower_c_idem. Qed.
Lemma lower_recase s k t : lower (recase s k t) = lower t.
Proof.
  unfold recase. destruct (pick s k 3) as [|[p|p|]]; [apply lower_idem| | |reflexivity].
  all: assert (G : forall t j acc,
      lower (snd (fold_left (fun (st : N * text) c => let '(j, acc) := st in
               (j + 1, acc ++ [if pick s (k + j) 2 =? 0 then lower_c c else c])) t (j, acc))) = lower acc ++ lower t)
    by (clear; induction t as [|c t IH]; intros j acc; cbn [fold_left snd];
        [rewrite app_nil_r; reflexivity|
         rewrite IH, lower_app, <- app_assoc; cbn [lower map app]; f_equal; f_equal;
         destruct (pick s (k + j) 2 =? 0); [apply lower_c_idem|reflexivity]]).
  all: apply (G t 0 []).
Qed.

(* ---------- strings.Fields on a line in chunk form ---------- *)
Definition nsp (w : text) : Prop := Forall (fun c => is_space_a c = false) w.
Definition spcs (x : text) : Prop := Forall (fun c => is_space_a c = true) x.

Lemma fields_run w : forall r cur, nsp w -> fields_go (w ++ r) cur = fields_go r (cur ++ w).
Proof.
  induction w as [|c w IH]; intros r cur H; [rewrite app_nil_r; reflexivity|].
  inversion H as [|c' w' Hc Hw]; subst. cbn [app fields_go]. rewrite Hc.
  rewrite IH by exact Hw. rewrite <- app_assoc. reflexivity.
Qed.
Lemma fields_spcs x : forall r, spcs x -> fields_go (x ++ r) [] = fields_go r [].
Proof.
  induction x as [|c x IH]; intros r H; [reflexivity|].
  inversion H as [|c' x' Hc Hx]; subst. cbn [app fields_go]. rewrite Hc. apply IH. exact Hx.
Qed.
Lemma fields_tok w x r : nsp w -> w <> [] -> spcs x -> x <> [] ->
  fields_go (w ++ x ++ r) [] = w :: fields_go r [].
Proof.
  intros Hw Hne Hx Hxne. rewrite fields_run by exact Hw. cbn [app].
  destruct x as [|c x]; [congruence|]. inversion Hx as [|c' x' Hc Hx']; subst.
  cbn [app fields_go]. rewrite Hc. destruct w as [|y w]; [congruence|]. f_equal. apply fields_spcs. exact Hx'.
Qed.
Lemma fields_last w x : nsp w -> w <> [] -> spcs x -> fields_go (w ++ x) [] = [w].
Proof.
  intros Hw Hne Hx. destruct x as [|c x].
  - rewrite app_nil_r. rewrite <- (app_nil_r w) at 1. rewrite fields_run by exact Hw. cbn.
    destruct w; [congruence|reflexivity].
  - rewrite <- (app_nil_r (c :: x)). rewrite fields_tok; try assumption; [reflexivity|discriminate].
Qed.

Definition fchunks_ok (chunks : list (text * text)) : Prop :=
  Forall (fun ws => nsp (fst ws) /\ fst ws <> [] /\ spcs (snd ws) /\ snd ws <> []) chunks.
Lemma fields_chunks s0 chunks w x : spcs s0 -> fchunks_ok chunks -> nsp w -> w <> [] -> spcs x ->
  fields (s0 ++ concat (map (fun ws => fst ws ++ snd ws) chunks) ++ w ++ x) = map fst chunks ++ [w].
Proof.
  intros H0 H Hw Hne Hx. unfold fields. rewrite fields_spcs by exact H0. clear H0.
  induction chunks as [|[w1 s1] t IH].
  - cbn [map concat app]. apply fields_last; assumption.
  - inversion H as [|y l Hy Hl]; subst. cbn [fst snd] in Hy. destruct Hy as [A [B [C D]]].
    cbn [map concat fst snd]. rewrite <- !app_assoc. rewrite fields_tok by assumption.
    cbn [app]. f_equal. apply IH. exact Hl.
Qed.

Lemma blank_spcs x : blankt x -> spcs x.
Proof. intros H. eapply Forall_impl; [|exact H]. intros c [-> | [-> | ->]]; reflexivity. Qed.
Lemma spcs_app x y : spcs x -> spcs y -> spcs (x ++ y).
Proof. intros; apply Forall_app; split; assumption. Qed.

(* ---------- one instruction line ---------- *)
Definition tailt (x : text) : Prop := Forall (fun c => spc c \/ c = 10) x.
Lemma tail_stable x : tailt x -> stable x.
Proof. intros H. eapply Forall_impl; [|exact H]. intros c [Hc | ->]; [apply spc_stable; exact Hc|repeat split; discriminate]. Qed.
Lemma tail_spcs x : tailt x -> spcs x.
Proof. intros H. eapply Forall_impl; [|exact H]. intros c [[-> | [-> | ->]] | ->]; reflexivity. Qed.

Definition Lop (o : opcode) : text := lower (opcode_name o).
Definition Ldot (legacy : bool) (md : opmode) : text := if legacy then [] else 46 :: lower (opmode_name md).

Lemma stable_Lop o : stable (Lop o) /\ nsp (Lop o) /\ Lop o <> [].
Proof. destruct o; (split; [|split; [|discriminate]]); repeat constructor; discriminate. Qed.
Lemma stable_Ldot legacy md : stable (Ldot legacy md) /\ nsp (Ldot legacy md).
Proof. destruct legacy; [split; constructor|]. destruct md; split; repeat constructor; discriminate. Qed.
Lemma stable_amode a : stable [amode_char a] /\ nsp [amode_char a].
Proof. destruct a; split; repeat constructor; discriminate. Qed.
Lemma digit_stable c : is_digit_a c = true -> stable_c c /\ is_space_a c = false.
Proof.
  intros H. unfold is_digit_a in H. unfold stable_c, lower_c, is_upper_a, is_space_a.
  assert (E : (65 <=? c) && (c <=? 90) = false) by lia. rewrite E. repeat split; lia.
Qed.
Lemma stable_dec n : stable (dec_of_N n) /\ nsp (dec_of_N n) /\ dec_of_N n <> [].
Proof.
  destruct (dec_of_N_spec n) as [A [B _]]. split; [|split; [|exact A]].
  - eapply Forall_impl; [|exact B]. intros c Hc. apply digit_stable. exact Hc.
  - eapply Forall_impl; [|exact B]. intros c Hc. apply digit_stable. exact Hc.
Qed.
Lemma stable_field s k m a : stable (field_text s k m a) /\ nsp (field_text s k m a) /\ field_text s k m a <> [].
Proof.
  unfold field_text. destruct ((pick s k 2 =? 0) && (m / 2 <? a)).
  - destruct (stable_dec (m - a)) as [A [B _]]. split; [|split; [|discriminate]].
    + constructor; [repeat split; discriminate|exact A].
    + constructor; [reflexivity|exact B].
  - apply stable_dec.
Qed.

Lemma existsb_app {A} (f : A -> bool) x y : existsb f (x ++ y) = existsb f x || existsb f y.
Proof. induction x; cbn; [reflexivity|]. rewrite IHx. apply orb_assoc. Qed.

Definition line_fields (s k : N) (legacy : bool) (m : N) (i : instr) : list text :=
  [Lop (i_op i) ++ Ldot legacy (i_md i); [amode_char (i_am i)]; field_text s (k + 5) m (i_a i);
   [amode_char (i_bm i)]; field_text s (k + 9) m (i_b i)].

Definition dotmod (s k : N) (legacy : bool) (md : opmode) : text :=
  if legacy then [] else [46] ++ recase s (k + 2) (opmode_name md).
Lemma lower_dotmod s k legacy md : lower (dotmod s k legacy md) = Ldot legacy md.
Proof. unfold dotmod, Ldot. destruct legacy; [reflexivity|]. rewrite lower_app, lower_recase. reflexivity. Qed.
Lemma lp_line_eq s k legacy m i :
  lp_line s k legacy m i =
  optgap s k ++ recase s (k + 1) (opcode_name (i_op i)) ++ dotmod s k legacy (i_md i)
  ++ gap s (k + 3) ++ [amode_char (i_am i)] ++ gap s (k + 4) ++ field_text s (k + 5) m (i_a i)
  ++ optgap s (k + 6) ++ [44] ++ gap s (k + 7) ++ [amode_char (i_bm i)] ++ gap s (k + 8) ++ field_text s (k + 9) m (i_b i)
  ++ (match pick s (k + 10) 5 with 0 => gap s (k + 11) ++ lp_comment s (k + 12) | _ => [] end).
Proof. unfold lp_line, dotmod. destruct legacy; reflexivity. Qed.

Lemma proc_line s k legacy m i E : tailt E ->
  let low := before_semicolon (lower (lp_line s k legacy m i ++ E)) in
  has_char 44 low = true /\ fields (commas_to_spaces low) = line_fields s k legacy m i.
Proof.
  intros HE.
  destruct (gap_blank s (k + 3)) as [G3 G3n]. destruct (gap_blank s (k + 4)) as [G4 G4n].
  destruct (gap_blank s (k + 7)) as [G7 G7n]. destruct (gap_blank s (k + 8)) as [G8 G8n].
  destruct (gap_blank s (k + 11)) as [G11 _].
  pose proof (optgap_blank s k) as G0. pose proof (optgap_blank s (k + 6)) as G6.
  destruct (stable_Lop (i_op i)) as [O1 [O2 O3]]. destruct (stable_Ldot legacy (i_md i)) as [D1 D2].
  destruct (stable_amode (i_am i)) as [A1 A2]. destruct (stable_amode (i_bm i)) as [B1 B2].
  destruct (stable_field s (k + 5) m (i_a i)) as [FA1 [FA2 FA3]].
  destruct (stable_field s (k + 9) m (i_b i)) as [FB1 [FB2 FB3]].
  set (T := match pick s (k + 10) 5 with 0 => gap s (k + 11) | _ => E end).
  assert (HT : tailt T).
  { unfold T. destruct (pick s (k + 10) 5); [|exact HE].
    eapply Forall_impl; [|exact G11]. intros c Hc. left. exact Hc. }
  assert (Hlow : before_semicolon (lower (lp_line s k legacy m i ++ E)) =
                 (optgap s k ++ (Lop (i_op i) ++ Ldot legacy (i_md i)) ++ gap s (k + 3) ++ [amode_char (i_am i)]
                  ++ gap s (k + 4) ++ field_text s (k + 5) m (i_a i) ++ optgap s (k + 6))
                 ++ [44] ++ (gap s (k + 7) ++ [amode_char (i_bm i)] ++ gap s (k + 8) ++ field_text s (k + 9) m (i_b i)) ++ T).
  { rewrite lp_line_eq. rewrite !lower_app.
    rewrite !lower_recase.
    rewrite (lower_stable (optgap s k)), (lower_stable (gap s (k + 3))), (lower_stable (gap s (k + 4))),
            (lower_stable (optgap s (k + 6))), (lower_stable (gap s (k + 7))), (lower_stable (gap s (k + 8))),
            (lower_stable [amode_char (i_am i)]), (lower_stable [amode_char (i_bm i)]),
            (lower_stable (field_text s (k + 5) m (i_a i))), (lower_stable (field_text s (k + 9) m (i_b i)))
      by (try assumption; apply blank_stable; assumption).
    fold (Lop (i_op i)).
    rewrite lower_dotmod.
    change (lower [44]) with [44].
    rewrite <- !app_assoc.
    rewrite !bs_stable by (try assumption; apply blank_stable; assumption).
    rewrite bs_single by discriminate.
    rewrite !bs_stable by (try assumption; apply blank_stable; assumption).
    repeat f_equal. unfold T.
    destruct (pick s (k + 10) 5) as [|p].
    - rewrite lower_app, (lower_stable (gap s (k + 11))) by (apply blank_stable; assumption).
      rewrite <- app_assoc, bs_stable by (apply blank_stable; assumption).
      unfold lp_comment. cbn [lower map app lower_c is_upper_a]. cbn. apply app_nil_r.
    - cbn [lower map app]. rewrite lower_stable by (apply tail_stable; exact HE).
      apply bs_stable_end. apply tail_stable. exact HE. }
  cbv zeta. rewrite Hlow. clear Hlow. split.
  - unfold has_char. rewrite existsb_app. cbn [app existsb]. cbn. apply orb_true_r.
  - rewrite !c2s_app. change (commas_to_spaces [44]) with [32].
    rewrite !c2s_stable by (try assumption; try (apply blank_stable; assumption); try (apply stable_app; assumption);
                            apply tail_stable; exact HT).
    replace ((optgap s k ++ (Lop (i_op i) ++ Ldot legacy (i_md i)) ++ gap s (k + 3) ++ [amode_char (i_am i)]
               ++ gap s (k + 4) ++ field_text s (k + 5) m (i_a i) ++ optgap s (k + 6))
             ++ [32] ++ (gap s (k + 7) ++ [amode_char (i_bm i)] ++ gap s (k + 8) ++ field_text s (k + 9) m (i_b i)) ++ T)
      with (optgap s k ++ concat (map (fun ws => fst ws ++ snd ws)
              [(Lop (i_op i) ++ Ldot legacy (i_md i), gap s (k + 3));
               ([amode_char (i_am i)], gap s (k + 4));
               (field_text s (k + 5) m (i_a i), optgap s (k + 6) ++ [32] ++ gap s (k + 7));
               ([amode_char (i_bm i)], gap s (k + 8))]) ++ field_text s (k + 9) m (i_b i) ++ T)
      by (cbn [concat map fst snd]; rewrite <- !app_assoc; reflexivity).
    rewrite fields_chunks; [reflexivity| | | | |].
    + apply blank_spcs. exact G0.
    + constructor; [|constructor; [|constructor; [|constructor; [|constructor]]]]; cbn [fst snd].
      * split; [apply Forall_app; split; assumption|]. split; [destruct (Lop (i_op i)); [congruence|discriminate]|].
        split; [apply blank_spcs; assumption|assumption].
      * split; [assumption|]. split; [discriminate|]. split; [apply blank_spcs; assumption|assumption].
      * split; [assumption|]. split; [assumption|]. split.
        -- apply spcs_app; [apply blank_spcs; assumption|]. apply spcs_app; [repeat constructor|apply blank_spcs; assumption].
        -- destruct (optgap s (k + 6)); discriminate.
      * split; [assumption|]. split; [discriminate|]. split; [apply blank_spcs; assumption|assumption].
    + assumption.
    + assumption.
    + apply tail_spcs. exact HT.
Qed.

(* ---------- decoding the fields ---------- *)
Lemma raw_shape raw : has_char 44 (before_semicolon (lower raw)) = true -> exists c0 rest, raw = c0 :: rest /\ c0 <> 59.
Proof.
  destruct raw as [|c0 rest]; [discriminate|]. intros H. exists c0, rest. split; [reflexivity|].
  intros ->. discriminate H.
Qed.

Lemma parse_int_dec_gen bits z : (- 2 ^ Z.of_N (bits - 1) <= z < 2 ^ Z.of_N (bits - 1))%Z -> parse_int bits (dec_of_Z z) = Some z.
Proof.
  intros Hz. remember (2 ^ Z.of_N (bits - 1))%Z as lim.
  assert (Hpos : forall n, (Z.of_N n < lim)%Z -> parse_int bits (dec_of_N n) = Some (Z.of_N n)).
  { intros n Hn. unfold parse_int. pose proof (parse_digits_dec n) as P.
    destruct (dec_of_N_spec n) as [H1 [H2 _]].
    destruct (dec_of_N n) as [|c l]; [congruence|].
    inversion H2 as [|c' l' Hc Hl]; subst.
    replace ((- 2 ^ Z.of_N (bits - 1) <=? Z.of_N n) && (Z.of_N n <? 2 ^ Z.of_N (bits - 1)))%Z%bool with true in * by lia.
    destruct (digit_cases c Hc) as [->|[->|[->|[->|[->|[->|[->|[->|[->| ->]]]]]]]]];
      rewrite P; replace ((- 2 ^ Z.of_N (bits - 1) <=? Z.of_N n) && (Z.of_N n <? 2 ^ Z.of_N (bits - 1)))%Z%bool with true by lia;
      reflexivity. }
  destruct z as [|p|p].
  - apply (Hpos 0). lia.
  - apply (Hpos (N.pos p)). lia.
  - unfold parse_int. cbn [dec_of_Z]. rewrite parse_digits_dec. change (Z.of_N (N.pos p)) with (Z.pos p).
    change (- Z.pos p)%Z with (Z.neg p). rewrite <- Heqlim.
    replace ((- lim <=? Z.neg p) && (Z.neg p <? lim))%Z%bool with true by lia. reflexivity.
Qed.

Lemma field_is_dec s k m a : a < m ->
  exists z, field_text s k m a = dec_of_Z z /\ (z = Z.of_N a \/ (m / 2 < a /\ z = (- (Z.of_N m - Z.of_N a))%Z)).
Proof.
  intros Ha. unfold field_text. destruct ((pick s k 2 =? 0) && (m / 2 <? a)) eqn:E.
  - exists (- (Z.of_N m - Z.of_N a))%Z. split; [|right; split; [lia|reflexivity]].
    destruct (m - a) as [|p] eqn:Ep; [lia|].
    replace (- (Z.of_N m - Z.of_N a))%Z with (Z.neg p) by lia. reflexivity.
  - exists (Z.of_N a). split; [|left; reflexivity].
    destruct a; reflexivity.
Qed.

Lemma parse_address_field s k m a : 0 < m -> m <= 2 ^ 63 -> a < m ->
  parse_address (field_text s k m a) m = Some a.
Proof.
  intros Hm Hm' Ha. destruct (field_is_dec s k m a Ha) as [z [E Hz]]. rewrite E.
  unfold parse_address. change (2 ^ 63) with 9223372036854775808 in Hm'.
  rewrite (parse_int_dec_gen 64) by (change (2 ^ Z.of_N (64 - 1))%Z with 9223372036854775808%Z; lia).
  f_equal. unfold norm_field. destruct Hz as [-> | [Hh ->]].
  - rewrite Z.rem_small by lia. destruct (Z.of_N a <? 0)%Z eqn:E0; [lia|]. lia.
  - replace (- (Z.of_N m - Z.of_N a))%Z with (- (Z.of_N (m - a)))%Z by lia.
    rewrite Z.rem_opp_l by lia. rewrite (Z.rem_small (Z.of_N (m - a))) by lia.
    destruct (- Z.of_N (m - a) <? 0)%Z eqn:E0; [|lia].
    replace (Z.of_N m + - Z.of_N (m - a))%Z with (Z.of_N a) by lia. rewrite Z.rem_small by lia. lia.
Qed.

Lemma amode_text_back a : amode_of_text [amode_char a] = Some a.
Proof. destruct a; reflexivity. Qed.
Lemma amode88_text_back a : is88mode a = true -> amode88_of_text [amode_char a] = Some a.
Proof. destruct a; cbn; congruence. Qed.
Lemma getop94_back o md :
  (fix split (s cur : text) : list text :=
     match s with
     | [] => [cur]
     | 46 :: r => cur :: split r []
     | ch :: r => split r (cur ++ [ch])
     end) (Lop o ++ Ldot false md) [] = [Lop o; lower (opmode_name md)].
Proof. destruct o, md; reflexivity. Qed.
Lemma opcode_text_back o : opcode_of_text (Lop o) = Some o.
Proof. destruct o; reflexivity. Qed.
Lemma opmode_text_back md : opmode_of_text (lower (opmode_name md)) = Some md.
Proof. destruct md; reflexivity. Qed.

Lemma line94_instr s k m i E st : tailt E -> 0 < m -> m <= 2 ^ 63 -> i_a i < m -> i_b i < m ->
  line94 m st (lp_line s k false m i ++ E) = Some (inl (mkLS (ls_code st ++ [i]) (ls_start st))).
Proof.
  intros HE Hm Hm' Ha Hb. destruct (proc_line s k false m i E HE) as [Hc Hf]. cbv zeta in Hc, Hf.
  destruct (raw_shape _ Hc) as [c0 [rest [Er Hne]]].
  unfold line94. rewrite Er. rewrite !(raw_match c0 rest) by assumption. rewrite <- Er.
  rewrite Hf, Hc. unfold line_fields. cbn [negb].
  rewrite getop94_back, opcode_text_back, opmode_text_back, !amode_text_back, !parse_address_field by assumption.
  destruct i; reflexivity.
Qed.

Lemma implied_88_facts o am bm md : implied_modifier_88 o am bm = Some md ->
  opcode88_of_text (Lop o) = Some o /\ is88mode am = true /\ is88mode bm = true /\ op_mode_88 o am bm = Some md.
Proof. destruct o, am, bm; cbn; intros H; try discriminate; repeat split; try reflexivity; exact H. Qed.

Lemma line88_instr s k m i E st : tailt E -> 0 < m -> m <= 2 ^ 63 -> i_a i < m -> i_b i < m ->
  implied_modifier_88 (i_op i) (i_am i) (i_bm i) = Some (i_md i) ->
  line88 m st (lp_line s k true m i ++ E) = Some (inl (mkLS (ls_code st ++ [i]) (ls_start st))).
Proof.
  intros HE Hm Hm' Ha Hb Hl. destruct (proc_line s k true m i E HE) as [Hc Hf]. cbv zeta in Hc, Hf.
  destruct (raw_shape _ Hc) as [c0 [rest [Er Hne]]].
  destruct (implied_88_facts _ _ _ _ Hl) as [F1 [F2 [F3 F4]]].
  unfold line88. rewrite Er. rewrite !(raw_match c0 rest) by assumption. rewrite <- Er.
  rewrite Hf, Hc. unfold line_fields. cbn [negb Ldot]. rewrite app_nil_r.
  rewrite F1, !amode88_text_back, !parse_address_field, F4 by assumption.
  destruct i; reflexivity.
Qed.

(* ---------- lines that carry no instruction ---------- *)
Lemma fields_blank x : spcs x -> fields x = [].
Proof. intros H. unfold fields. rewrite <- (app_nil_r x). rewrite fields_spcs by exact H. reflexivity. Qed.

(* a blank line (only white space) is skipped by both readers *)
Lemma line94_blank m st x : tailt x -> line94 m st x = Some (inl st).
Proof.
  intros H. unfold line94. destruct x as [|c0 rest]; [reflexivity|].
  assert (Hne : c0 <> 59). { inversion H as [|c l Hc Hl]; subst. destruct Hc as [[-> | [-> | ->]] | ->]; discriminate. }
  rewrite !(raw_match c0 rest) by assumption.
  rewrite lower_stable, bs_stable_end, c2s_stable, fields_blank by (try apply tail_stable; try apply tail_spcs; exact H).
  reflexivity.
Qed.
Lemma line88_blank m st x : tailt x -> line88 m st x = Some (inl st).
Proof.
  intros H. unfold line88. destruct x as [|c0 rest]; [reflexivity|].
  assert (Hne : c0 <> 59). { inversion H as [|c l Hc Hl]; subst. destruct Hc as [[-> | [-> | ->]] | ->]; discriminate. }
  rewrite !(raw_match c0 rest) by assumption.
  rewrite lower_stable, bs_stable_end, c2s_stable, fields_blank by (try apply tail_stable; try apply tail_spcs; exact H).
  reflexivity.
Qed.
Lemma line94_comment m st x : line94 m st (59 :: x) = Some (inl st).
Proof. reflexivity. Qed.
Lemma line88_comment m st x : line88 m st (59 :: x) = Some (inl st).
Proof. reflexivity. Qed.

(* ---------- reading lines ---------- *)
Definition nonl (x : text) : Prop := Forall (fun c => c <> 10) x.
Lemma read_step c r cur : c <> 10 -> read_lines (c :: r) cur = read_lines r (cur ++ [c]).
Proof.
  intros H. destruct c as [|p]; [reflexivity|].
  destruct p as [p|p|]; [reflexivity| |reflexivity].
  destruct p as [p|p|]; [|reflexivity|reflexivity].
  destruct p as [p|p|]; [reflexivity| |reflexivity].
  destruct p as [p|p|]; [reflexivity|reflexivity|congruence].
Qed.
Lemma read_run x : forall r cur, nonl x -> read_lines (x ++ r) cur = read_lines r (cur ++ x).
Proof.
  induction x as [|c x IH]; intros r cur H; [rewrite app_nil_r; reflexivity|].
  inversion H as [|c' x' Hc Hx]; subst. cbn [app]. rewrite read_step by exact Hc.
  rewrite IH by exact Hx. rewrite <- app_assoc. reflexivity.
Qed.
Lemma read_line x r : nonl x -> read_lines ((x ++ [10]) ++ r) [] = (x ++ [10]) :: read_lines r [].
Proof. intros H. rewrite <- app_assoc. rewrite read_run by exact H. reflexivity. Qed.
Lemma read_last x : nonl x -> x <> [] -> read_lines x [] = [x].
Proof.
  intros H Hne. rewrite <- (app_nil_r x) at 1. rewrite read_run by exact H. cbn.
  destruct x; [congruence|reflexivity].
Qed.

Lemma nonl_app x y : nonl x -> nonl y -> nonl (x ++ y).
Proof. intros; apply Forall_app; split; assumption. Qed.
Lemma blank_nonl x : blankt x -> nonl x.
Proof. intros H. eapply Forall_impl; [|exact H]. intros c [-> | [-> | ->]]; discriminate. Qed.
Lemma nsp_nonl x : nsp x -> nonl x.
Proof. intros H. eapply Forall_impl; [|exact H]. intros c Hc ->. discriminate. Qed.
Lemma recase_forall (P : N -> Prop) s k t : Forall (fun c => P c /\ P (lower_c c)) t -> Forall P (recase s k t).
Proof.
  intros H. unfold recase.
  assert (G : forall t j acc, Forall (fun c => P c /\ P (lower_c c)) t -> Forall P acc ->
      Forall P (snd (fold_left (fun (st : N * text) c => let '(j, acc) := st in
               (j + 1, acc ++ [if pick s (k + j) 2 =? 0 then lower_c c else c])) t (j, acc)))).
  { clear. induction t as [|c t IH]; intros j acc Ht Ha; [exact Ha|].
    inversion Ht as [|c' t' [Hc1 Hc2] Ht']; subst. cbn [fold_left]. apply IH; [exact Ht'|].
    apply Forall_app. split; [exact Ha|]. constructor; [|constructor]. destruct (pick s (k + j) 2 =? 0); assumption. }
  destruct (pick s k 3) as [|[p|p|]].
  - unfold lower. apply Forall_map. eapply Forall_impl; [|exact H]. intros c [_ Hc]. exact Hc.
  - apply G; [exact H|constructor].
  - apply G; [exact H|constructor].
  - eapply Forall_impl; [|exact H]. intros c [Hc _]. exact Hc.
Qed.
Lemma recase_nonl_op s k o : nonl (recase s k (opcode_name o)).
Proof. apply recase_forall. destruct o; repeat constructor; discriminate. Qed.
Lemma recase_nonl_md s k md : nonl (recase s k (opmode_name md)).
Proof. apply recase_forall. destruct md; repeat constructor; discriminate. Qed.

Lemma lp_line_nonl s k legacy m i : nonl (lp_line s k legacy m i) /\ lp_line s k legacy m i <> [].
Proof.
  rewrite lp_line_eq.
  destruct (stable_amode (i_am i)) as [_ A2]. destruct (stable_amode (i_bm i)) as [_ B2].
  destruct (stable_field s (k + 5) m (i_a i)) as [_ [FA2 _]].
  destruct (stable_field s (k + 9) m (i_b i)) as [_ [FB2 _]].
  split.
  - repeat (apply nonl_app; [try (apply blank_nonl; first [apply gap_blank|apply optgap_blank]); try (apply nsp_nonl; assumption)|]).
    + apply recase_nonl_op.
    + unfold dotmod. destruct legacy; [constructor|]. apply nonl_app; [repeat constructor; discriminate|apply recase_nonl_md].
    + repeat constructor; discriminate.
    + destruct (pick s (k + 10) 5); [|constructor]. apply nonl_app; [apply blank_nonl, gap_blank|].
      unfold lp_comment. destruct (pick s (k + 12) 3) as [|[q|q|]]; repeat constructor; discriminate.
  - intros E. apply (f_equal (@length N)) in E. rewrite !app_length in E. cbn [length] in E. lia.
Qed.

(* ---------- directive lines ---------- *)
Definition dirline (s : N) (kw : text) (start : Z) : text :=
  optgap s 2 ++ recase s 3 kw ++ gap s 4 ++ dec_of_N (Z.to_N start).

Lemma raw_shape2 raw f fs : fields (commas_to_spaces (before_semicolon (lower raw))) = f :: fs ->
  exists c0 rest, raw = c0 :: rest /\ c0 <> 59.
Proof.
  destruct raw as [|c0 rest]; [discriminate|]. intros H. exists c0, rest. split; [reflexivity|].
  intros ->. discriminate H.
Qed.

Lemma proc_dir s kw start E : tailt E -> stable (lower kw) -> nsp (lower kw) -> lower kw <> [] ->
  fields (commas_to_spaces (before_semicolon (lower (dirline s kw start ++ E)))) = [lower kw; dec_of_N (Z.to_N start)].
Proof.
  intros HE K1 K2 K3. unfold dirline.
  destruct (gap_blank s 4) as [G4 G4n]. pose proof (optgap_blank s 2) as G2.
  destruct (stable_dec (Z.to_N start)) as [D1 [D2 D3]].
  rewrite !lower_app, lower_recase.
  rewrite (lower_stable (optgap s 2)), (lower_stable (gap s 4)), (lower_stable (dec_of_N _)), (lower_stable E)
    by (try assumption; try (apply blank_stable; assumption); apply tail_stable; assumption).
  rewrite <- !app_assoc.
  rewrite !bs_stable by (try assumption; apply blank_stable; assumption).
  rewrite bs_stable_end by (apply tail_stable; assumption).
  rewrite !c2s_app, !c2s_stable by (try assumption; try (apply blank_stable; assumption); apply tail_stable; assumption).
  replace (optgap s 2 ++ lower kw ++ gap s 4 ++ dec_of_N (Z.to_N start) ++ E)
    with (optgap s 2 ++ concat (map (fun ws => fst ws ++ snd ws) [(lower kw, gap s 4)]) ++ dec_of_N (Z.to_N start) ++ E)
    by (cbn [concat map fst snd]; rewrite <- !app_assoc; reflexivity).
  rewrite fields_chunks; [reflexivity| | | | |]; try assumption.
  - apply blank_spcs. assumption.
  - constructor; [|constructor]. cbn [fst snd]. split; [assumption|]. split; [assumption|]. split; [apply blank_spcs; assumption|assumption].
  - apply tail_spcs. assumption.
Qed.

Lemma dec_start start : (0 <= start)%Z -> dec_of_N (Z.to_N start) = dec_of_Z start.
Proof. intros H. destruct start; try reflexivity. lia. Qed.

Lemma line94_org s m st start E : tailt E -> (0 <= start < 2 ^ 31)%Z ->
  line94 m st (dirline s (s2t "ORG") start ++ E) = Some (inl (mkLS (ls_code st) start)).
Proof.
  intros HE Hs.
  assert (Hf := proc_dir s (s2t "ORG") start E HE).
  change (lower (s2t "ORG")) with (s2t "org") in Hf.
  specialize (Hf ltac:(repeat constructor; discriminate) ltac:(repeat constructor) ltac:(discriminate)).
  destruct (raw_shape2 _ _ _ Hf) as [c0 [rest [Er Hne]]].
  unfold line94. rewrite Er. rewrite !(raw_match c0 rest) by assumption. rewrite <- Er. rewrite Hf.
  change (text_eqb (s2t "org") (s2t "org")) with true. cbv iota.
  rewrite dec_start by lia. rewrite (parse_int_dec_gen 32) by (change (2 ^ Z.of_N (32 - 1))%Z with (2 ^ 31)%Z; lia).
  destruct (start <? 0)%Z eqn:E0; [lia|reflexivity].
Qed.

Lemma line88_end s m st start E : tailt E -> (0 <= start < 2 ^ 31)%Z -> (start <= Z.of_nat (length (ls_code st)))%Z ->
  line88 m st (dirline s (s2t "END") start ++ E) = Some (inr (Some start)).
Proof.
  intros HE Hs Hl.
  assert (Hf := proc_dir s (s2t "END") start E HE).
  change (lower (s2t "END")) with (s2t "end") in Hf.
  specialize (Hf ltac:(repeat constructor; discriminate) ltac:(repeat constructor) ltac:(discriminate)).
  destruct (raw_shape2 _ _ _ Hf) as [c0 [rest [Er Hne]]].
  unfold line88. rewrite Er. rewrite !(raw_match c0 rest) by assumption. rewrite <- Er. rewrite Hf.
  change (text_eqb (s2t "end") (s2t "end")) with true. change (text_eqb (s2t "end") (s2t "org")) with false.
  cbv iota. cbn [orb negb].
  rewrite dec_start by lia. rewrite (parse_int_dec_gen 32) by (change (2 ^ Z.of_N (32 - 1))%Z with (2 ^ 31)%Z; lia).
  destruct (start <? 0)%Z eqn:E0; [lia|].
  destruct (Z.of_nat (length (ls_code st)) <? start)%Z eqn:E1; [lia|]. reflexivity.
Qed.

Lemma dirline_nonl s kw start : Forall (fun c => c <> 10 /\ lower_c c <> 10) kw -> kw <> [] ->
  nonl (dirline s kw start) /\ dirline s kw start <> [].
Proof.
  intros Hk Hne. unfold dirline. destruct (stable_dec (Z.to_N start)) as [_ [D2 D3]]. split.
  - apply nonl_app; [apply blank_nonl, optgap_blank|]. apply nonl_app; [apply recase_forall; exact Hk|].
    apply nonl_app; [apply blank_nonl, gap_blank|apply nsp_nonl; exact D2].
  - intros E. apply (f_equal (@length N)) in E. rewrite !app_length in E.
    destruct (dec_of_N (Z.to_N start)); [congruence|]. cbn [length] in E. lia.
Qed.

(* ---------- whole files ---------- *)
Lemma eol_tail s k : exists x, eol s k = x ++ [10] /\ blankt x /\ tailt (x ++ [10]).
Proof.
  destruct (eol_blank s k) as [x [E B]]. exists x. split; [exact E|]. split; [exact B|].
  apply Forall_app. split; [eapply Forall_impl; [|exact B]; intros c Hc; left; exact Hc|].
  constructor; [right; reflexivity|constructor].
Qed.
Lemma join_cons s k l t f : t <> [] ->
  join_lines s k (l :: t) f = l ++ eol s k ++ filler s (k + 3) ++ join_lines s (k + 7) t f.
Proof. destruct t; [congruence|reflexivity]. Qed.

Lemma filler_lines s k : exists ls, (forall r, read_lines (filler s k ++ r) [] = ls ++ read_lines r []) /\
  Forall (fun l => tailt l \/ exists x, l = 59 :: x) ls.
Proof.
  unfold filler. destruct (eol_tail s (k + 1)) as [x [E [B T]]].
  assert (C : forall c, nonl c -> exists ls, (forall r, read_lines ((59 :: c) ++ eol s (k + 1) ++ r) [] = ls ++ read_lines r []) /\
                          Forall (fun l => tailt l \/ exists x, l = 59 :: x) ls).
  { intros c Hc. exists [(59 :: c ++ x) ++ [10]]. split.
    - intros r. rewrite E.
      replace ((59 :: c) ++ (x ++ [10]) ++ r) with (((59 :: c ++ x) ++ [10]) ++ r)
        by (cbn [app]; rewrite <- !app_assoc; reflexivity).
      rewrite read_line by (constructor; [discriminate|apply nonl_app; [exact Hc|apply blank_nonl; exact B]]).
      reflexivity.
    - constructor; [|constructor]. right. eexists. cbn [app]. reflexivity. }
  destruct (pick s k 7) as [|[p|[p|p|]|]].
  - exists [x ++ [10]]. split; [|constructor; [left; exact T|constructor]].
    intros r. rewrite E. apply read_line. apply blank_nonl. exact B.
  - exists []. split; [reflexivity|constructor].
  - exists []. split; [reflexivity|constructor].
  - exists []. split; [reflexivity|constructor].
  - destruct (C (s2t "name some warrior")) as [ls [H1 H2]]; [repeat constructor; discriminate|].
    exists ls. split; [|exact H2]. intros r. rewrite <- H1. rewrite <- app_assoc. reflexivity.
  - destruct (C (s2t " remark")) as [ls [H1 H2]]; [repeat constructor; discriminate|].
    exists ls. split; [|exact H2]. intros r. rewrite <- H1. rewrite <- app_assoc. reflexivity.
Qed.

Lemma skip94 m ls : Forall (fun l => tailt l \/ exists x, l = 59 :: x) ls ->
  forall st rest, load94_lines m st (ls ++ rest) = load94_lines m st rest.
Proof.
  intros H. induction H as [|l t Hl _ IH]; intros st rest; [reflexivity|].
  cbn [app load94_lines]. destruct Hl as [Hl | [x ->]].
  - rewrite line94_blank by exact Hl. apply IH.
  - rewrite line94_comment. apply IH.
Qed.
Lemma skip88 m ls : Forall (fun l => tailt l \/ exists x, l = 59 :: x) ls ->
  forall st rest, load88_lines m st (ls ++ rest) = load88_lines m st rest.
Proof.
  intros H. induction H as [|l t Hl _ IH]; intros st rest; [reflexivity|].
  cbn [app load88_lines]. destruct Hl as [Hl | [x ->]].
  - rewrite line88_blank by exact Hl. apply IH.
  - rewrite line88_comment. apply IH.
Qed.
Lemma filler94 m s k st r : load94_lines m st (read_lines (filler s k ++ r) []) = load94_lines m st (read_lines r []).
Proof. destruct (filler_lines s k) as [ls [H1 H2]]. rewrite H1. apply skip94. exact H2. Qed.
Lemma filler88 m s k st r : load88_lines m st (read_lines (filler s k ++ r) []) = load88_lines m st (read_lines r []).
Proof. destruct (filler_lines s k) as [ls [H1 H2]]. rewrite H1. apply skip88. exact H2. Qed.

Definition iwf (m : N) (legacy : bool) (i : instr) : Prop :=
  i_a i < m /\ i_b i < m /\ (legacy = true -> implied_modifier_88 (i_op i) (i_am i) (i_bm i) = Some (i_md i)).

(* a line followed by a line end, and a last line with or without one *)
Lemma read_line_eol s k x r : nonl x -> exists E, tailt E /\ read_lines (x ++ eol s k ++ r) [] = (x ++ E) :: read_lines r [].
Proof.
  intros Hx. destruct (eol_tail s k) as [y [E [B T]]]. exists (y ++ [10]). split; [exact T|].
  rewrite E. replace (x ++ (y ++ [10]) ++ r) with (((x ++ y) ++ [10]) ++ r) by (rewrite <- !app_assoc; reflexivity).
  rewrite read_line by (apply nonl_app; [exact Hx|apply blank_nonl; exact B]). rewrite <- app_assoc. reflexivity.
Qed.
Lemma read_line_final s k x (f : bool) : nonl x -> x <> [] ->
  exists E, tailt E /\ read_lines (x ++ (if f then eol s k else [])) [] = [x ++ E].
Proof.
  intros Hx Hne. destruct f.
  - destruct (read_line_eol s k x [] Hx) as [E [T H]]. exists E. split; [exact T|]. rewrite app_nil_r in H. exact H.
  - exists []. split; [constructor|]. rewrite !app_nil_r. apply read_last; assumption.
Qed.

Lemma body94 s m (Hm : 0 < m) (Hm' : m <= 2 ^ 63) fnl : forall code k kj acc st0,
  code <> [] -> Forall (iwf m false) code ->
  load94_lines m (mkLS acc st0) (read_lines (join_lines s kj (lp_lines s k false m code) fnl) []) =
  Some (mkLS (acc ++ code) st0).
Proof.
  induction code as [|i t IH]; intros k kj acc st0 Hne Hwf; [congruence|].
  inversion Hwf as [|i' t' [Ha [Hb _]] Ht]; subst.
  destruct (lp_line_nonl s k false m i) as [N1 N2].
  cbn [lp_lines]. destruct t as [|i2 t2].
  - cbn [lp_lines join_lines].
    destruct (read_line_final s kj _ fnl N1 N2) as [E [T H]]. rewrite H.
    cbn [load94_lines]. rewrite line94_instr by assumption. reflexivity.
  - rewrite join_cons by discriminate.
    destruct (read_line_eol s kj _ (filler s (kj + 3) ++ join_lines s (kj + 7) (lp_lines s (k + 20) false m (i2 :: t2)) fnl) N1)
      as [E [T H]]. rewrite H.
    cbn [load94_lines]. rewrite line94_instr by assumption. cbn [ls_code ls_start].
    rewrite filler94. rewrite IH by (try discriminate; exact Ht). rewrite <- app_assoc. reflexivity.
Qed.

Theorem loader94_round_trip s m code start :
  0 < m -> m <= 2 ^ 63 -> Forall (iwf m false) code -> (0 <= start < Z.of_nat (length code))%Z -> (start < 2 ^ 31)%Z ->
  parse_load_file_94 m (loadprint s false m code start) = LOk code start.
Proof.
  intros Hm Hm' Hwf Hs Hs'.
  assert (Hne : code <> []) by (destruct code; [cbn in Hs; lia|discriminate]).
  unfold parse_load_file_94, loadprint. cbv zeta.
  fold (dirline s (s2t "ORG") start).
  rewrite filler94.
  assert (Hb : lp_lines s 50 false m code <> []) by (destruct code; [congruence|discriminate]).
  rewrite join_cons by exact Hb.
  destruct (dirline_nonl s (s2t "ORG") start) as [D1 D2]; [repeat constructor; discriminate|discriminate|].
  destruct (read_line_eol s 9 _ (filler s (9 + 3) ++ join_lines s (9 + 7) (lp_lines s 50 false m code) (negb (pick s 6 5 =? 0))) D1)
    as [E [T H]]. rewrite H.
  cbn [load94_lines]. rewrite line94_org by (try assumption; lia). cbn [ls_code].
  rewrite filler94, body94 by assumption. cbn [app ls_code ls_start].
  destruct (Z.of_nat (length code) <=? start)%Z eqn:E0; [lia|reflexivity].
Qed.

Lemma body88 s m (Hm : 0 < m) (Hm' : m <= 2 ^ 63) fnl start (Hs : (0 <= start < 2 ^ 31)%Z) : forall code k kj acc,
  Forall (iwf m true) code -> (start <= Z.of_nat (length (acc ++ code)))%Z ->
  load88_lines m (mkLS acc 0)
    (read_lines (join_lines s kj (lp_lines s k true m code ++ [dirline s (s2t "END") start]) fnl) []) =
  Some (mkLS (acc ++ code) start).
Proof.
  induction code as [|i t IH]; intros k kj acc Hwf Hl.
  - cbn [lp_lines app join_lines].
    destruct (dirline_nonl s (s2t "END") start) as [D1 D2]; [repeat constructor; discriminate|discriminate|].
    destruct (read_line_final s kj _ fnl D1 D2) as [E [T H]]. rewrite H.
    cbn [load88_lines]. rewrite app_nil_r in *. rewrite line88_end by assumption. reflexivity.
  - inversion Hwf as [|i' t' [Ha [Hb Hi]] Ht]; subst.
    destruct (lp_line_nonl s k true m i) as [N1 N2].
    cbn [lp_lines app]. rewrite join_cons by (destruct (lp_lines s (k + 20) true m t); discriminate).
    destruct (read_line_eol s kj _ (filler s (kj + 3) ++ join_lines s (kj + 7)
                (lp_lines s (k + 20) true m t ++ [dirline s (s2t "END") start]) fnl) N1) as [E [T H]]. rewrite H.
    cbn [load88_lines]. rewrite line88_instr by (try assumption; apply Hi; reflexivity). cbn [ls_code ls_start].
    rewrite filler88. rewrite IH; [rewrite <- app_assoc; reflexivity|exact Ht|].
    rewrite <- app_assoc. exact Hl.
Qed.

Theorem loader88_round_trip s m code start :
  0 < m -> m <= 2 ^ 63 -> Forall (iwf m true) code -> (0 <= start < Z.of_nat (length code))%Z -> (start < 2 ^ 31)%Z ->
  parse_load_file_88 m (loadprint s true m code start) = LOk code start.
Proof.
  intros Hm Hm' Hwf Hs Hs'.
  unfold parse_load_file_88, loadprint. cbv zeta.
  fold (dirline s (s2t "END") start).
  rewrite filler88, body88 by (try assumption; cbn [app]; lia).
  cbn [app ls_code ls_start].
  destruct (Z.of_nat (length code) <=? start)%Z eqn:E0; [lia|]. rewrite andb_false_r. reflexivity.
Qed.

(* ---------- both dialects, in the vocabulary of C06 / C10 ---------- *)
Theorem loader_round_trip s cfg code start :
  0 < c_size cfg -> c_size cfg <= 2 ^ 63 ->
  Forall (fun i => i_a i < c_size cfg /\ i_b i < c_size cfg) code ->
  (c_mode cfg = 0 -> Forall (fun i => legal88 i = true) code) ->
  (0 <= start < Z.of_nat (length code))%Z -> (start < 2 ^ 31)%Z ->
  parse_load_file cfg (loadprint s (c_mode cfg =? 0) (c_size cfg) code start) = LOk code start.
Proof.
  intros Hm Hm' Hwf Hl Hs Hs'. unfold parse_load_file.
  assert (W : Forall (iwf (c_size cfg) (c_mode cfg =? 0)) code).
  { apply Forall_forall. intros i Hi. rewrite Forall_forall in Hwf. destruct (Hwf i Hi) as [Ha Hb].
    split; [exact Ha|]. split; [exact Hb|]. intros E. apply N.eqb_eq in E. specialize (Hl E).
    rewrite Forall_forall in Hl. specialize (Hl i Hi). unfold legal88 in Hl.
    destruct (implied_modifier_88 (i_op i) (i_am i) (i_bm i)) as [md|]; [|discriminate].
    f_equal. apply opmode_eqb_eq. exact Hl. }
  destruct (c_mode cfg =? 0); [apply loader88_round_trip|apply loader94_round_trip]; assumption.
Qed.
