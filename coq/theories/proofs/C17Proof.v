(* C17Proof.v — the command-line tool: flags give the documented configuration,
   every round is counted exactly once, and with a fixed placement the printed
   tallies are the reference battle's outcome times the number of rounds. *)
From GM Require Import Base Text Exec Sim Emi94 Mars SpecCodec Compile Cli CliSpec VmArith C01Phase
     QueueProof InvSim MarsFacts C02Proof.
From Coq Require Import Lia ZifyN ZifyBool ZifyNat.
Open Scope N_scope.

(* ---------- flags -> configuration ---------- *)
Lemma z2u64_small z : (0 <= z < 18446744073709551616)%Z -> z2u64 z = Z.to_N z.
Proof. intros H. unfold z2u64. now rewrite Z.mod_small. Qed.

Theorem flags_config f :
  fl_preset f = 0 ->
  (0 <= fl_s f < 18446744073709551616)%Z -> (0 <= fl_p f < 18446744073709551616)%Z ->
  (0 <= fl_c f < 18446744073709551616)%Z -> (0 <= fl_l f < 18446744073709551616)%Z ->
  doc_config f = Some (cli_config f).
Proof.
  intros Hp Hs Hpp Hc Hl. unfold doc_config, cli_config. rewrite Hp.
  destruct (Z.ltb_spec (fl_s f) 0); [lia|]. destruct (Z.ltb_spec (fl_p f) 0); [lia|].
  destruct (Z.ltb_spec (fl_c f) 0); [lia|]. destruct (Z.ltb_spec (fl_l f) 0); [lia|].
  cbn [orb]. rewrite !z2u64_small by assumption. reflexivity.
Qed.

(* a preset replaces whatever the other flags say; the documented and the built-in tables agree
   (nop256 lists limits of 800 on a core of 256: limits beyond the core never fold anything) *)
Theorem preset_config_documented k :
  (1 <= k <= 6) -> k <> 5 -> preset_config k = doc_preset k.
Proof.
  intros Hk H5.
  assert (H : k = 1 \/ k = 2 \/ k = 3 \/ k = 4 \/ k = 6) by lia.
  destruct H as [H|[H|[H|[H|H]]]]; subst k; reflexivity.
Qed.
Theorem preset_nop256 :
  match preset_config 5, doc_preset 5 with
  | Some a, Some b =>
      c_mode a = c_mode b /\ c_size a = c_size b /\ c_procs a = c_procs b /\ c_cycles a = c_cycles b /\
      c_len a = c_len b /\ c_dist a = c_dist b /\ 2 * c_size a - 1 <= c_rl a /\ 2 * c_size a - 1 <= c_wl a
  | _, _ => False
  end.
Proof. cbn. repeat split; lia. Qed.

(* ---------- the tally ---------- *)
Definition tally_ok (n : Z) (t : tally) : Prop :=
  (0 <= t_w1win t /\ 0 <= t_w2win t /\ 0 <= t_w1tie t /\ t_w1tie t = t_w2tie t /\
   t_w1win t + t_w2win t + t_w1tie t <= n)%Z.

Lemma tally_round_ok two n t r : tally_ok n t -> tally_ok (n + 1) (tally_round two t r).
Proof.
  unfold tally_ok, tally_round. intros (A & B & C & D & E).
  destruct r as [a1 a2]. destruct two, a1, a2; cbn; lia.
Qed.

Theorem rounds_conserved cfg w1 w2 : forall positions t n t',
  tally_ok n t -> cli_rounds cfg w1 w2 positions t = Some t' ->
  tally_ok (n + Z.of_nat (length positions)) t'.
Proof.
  induction positions as [|p rest IH]; intros t n t' Ht E; cbn [cli_rounds length] in *.
  - inversion E; subst. now rewrite Z.add_0_r.
  - destruct (cli_round cfg w1 w2 p) as [r|]; [|discriminate].
    replace (n + Z.of_nat (S (length rest)))%Z with ((n + 1) + Z.of_nat (length rest))%Z by lia.
    eapply IH; [|exact E]. apply tally_round_ok. assumption.
Qed.

(* ---------- run-to-completion does not depend on surplus fuel ---------- *)
Lemma until_done_enough cfg : forall f t,
  (N.to_nat (mc_C cfg - m_cycles t) < f)%nat ->
  forall d, m_until_done cfg (f + d) t = m_until_done cfg f t.
Proof.
  induction f as [|f IH]; intros t Hf d; [lia|].
  cbn [Nat.add m_until_done].
  destruct (m_finished cfg t) eqn:Fin; [reflexivity|].
  pose proof (m_cycle_facts cfg t) as MF. cbv zeta in MF. destruct MF as [ML MC].
  set (t' := m_cycle cfg t) in *.
  destruct MC as [(M1 & M2 & M3)|M1].
  - (* cut short: the state is finished *)
    assert (Fin' : m_finished cfg t' = true).
    { unfold m_finished. rewrite ML, M3.
      destruct (Nat.ltb_spec 1 (length (m_ws t))); [cbn; now rewrite ?orb_true_r|lia]. }
    destruct f; [destruct d; cbn [Nat.add m_until_done]; [reflexivity|now rewrite Fin']|].
    cbn [Nat.add m_until_done]. now rewrite Fin'.
  - apply IH.
    assert (m_cycles t < mc_C cfg).
    { unfold m_finished in Fin. apply orb_false_iff in Fin. destruct Fin as [Fin _].
      apply orb_false_iff in Fin. destruct Fin as [_ Fin]. now apply N.leb_gt in Fin. }
    rewrite M1. lia.
Qed.

(* ---------- one round is the reference battle ---------- *)
Definition round_guards (cfg : config) : Prop :=
  c_size cfg <= 2 ^ 32 /\ 1 <= c_rl cfg <= c_size cfg /\ 1 <= c_wl cfg <= c_size cfg /\ c_cycles cfg < two64.
Definition warrior_ok (cfg : config) (w : list instr * Z) : Prop :=
  Forall (wf_i (c_size cfg)) (fst w) /\ (0 <= snd w)%Z /\
  Z.to_N (snd w) + N.of_nat (length (fst w)) + 2 * c_size cfg < two64.

Lemma new_sim_fields c s : new_sim c = Some s ->
  s_m s = c_size c /\ s_procs s = c_procs c /\ s_cycles s = c_cycles c /\ s_rl s = c_rl c /\ s_wl s = c_wl c /\
  s_ws s = [] /\ s_cycle s = 0.
Proof. unfold new_sim. destruct (validate c); [|discriminate]. intros E. inversion E. cbn. auto 10. Qed.

Lemma spawn_len s wi off s' r :
  spawn_warrior s wi off = Ok (inl (s', r)) -> length (s_ws s') = length (s_ws s).
Proof.
  unfold spawn_warrior. destruct (_ || _)%bool; [discriminate|].
  destruct (windex s wi) as [[i w]|]; [|discriminate].
  destruct (w_state w); cbv zeta; intros E; inversion E;
    cbn [s_ws with_living set_w with_ws with_mem]; apply list_set_length.
Qed.

Lemma spawn_ok_result s t wi off :
  Inv s -> guards s -> Rel s t -> off < two64 ->
  Forall (fun w => (0 <= w_start w)%Z /\ Z.to_N (w_start w) + N.of_nat (length (w_code w)) + 2 * s_m s < two64) (s_ws s) ->
  (0 <= wi < Z.of_nat (length (s_ws s)))%Z ->
  (forall w, nth_error (s_ws s) (Z.to_nat wi) = Some w -> w_state w <> WAlive) ->
  exists s' reps t', spawn_warrior s wi off = Ok (inl (s', reps)) /\
    m_spawn (cfg_of s) t (Z.to_nat wi) off = Some t' /\ Rel s' t' /\ Inv s' /\ cfg_of s' = cfg_of s /\
    length (s_ws s') = length (s_ws s).
Proof.
  intros HI HG HR Hoff Hws Hwi Hna.
  pose proof (spawn_refines s t wi off HI HG HR Hoff Hws) as SR.
  destruct (spawn_warrior s wi off) as [[[s' reps]|[]]|] eqn:E; [| |contradiction].
  - destruct SR as (_ & t' & A & B & C & D). exists s', reps, t'.
    split; [reflexivity|]. split; [assumption|]. split; [assumption|]. split; [assumption|]. split; [assumption|].
    eapply spawn_len; eassumption.
  - exfalso. destruct SR as [H|[H|(w & Hn & Ha)]]; try lia.
    destruct HR as (_ & R2 & _). rewrite R2, nth_error_map in Hn.
    destruct (nth_error (s_ws s) (Z.to_nat wi)) as [w0|] eqn:Hn0; [|discriminate].
    cbn in Hn. inversion Hn; subst w. rewrite m_alive_absw in Ha. unfold alive in Ha.
    specialize (Hna w0 eq_refl). destruct (w_state w0); congruence.
Qed.

Lemma replace_nth_app {A} (l : list A) i x y : (i < length l)%nat ->
  replace_nth (l ++ [y]) i x = replace_nth l i x ++ [y].
Proof.
  revert i. induction l as [|h t IH]; intros i Hi; [cbn in Hi; lia|].
  destruct i; cbn; [reflexivity|]. f_equal. apply IH. cbn in Hi. lia.
Qed.

(* spawning an earlier warrior commutes with adding a later one *)
Lemma m_spawn_then_add mc c ws cyc i off w2 t' :
  m_spawn mc (mkM c ws cyc) i off = Some t' ->
  m_spawn mc (mkM c (ws ++ [w2]) cyc) i off = Some (mkM (m_core t') (m_ws t' ++ [w2]) (m_cycles t')).
Proof.
  unfold m_spawn. cbn [m_ws m_core m_cycles].
  destruct (nth_error ws i) as [w|] eqn:Hn; [|discriminate].
  assert (Hi : (i < length ws)%nat) by (apply nth_error_Some; congruence).
  rewrite nth_error_app1, Hn by assumption.
  destruct (m_alive w); [discriminate|].
  intros E. inversion E. cbn [m_core m_ws m_cycles]. now rewrite replace_nth_app.
Qed.

Lemma cfg_of_eq a b : cfg_of a = cfg_of b ->
  s_m a = s_m b /\ s_rl a = s_rl b /\ s_wl a = s_wl b /\ s_procs a = s_procs b /\ s_cycles a = s_cycles b.
Proof. unfold cfg_of. intros E. inversion E. auto. Qed.
Lemma cfg_of_m a cfg : cfg_of a = mcfg_of cfg ->
  s_m a = c_size cfg /\ s_rl a = c_rl cfg /\ s_wl a = c_wl cfg /\ s_procs a = c_procs cfg /\ s_cycles a = c_cycles cfg.
Proof. unfold cfg_of, mcfg_of. intros E. inversion E. auto. Qed.

(* side condition of spawn_refines, read off the reference state *)
Definition mws_ok (M : N) (t : mars) : Prop :=
  Forall (fun w => (0 <= mw_start w)%Z /\ Z.to_N (mw_start w) + N.of_nat (length (mw_code w)) + 2 * M < two64) (m_ws t).

Lemma rel_ws_ok s t : Rel s t -> mws_ok (s_m s) t ->
  Forall (fun w => (0 <= w_start w)%Z /\ Z.to_N (w_start w) + N.of_nat (length (w_code w)) + 2 * s_m s < two64) (s_ws s).
Proof.
  intros (_ & R2 & _) H. unfold mws_ok in H. rewrite R2 in H.
  apply Forall_map in H. eapply Forall_impl; [|exact H]. intros w Hw. exact Hw.
Qed.

Lemma m_spawn_ws_ok M mc t i off t' : mws_ok M t -> m_spawn mc t i off = Some t' -> mws_ok M t'.
Proof.
  unfold m_spawn, mws_ok. intros H.
  destruct (nth_error (m_ws t) i) as [w|] eqn:Hn; [|discriminate].
  destruct (m_alive w); [discriminate|]. intros E. inversion E. cbn [m_ws].
  assert (G : forall l k, Forall (fun w0 => (0 <= mw_start w0)%Z /\ Z.to_N (mw_start w0) + N.of_nat (length (mw_code w0)) + 2 * M < two64) l ->
              nth_error l k = Some w ->
              Forall (fun w0 => (0 <= mw_start w0)%Z /\ Z.to_N (mw_start w0) + N.of_nat (length (mw_code w0)) + 2 * M < two64)
                     (replace_nth l k (mkMW (mw_code w) (mw_start w) MAlive
                        (enq (mc_P mc) [] [Z.to_N ((Z.of_N off + mw_start w) mod Z.of_N (mc_M mc))])))).
  { induction l as [|h tl IHl]; intros [|k] Hl Hk; cbn in *; try discriminate.
    - inversion Hk; subst. inversion Hl; subst. constructor; [cbn; assumption|assumption].
    - inversion Hl; subst. constructor; [assumption|]. apply IHl; assumption. }
  apply G; assumption.
Qed.

Theorem cli_round_is_reference cfg w1 w2 pos :
  round_guards cfg -> warrior_ok cfg w1 -> warrior_ok cfg w2 -> (0 <= pos < 18446744073709551616)%Z ->
  validate cfg = true ->
  cli_round cfg w1 (Some w2) pos = Some (ref_outcome cfg w1 (Some w2) pos).
Proof.
  intros (G1 & G2 & G3 & G4) (W1a & W1b & W1c) (W2a & W2b & W2c) Hpos Hv.
  unfold cli_round, ref_outcome.
  destruct (new_sim_inv cfg G4) as [E0|(s0 & E0 & I0)]; [unfold new_sim in E0; rewrite Hv in E0; discriminate|].
  rewrite E0. pose proof (new_rel cfg s0 E0) as R0.
  destruct (new_sim_fields cfg s0 E0) as (F1 & F2 & F3 & F4 & F5 & F6 & F7).
  assert (Hcfg0 : cfg_of s0 = mcfg_of cfg) by (unfold cfg_of, mcfg_of; congruence).
  assert (Two : 0 < two64) by (rewrite two64_val; lia).
  set (M := c_size cfg) in *.
  set (mw1 := mkMW (fst w1) (snd w1) MAdded []). set (mw2 := mkMW (fst w2) (snd w2) MAdded []).
  (* warrior 1 *)
  set (s1 := add_warrior s0 (fst w1) (snd w1)).
  assert (Hm1 : s_m s1 = M) by exact F1.
  assert (C1 : cfg_of s1 = mcfg_of cfg) by exact Hcfg0.
  assert (I1 : Inv s1) by (apply add_warrior_inv; [assumption|rewrite F1; assumption]).
  pose proof (add_refines s0 _ (fst w1) (snd w1) R0) as R1. cbn [m_core m_ws m_cycles app] in R1. fold s1 mw1 in R1.
  set (t1 := mkM empty_core [mw1] 0) in *.
  assert (Gs1 : guards s1) by (unfold guards; change (s_rl s1) with (s_rl s0); change (s_wl s1) with (s_wl s0); rewrite Hm1, F4, F5; auto).
  assert (K1 : mws_ok M t1) by (unfold mws_ok, t1; cbn; constructor; [cbn; auto|constructor]).
  assert (L1 : length (s_ws s1) = 1%nat) by (unfold s1; cbn; rewrite F6; reflexivity).
  destruct (spawn_ok_result s1 t1 0%Z 0 I1 Gs1 R1 Two) as (s2 & r2 & t2 & E2 & T2 & R2 & I2 & C2 & L2).
  { rewrite Hm1. apply rel_ws_ok in R1; [rewrite Hm1 in R1; exact R1|rewrite Hm1; exact K1]. }
  { rewrite L1. lia. }
  { unfold s1. cbn. rewrite F6. cbn. intros w Hw. inversion Hw. cbn. discriminate. }
  rewrite E2. rewrite C1 in T2.
  assert (C2m : cfg_of s2 = mcfg_of cfg) by (rewrite C2; exact C1).
  assert (Hm2 : s_m s2 = M) by (apply (cfg_of_m s2 cfg C2m)).
  assert (K2 : mws_ok M t2) by (eapply m_spawn_ws_ok; eassumption).
  (* warrior 2 *)
  set (s2a := add_warrior s2 (fst w2) (snd w2)).
  assert (I2a : Inv s2a) by (apply add_warrior_inv; [assumption|rewrite Hm2; assumption]).
  pose proof (add_refines s2 t2 (fst w2) (snd w2) R2) as R2a. fold s2a mw2 in R2a.
  set (t2a := mkM (m_core t2) (m_ws t2 ++ [mw2]) (m_cycles t2)) in *.
  assert (C2a : cfg_of s2a = mcfg_of cfg) by (change (cfg_of s2a) with (cfg_of s2); exact C2m).
  assert (Gs2 : guards s2a).
  { unfold guards. change (s_m s2a) with (s_m s2). change (s_rl s2a) with (s_rl s2). change (s_wl s2a) with (s_wl s2).
    destruct (cfg_of_m s2 cfg C2m) as (X1 & X2 & X3 & _). rewrite X1, X2, X3. fold M. auto. }
  assert (K2a : mws_ok M t2a).
  { unfold mws_ok, t2a. cbn [m_ws]. apply Forall_app. split; [exact K2|]. constructor; [cbn; auto|constructor]. }
  assert (L2a : length (s_ws s2a) = 2%nat) by (unfold s2a; cbn; rewrite app_length, L2, L1; reflexivity).
  assert (Hoff : z2u64 pos < two64).
  { rewrite z2u64_small by assumption. rewrite two64_val. lia. }
  destruct (spawn_ok_result s2a t2a 1%Z (z2u64 pos) I2a Gs2 R2a Hoff) as (s3 & r3 & t3 & E3 & T3 & R3 & I3 & C3 & L3).
  { change (s_m s2a) with (s_m s2). rewrite Hm2. apply rel_ws_ok in R2a; [change (s_m s2a) with (s_m s2) in R2a; rewrite Hm2 in R2a; exact R2a|].
    change (s_m s2a) with (s_m s2). rewrite Hm2. exact K2a. }
  { rewrite L2a. lia. }
  { unfold s2a. cbn [add_warrior s_ws with_ws]. intros w Hw.
    change (Z.to_nat 1) with 1%nat in Hw. rewrite nth_error_app2 in Hw by lia.
    rewrite L2, L1 in Hw. cbn in Hw. inversion Hw. cbn. discriminate. }
  rewrite E3. rewrite C2a in T3.
  (* the reference reaches the same state, spawning after both warriors are present *)
  assert (T2' : m_spawn (mcfg_of cfg) (mkM empty_core [mw1; mw2] 0) 0 0 = Some t2a).
  { change [mw1; mw2] with ([mw1] ++ [mw2]). unfold t1 in T2. exact (m_spawn_then_add _ _ _ _ _ _ mw2 _ T2). }
  rewrite T2'. rewrite z2u64_small in T3 by assumption. change (Z.to_nat 1) with 1%nat in T3. rewrite T3.
  (* Run *)
  assert (Hne : s_ws s3 <> []) by (intros X; rewrite X in L3; rewrite L2a in L3; discriminate).
  assert (Hc3 : cfg_of s3 = mcfg_of cfg) by (rewrite C3; exact C2a).
  assert (Gs3 : guards s3).
  { unfold guards. destruct (cfg_of_m s3 cfg Hc3) as (X1 & X2 & X3 & _). rewrite X1, X2, X3. fold M. auto. }
  assert (Hcy : s_cycles s3 = c_cycles cfg) by (apply (cfg_of_m s3 cfg Hc3)).
  assert (Hcy0 : m_cycles t3 = 0).
  { unfold m_spawn in T3. destruct (nth_error _ _); [|discriminate]. destruct (m_alive _); [discriminate|].
    inversion T3. cbn. unfold m_spawn in T2. cbn in T2. inversion T2. reflexivity. }
  pose proof (run_refines s3 t3 I3 Gs3 R3 Hne (S (S (N.to_nat (s_cycles s3)))) ltac:(lia)) as RR.
  destruct (run _ s3) as [s' [flags|]| |]; try contradiction.
  destruct RR as (R' & I' & Hfl).
  rewrite Hc3 in R'.
  replace (S (S (N.to_nat (s_cycles s3)))) with (S (N.to_nat (mc_C (mcfg_of cfg))) + 1)%nat in R'
    by (cbn [mc_C mcfg_of]; rewrite Hcy; lia).
  rewrite until_done_enough in R' by (rewrite Hcy0; cbn [mc_C mcfg_of]; lia).
  destruct R' as (_ & Rw & _).
  f_equal. rewrite Rw.
  f_equal; rewrite nth_error_map; destruct (nth_error (s_ws s') _); cbn [option_map]; try reflexivity;
    symmetry; apply m_alive_absw.
Qed.

(* ---------- fixed placement: the printed lines ---------- *)
Definition tally_add (two : bool) (t : tally) (r : bool * bool) (n : Z) : tally :=
  let '(a1, a2) := r in
  if two then
    mkTa (t_w1win t + (if a1 && negb a2 then n else 0)) (t_w1tie t + (if a1 && a2 then n else 0))
         (t_w2win t + (if a2 && negb a1 then n else 0)) (t_w2tie t + (if a2 && a1 then n else 0))
  else mkTa (t_w1win t + (if a1 then n else 0)) (t_w1tie t) (t_w2win t) (t_w2tie t).

Lemma rounds_fixed cfg w1 w2 pos r : forall n t,
  cli_round cfg w1 w2 pos = Some r ->
  cli_rounds cfg w1 w2 (repeat pos n) t =
  Some (tally_add (match w2 with Some _ => true | None => false end) t r (Z.of_nat n)).
Proof.
  induction n as [|n IH]; intros t E; cbn [repeat cli_rounds].
  - f_equal. unfold tally_add. destruct r as [a1 a2], w2, t; cbn; destruct a1, a2; cbn; f_equal; lia.
  - rewrite E. rewrite IH by assumption. f_equal.
    unfold tally_add, tally_round. destruct r as [a1 a2], w2, t; destruct a1, a2; cbn -[Z.add Z.of_nat];
      f_equal; lia.
Qed.

Theorem fixed_output cfg w1 w2 (f : flags) :
  round_guards cfg -> warrior_ok cfg w1 -> warrior_ok cfg w2 -> (0 <= fl_F f < 18446744073709551616)%Z ->
  validate cfg = true -> (0 <= fl_r f)%Z ->
  match cli_rounds cfg w1 (Some w2) (fixed_positions f) (mkTa 0 0 0 0) with
  | Some t => cli_output true t = tally_lines true (fl_r f) (ref_outcome cfg w1 (Some w2) (fl_F f))
  | None => False
  end.
Proof.
  intros HG H1 H2 HF Hv Hr. unfold fixed_positions.
  rewrite (rounds_fixed cfg w1 (Some w2) (fl_F f) _ _ _ (cli_round_is_reference cfg w1 w2 (fl_F f) HG H1 H2 HF Hv)).
  rewrite Z2Nat.id by assumption.
  unfold cli_output, tally_lines, tally_add.
  destruct (ref_outcome cfg w1 (Some w2) (fl_F f)) as [a1 a2].
  cbn -[dec_of_Z]. rewrite (andb_comm a2 a1). reflexivity.
Qed.

(* the hypotheses are met by the default flags (-s 8000 -p 8000 -c 80000 -l 100 -F 100) and an imp against a dwarf *)
Example fixed_output_hyps :
  let cfg := cli_config (mkFl false 8000 8000 80000 100 100 3 0) in
  round_guards cfg /\ validate cfg = true /\
  warrior_ok cfg ([mkI MOV mI 0 DIRECT 1 DIRECT], 0%Z) /\
  warrior_ok cfg ([mkI ADD mAB 4 IMMEDIATE 3 DIRECT; mkI MOV mI 2 DIRECT 2 B_INDIRECT;
                   mkI JMP mB 7998 DIRECT 0 DIRECT; mkI DAT mF 0 IMMEDIATE 0 IMMEDIATE], 0%Z).
Proof.
  cbv zeta. unfold round_guards, warrior_ok. rewrite two64_val. cbn -[N.pow N.mul N.add].
  repeat match goal with |- _ /\ _ => split end; try reflexivity; try lia;
    repeat constructor; cbn; lia.
Qed.
