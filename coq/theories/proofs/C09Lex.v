(* C09Lex.v — the lexer stage on the canonical load-file layout: the text is
   tokenised into exactly the canonical tokens. *)
From GM Require Import Base Text Token Lexer Scanner ExprSpec ExprEval ForExpand Parser Sim Compile
     Meaning Render LoadPrint C03Lexer C16Proof C09Parse.
From Coq Require Import Lia ZifyN ZifyNat ZifyBool.
Ltac Zify.zify_post_hook ::= Z.div_mod_to_equations.
Open Scope N_scope.

(* ---------- decimal numerals have no leading zero ---------- *)
Lemma digits_fuel_lead f : forall n acc, (1 <= f)%nat -> n < 2 ^ N.of_nat f ->
  exists c0 l, digits_fuel f n acc = c0 :: l ++ acc /\ (n = 0 -> l = []) /\ (n <> 0 -> c0 <> 48).
Proof.
  induction f as [|f IH]; intros n acc Hf Hn; [lia|].
  cbn [digits_fuel]. destruct (n <? 10) eqn:E.
  - exists (48 + n mod 10), []. split; [reflexivity|]. split; [reflexivity|]. intros Hz. lia.
  - rewrite Nat2N.inj_succ, N.pow_succ_r' in Hn.
    assert (Hf' : (1 <= f)%nat).
    { destruct f as [|f']; [|lia]. cbn in Hn. lia. }
    assert (Hn' : n / 10 < 2 ^ N.of_nat f).
    { remember (2 ^ N.of_nat f) as P. lia. }
    destruct (IH (n / 10) ((48 + n mod 10) :: acc) Hf' Hn') as [c0 [l [E1 [E2 E3]]]].
    exists c0, (l ++ [48 + n mod 10]). rewrite E1, <- app_assoc. split; [reflexivity|].
    split; [intros Hz; lia|]. intros _. apply E3. lia.
Qed.
Lemma dec_lead n : exists c0 l, dec_of_N n = c0 :: l /\ (c0 <> 48 \/ l = []).
Proof.
  unfold dec_of_N.
  destruct (digits_fuel_lead (S (N.to_nat (N.log2 n))) n []) as [c0 [l [E1 [E2 E3]]]]; [lia| |].
  - rewrite Nat2N.inj_succ, N2Nat.id. destruct (N.eq_dec n 0) as [->|Hz]; [reflexivity|].
    apply N.log2_spec. lia.
  - rewrite E1, app_nil_r. exists c0, l. split; [reflexivity|].
    destruct (N.eq_dec n 0) as [Hz|Hz]; [right; apply E2; exact Hz|left; apply E3; exact Hz].
Qed.

(* ---------- the lexemes of the canonical layout ---------- *)
Definition fld_pieces (sg : bool) (m a : N) : list piece :=
  if sg && (m / 2 <? a) then [PSym 45; PNum (dec_of_N (m - a))] else [PNum (dec_of_N a)].
Definition line_pieces (legacy sg : bool) (m : N) (i : instr) : list piece :=
  [PWord (canon_op legacy i); PBlank [32]; PSym (amode_char (i_am i)); PBlank [32]] ++ fld_pieces sg m (i_a i)
  ++ [C03Lexer.PComma; PBlank [32]; PSym (amode_char (i_bm i)); PBlank [32]] ++ fld_pieces sg m (i_b i).
Definition dir_pieces (kw : text) (start : Z) : list piece := [PWord kw; PBlank [32]; PNum (dec_of_N (Z.to_N start))].

(* lines joined by line feeds; the last line feed is the closing white space of the text *)
Fixpoint join_pieces (ls : list (list piece)) : list piece :=
  match ls with
  | [] => []
  | [l] => l
  | l :: t => l ++ PBlank [10] :: join_pieces t
  end.

Lemma join_cons l l2 t2 : join_pieces (l :: l2 :: t2) = l ++ PBlank [10] :: join_pieces (l2 :: t2).
Proof. reflexivity. Qed.
Lemma join_one l : join_pieces [l] = l.
Proof. reflexivity. Qed.

Lemma join_text ls : ls <> [] ->
  flat_map ptext (join_pieces ls) ++ [10] = flat_map (fun l => flat_map ptext l ++ [10]) ls.
Proof.
  induction ls as [|l t IH]; intros H; [congruence|]. destruct t as [|l2 t2].
  - rewrite join_one. cbn [flat_map]. rewrite app_nil_r. reflexivity.
  - rewrite join_cons. rewrite flat_map_app. cbn [flat_map ptext]. rewrite <- app_assoc. cbn [app].
    rewrite IH by discriminate. cbn [flat_map]. rewrite <- !app_assoc. reflexivity.
Qed.
Lemma join_toks ls : ls <> [] ->
  flat_map ptoks (join_pieces ls) ++ [nl_tok] = flat_map (fun l => flat_map ptoks l ++ [nl_tok]) ls.
Proof.
  induction ls as [|l t IH]; intros H; [congruence|]. destruct t as [|l2 t2].
  - rewrite join_one. cbn [flat_map]. rewrite app_nil_r. reflexivity.
  - rewrite join_cons. rewrite flat_map_app. cbn [flat_map ptoks]. rewrite <- app_assoc.
    change (newlines [10]) with [nl_tok]. cbn [app].
    rewrite IH by discriminate. cbn [flat_map]. rewrite <- !app_assoc. reflexivity.
Qed.

(* a line whose lexemes are well placed when a line feed follows, and which begins with a letter *)
Fixpoint ok_before (ps : list piece) (c : N) : Prop :=
  match ps with
  | [] => True
  | p :: t => piece_ok p (first_of (flat_map ptext t ++ [c])) /\ ok_before t c
  end.
Definition good_line (l : list piece) : Prop :=
  ok_before l 10 /\ exists c r, flat_map ptext l = c :: r /\ is_space_a c = false.

Lemma first_of_app x c r : first_of (x ++ c :: r) = first_of (x ++ [c]).
Proof. destruct x; reflexivity. Qed.

Lemma ok_before_app l c : forall rest tail, ok_before l c -> first_of (flat_map ptext rest ++ tail) = c ->
  pieces_ok rest tail -> pieces_ok (l ++ rest) tail.
Proof.
  induction l as [|p t IH]; intros rest tail H Hc Hr; [exact Hr|].
  cbn [app pieces_ok]. destruct H as [H1 H2]. split; [|apply IH; assumption].
  rewrite flat_map_app, <- app_assoc.
  destruct (flat_map ptext rest ++ tail) as [|c0 r0] eqn:E.
  - destruct (flat_map ptext rest); [|discriminate E]. cbn in E. subst tail. cbn in Hc. subst c.
    replace (first_of (flat_map ptext t ++ [])) with (first_of (flat_map ptext t ++ [0])) by (destruct (flat_map ptext t); reflexivity).
    exact H1.
  - cbn [first_of hd] in Hc. subst c0. rewrite first_of_app. exact H1.
Qed.

Lemma join_ok ls : ls <> [] -> Forall good_line ls -> pieces_ok (join_pieces ls) [10].
Proof.
  induction ls as [|l t IH]; intros Hne H; [congruence|]. inversion H as [|x y [Hl1 Hl2] Ht]; subst.
  destruct t as [|l2 t2].
  - rewrite join_one. rewrite <- (app_nil_r l). apply (ok_before_app l 10 [] [10]); [exact Hl1|reflexivity|exact I].
  - rewrite join_cons. apply (ok_before_app l 10); [exact Hl1|reflexivity|].
    cbn [pieces_ok]. split; [|apply IH; [discriminate|exact Ht]].
    inversion Ht as [|x2 y2 [_ [c [r [Ec Hc]]]] _]; subst.
    cbn [piece_ok]. split; [discriminate|]. split; [repeat constructor|].
    destruct t2 as [|l3 t3].
    + rewrite join_one. rewrite Ec. exact Hc.
    + rewrite join_cons. rewrite flat_map_app, Ec. exact Hc.
Qed.

(* ---------- the lines of the canonical layout are good lines ---------- *)
Lemma num_piece_ok n next : is_digit_a next = false -> piece_ok (PNum (dec_of_N n)) next.
Proof.
  intros Hn. destruct (dec_lead n) as [c0 [l [E L]]]. destruct (dec_of_N_spec n) as [_ [D _]].
  cbn [piece_ok]. exists c0, l. split; [exact E|]. split; [exact D|]. split; [exact Hn|exact L].
Qed.
Lemma dec_first n : exists c0 l, dec_of_N n = c0 :: l /\ is_digit_a c0 = true.
Proof.
  destruct (dec_lead n) as [c0 [l [E _]]]. destruct (dec_of_N_spec n) as [_ [D _]]. exists c0, l. split; [exact E|].
  rewrite E in D. inversion D; assumption.
Qed.

Lemma fld_ok sg m a rest c : is_digit_a (first_of (flat_map ptext rest ++ [c])) = false -> ok_before rest c ->
  ok_before (fld_pieces sg m a ++ rest) c /\
  (exists c0 r, flat_map ptext (fld_pieces sg m a ++ rest) ++ [c] = c0 :: r /\ c0 <> 61 /\ is_space_a c0 = false).
Proof.
  intros Hd Hr. unfold fld_pieces. destruct (sg && (m / 2 <? a)).
  - cbn [app ok_before flat_map ptext]. split.
    + split; [cbn [piece_ok]; left; reflexivity|]. split; [apply num_piece_ok; exact Hd|exact Hr].
    + eexists _, _. split; [reflexivity|]. split; [discriminate|reflexivity].
  - cbn [app ok_before flat_map ptext]. split.
    + split; [apply num_piece_ok; exact Hd|exact Hr].
    + destruct (dec_first a) as [c0 [l [E D]]]. rewrite E. exists c0. eexists. split; [reflexivity|].
      unfold is_digit_a in D. unfold is_space_a. split; [lia|]. lia.
Qed.

Lemma amode_char_facts am : is_space_a (amode_char am) = false /\
  (sym1 (amode_char am) = true \/ (amode_char am = 60 \/ amode_char am = 62)).
Proof. destruct am; split; try reflexivity; auto. Qed.

Lemma canon_op_word legacy i next : tchar next = false -> piece_ok (PWord (canon_op legacy i)) next /\
  exists c r, canon_op legacy i = c :: r /\ is_space_a c = false.
Proof.
  intros Hn. unfold canon_op. destruct legacy, (i_op i), (i_md i); (split; [cbn [piece_ok app opcode_name opmode_name s2t];
    eexists _, _; split; [reflexivity|]; split; [reflexivity|]; split; [repeat constructor|exact Hn]
    |eexists _, _; split; [reflexivity|reflexivity]]).
Qed.

Lemma line_good legacy sg m i : good_line (line_pieces legacy sg m i).
Proof.
  unfold line_pieces.
  destruct (amode_char_facts (i_am i)) as [SA1 SA2]. destruct (amode_char_facts (i_bm i)) as [SB1 SB2].
  assert (SP : forall am, sym1 (amode_char am) = true \/ (amode_char am = 60 \/ amode_char am = 62) ->
                          piece_ok (PSym (amode_char am)) 32).
  { intros am [S|S]; cbn [piece_ok]; [left; exact S|right; split; [exact S|discriminate]]. }
  (* from the back *)
  destruct (fld_ok sg m (i_b i) [] 10 eq_refl I) as [OB [cb [rb [EB [NB1 NB2]]]]]. rewrite app_nil_r in OB, EB.
  assert (O3 : ok_before ([C03Lexer.PComma; PBlank [32]; PSym (amode_char (i_bm i)); PBlank [32]] ++ fld_pieces sg m (i_b i)) 10).
  { cbn [app ok_before]. split; [exact I|]. split; [|split; [|split; [|exact OB]]].
    - cbn [piece_ok flat_map ptext app first_of hd]. split; [discriminate|]. split; [repeat constructor|exact SB1].
    - cbn [flat_map ptext app first_of hd]. apply SP. exact SB2.
    - cbn [piece_ok]. rewrite EB. cbn [first_of hd]. split; [discriminate|]. split; [repeat constructor|exact NB2]. }
  destruct (fld_ok sg m (i_a i) ([C03Lexer.PComma; PBlank [32]; PSym (amode_char (i_bm i)); PBlank [32]] ++ fld_pieces sg m (i_b i)) 10 eq_refl O3)
    as [OA [ca [ra [EA [NA1 NA2]]]]].
  cbn [app] in EA, OA.
  split.
  - cbn [app ok_before]. split; [|split; [|split; [|split; [|exact OA]]]].
    + apply canon_op_word. reflexivity.
    + cbn [piece_ok flat_map ptext app first_of hd]. split; [discriminate|]. split; [repeat constructor|exact SA1].
    + cbn [flat_map ptext app first_of hd]. apply SP. exact SA2.
    + cbn [piece_ok]. rewrite EA. cbn [first_of hd]. split; [discriminate|]. split; [repeat constructor|exact NA2].
  - destruct (canon_op_word legacy i 32 eq_refl) as [_ [c [r [E Hc]]]]. cbn [app flat_map ptext]. rewrite E.
    eexists _, _. split; [reflexivity|exact Hc].
Qed.

Lemma dir_good kw start : (kw = s2t "ORG" \/ kw = s2t "END") -> good_line (dir_pieces kw start).
Proof.
  intros Hk. unfold dir_pieces. split.
  - cbn [ok_before flat_map ptext app first_of hd]. split; [|split; [|split; [apply num_piece_ok; reflexivity|exact I]]].
    + destruct Hk as [-> | ->]; cbn [piece_ok]; eexists _, _; (split; [reflexivity|]); (split; [reflexivity|]); (split; [repeat constructor|reflexivity]).
    + cbn [piece_ok]. split; [discriminate|]. split; [repeat constructor|].
      destruct (dec_first (Z.to_N start)) as [c0 [l [E D]]]. rewrite E. cbn [app first_of hd]. unfold is_digit_a in D. unfold is_space_a. lia.
  - destruct Hk as [-> | ->]; eexists _, _; (split; [reflexivity|reflexivity]).
Qed.

(* ---------- texts and tokens ---------- *)
Lemma fld_text sg m a : flat_map ptext (fld_pieces sg m a) = canon_field sg m a.
Proof. unfold fld_pieces, canon_field. destruct (_ && _); cbn [flat_map ptext app]; rewrite ?app_nil_r; reflexivity. Qed.
Lemma fld_tokens sg m a : flat_map ptoks (fld_pieces sg m a) = fld_toks sg m a.
Proof. unfold fld_pieces, fld_toks. destruct (_ && _); reflexivity. Qed.
Lemma line_text legacy sg m i : flat_map ptext (line_pieces legacy sg m i) ++ [10] = canon_line legacy sg m i.
Proof.
  unfold line_pieces, canon_line. rewrite !flat_map_app, !fld_text. cbn [flat_map ptext app]. rewrite <- !app_assoc. reflexivity.
Qed.
Lemma line_tokens legacy sg m i : flat_map ptoks (line_pieces legacy sg m i) ++ [nl_tok] = instr_toks legacy sg m i.
Proof.
  unfold line_pieces, instr_toks. rewrite !flat_map_app, !fld_tokens. cbn [flat_map ptoks app newlines]. rewrite <- !app_assoc. reflexivity.
Qed.
Lemma dir_text kw start : flat_map ptext (dir_pieces kw start) ++ [10] = canon_dir kw start.
Proof. unfold dir_pieces, canon_dir. cbn [flat_map ptext app]. rewrite app_nil_r, <- !app_assoc. reflexivity. Qed.
Lemma dir_tokens kw start : flat_map ptoks (dir_pieces kw start) ++ [nl_tok] = dir_toks kw start.
Proof. reflexivity. Qed.

(* ---------- the whole text ---------- *)
Definition canon_lines (legacy sg : bool) (m : N) (code : list instr) (start : Z) : list (list piece) :=
  if legacy then map (line_pieces legacy sg m) code ++ [dir_pieces (s2t "END") start]
  else dir_pieces (s2t "ORG") start :: map (line_pieces legacy sg m) code.

Lemma lines_text legacy sg m code :
  flat_map (fun l => flat_map ptext l ++ [10]) (map (line_pieces legacy sg m) code) = flat_map (canon_line legacy sg m) code.
Proof. induction code as [|i t IH]; [reflexivity|]. cbn [map flat_map]. rewrite line_text, IH. reflexivity. Qed.
Lemma lines_tokens legacy sg m code :
  flat_map (fun l => flat_map ptoks l ++ [nl_tok]) (map (line_pieces legacy sg m) code) = flat_map (instr_toks legacy sg m) code.
Proof. induction code as [|i t IH]; [reflexivity|]. cbn [map flat_map]. rewrite line_tokens, IH. reflexivity. Qed.

Theorem lex_canon legacy sg m code start :
  lex_ascii (canon_print legacy sg m code start) = Some (canon_toks legacy sg m code start).
Proof.
  set (ls := canon_lines legacy sg m code start).
  assert (Hne : ls <> []) by (unfold ls, canon_lines; destruct legacy; [destruct (map _ code); discriminate|discriminate]).
  assert (Hg : Forall good_line ls).
  { unfold ls, canon_lines. destruct legacy.
    - apply Forall_app. split; [apply Forall_map, Forall_forall; intros i _; apply line_good|constructor; [apply dir_good; auto|constructor]].
    - constructor; [apply dir_good; auto|apply Forall_map, Forall_forall; intros i _; apply line_good]. }
  assert (Et : canon_print legacy sg m code start = flat_map ptext (join_pieces ls) ++ [10]).
  { rewrite join_text by exact Hne. unfold ls, canon_lines, canon_print. destruct legacy.
    - rewrite flat_map_app. cbn [flat_map]. rewrite app_nil_r, dir_text, lines_text. reflexivity.
    - cbn [flat_map]. rewrite dir_text, lines_text. reflexivity. }
  assert (Ek : canon_toks legacy sg m code start = flat_map ptoks (join_pieces ls) ++ newlines [10] ++ [tEOF]).
  { change (newlines [10]) with [nl_tok]. rewrite app_assoc. rewrite join_toks by exact Hne.
    unfold ls, canon_lines, canon_toks. f_equal. destruct legacy.
    - rewrite flat_map_app. cbn [flat_map]. rewrite app_nil_r, dir_tokens, lines_tokens. reflexivity.
    - cbn [flat_map]. rewrite dir_tokens, lines_tokens. reflexivity. }
  rewrite Et, Ek. apply lex_text; [repeat constructor|discriminate|apply join_ok; assumption].
Qed.
