(* InvExec.v — whatever the limits are (also above the core size, where Go's
   uint64 arithmetic wraps), one task keeps every field below M and queues only
   program counters below M: every stored value is a "... mod M", a copy of a
   field, or a quotient/remainder of a field. *)
From GM Require Import Base Exec Emi94 VmArith C01Phase C01Exec.
From Coq Require Import Lia ZifyN ZifyBool.
Open Scope N_scope.

Section InvExec.
Variables M rl wl : N.
Variable wi : Z.
Hypothesis HM : 0 < M.

Lemma idx_lt' pc p : idx M pc p < M.
Proof. unfold idx. apply N.mod_lt. lia. Qed.
Lemma dec1_lt x : dec1 M x < M.
Proof. unfold dec1. apply N.mod_lt. lia. Qed.
Lemma inc1_lt x : inc1 M x < M.
Proof. unfold inc1. apply N.mod_lt. lia. Qed.

Lemma phase_inv isB c pc md num :
  cwf M c ->
  let '(c2, _, _, ir, _) := phase M rl wl wi isB c pc md num in
  cwf M c2 /\ wf_i M ir.
Proof.
  intros Hc. unfold phase.
  destruct md; cbn [mode_class]; cbv zeta;
    try (split; [assumption | apply Hc, idx_lt']).
  all: repeat match goal with
       | |- _ /\ _ => split
       | |- cwf _ (upd _ _ _) => apply cwf_upd; [ | apply idx_lt' | ]
       | |- cwf _ _ => assumption
       | |- wf_i _ (setA _ _) => apply wf_setA
       | |- wf_i _ (setB _ _) => apply wf_setB
       | |- dec1 _ _ < _ => apply dec1_lt
       | |- inc1 _ _ < _ => apply inc1_lt
       | |- wf_i _ (get (upd _ _ _) _) => rewrite get_upd
       | |- wf_i _ (if ?b then _ else _) => destruct b
       | |- wf_i _ (get ?c _) => apply Hc; apply idx_lt'
       end.
Qed.

Lemma g_add_lt x y : g_add M x y < M. Proof. unfold g_add. apply N.mod_lt. lia. Qed.
Lemma g_sub_lt x y : g_sub M x y < M. Proof. unfold g_sub. apply N.mod_lt. lia. Qed.
Lemma g_mul_lt x y : g_mul M x y < M. Proof. unfold g_mul. apply N.mod_lt. lia. Qed.

Ltac inv_tac Hc :=
  repeat match goal with
       | |- _ /\ _ => split
       | |- cwf _ (upd _ _ _) => apply cwf_upd; [ | apply idx_lt' | ]
       | |- cwf _ (set _ _ _) => apply cwf_set
       | |- cwf _ (if ?b then _ else _) => destruct b
       | |- cwf _ _ => assumption
       | |- wf_i _ ((fun _ => _) _) => cbv beta
       | |- wf_i _ (setA _ _) => apply wf_setA
       | |- wf_i _ (setB _ _) => apply wf_setB
       | |- dec1 _ _ < _ => apply dec1_lt
       | |- inc1 _ _ < _ => apply inc1_lt
       | |- g_add _ _ _ < _ => apply g_add_lt
       | |- g_sub _ _ _ < _ => apply g_sub_lt
       | |- g_mul _ _ _ < _ => apply g_mul_lt
       | |- _ mod M < M => apply N.mod_lt; lia
       | |- _ / _ < _ => apply div_lt_M
       | |- _ mod _ < _ => apply mod_lt_M'
       | |- wf_i _ (get (upd _ _ _) _) => rewrite get_upd
       | |- wf_i _ (if ?b then _ else _) => destruct b
       | |- wf_i _ (get ?c _) => apply Hc; apply idx_lt'
       | H : wf_i _ ?i |- i_a ?i < _ => exact (proj1 H)
       | H : wf_i _ ?i |- i_b ?i < _ => exact (proj2 H)
       | H : wf_i _ ?i |- wf_i _ ?i => exact H
       | |- Forall _ [] => constructor
       | |- Forall _ (_ :: _) => constructor
       | |- (if ?b then _ else _) < _ => destruct b
       | |- idx _ _ _ < _ => apply idx_lt'
       | |- _ mod M < M => apply N.mod_lt; lia
       end.

Theorem exec_inv c pc :
  cwf M c -> pc < M ->
  let '(c', pushes, _) := exec M rl wl wi c pc in
  cwf M c' /\ Forall (fun x => x < M) pushes.
Proof.
  intros Hc Hpc. unfold exec.
  set (IR := get c pc).
  pose proof (phase_inv false c pc (i_am IR) (i_a IR) Hc) as PA.
  destruct (phase M rl wl wi false c pc (i_am IR) (i_a IR)) as [[[[c1 rpa] wpa] ira] repA].
  destruct PA as [Hc1 Hira].
  pose proof (phase_inv true c1 pc (i_bm IR) (i_b IR) Hc1) as PB.
  destruct (phase M rl wl wi true c1 pc (i_bm IR) (i_b IR)) as [[[[c2 rpb] wpb] irb] repB].
  destruct PB as [Hc2 Hirb].
  destruct (i_op IR); destruct (i_md IR); cbv zeta;
    unfold op_mov, op_arith, op_divlike, op_djn;
    repeat match goal with |- context [?x =? 0] => destruct (x =? 0) end;
    cbn [negb orb andb];
    inv_tac Hc2.
Qed.
End InvExec.
