(* C09GenParse.v — the parser stage on load-file documents at the token level:
   instruction lines with or without a trailing remark, the ORG / END line, blank
   lines and comment lines, the last line with or without its line end. *)
From GM Require Import Base Text Token Lexer Scanner ExprSpec ExprEval ForExpand Parser Sim Compile
     Meaning Render LoadPrint C03Lexer C09Parse.
From Coq Require Import Lia.
Open Scope N_scope.

Inductive elem :=
| EInstr (op : text) (am : N) (A : list token) (bm : N) (B : list token) (cmt : option text)
| EDir (kw : text) (e : list token)
| EBlank
| EComment (c : text).

Definition elem_toks (x : elem) : list token :=
  match x with
  | EInstr op am A bm B cmt =>
    [mkT tokText op; sym [am]] ++ A ++ [mkT tokComma [44]; sym [bm]] ++ B
    ++ (match cmt with Some c => [mkT tokComment c] | None => [] end)
  | EDir kw e => mkT tokText kw :: e
  | EBlank => []
  | EComment c => [mkT tokComment c]
  end.

(* every element is followed by a line end, except perhaps the last one *)
Fixpoint doc_body (es : list elem) (final_nl : bool) : list token :=
  match es with
  | [] => []
  | [x] => elem_toks x ++ (if final_nl then [nl_tok] else [])
  | x :: t => elem_toks x ++ nl_tok :: doc_body t final_nl
  end.
Definition doc_toks (es : list elem) (final_nl : bool) : list token := doc_body es final_nl ++ [tEOF].

Definition set_comment (c : sline) (cm : text) : sline :=
  mkSL (sl_line c) (sl_codeline c) (sl_typ c) (sl_labels c) (sl_op c) (sl_amode c) (sl_a c) (sl_bmode c) (sl_b c) cm (sl_newlines c).

Definition instr_line (L C : Z) (op : text) (am : N) (A : list token) (bm : N) (B : list token) (cmt : option text) (nl : Z) : sline :=
  mkSL L C lineInstruction [] op [am] A [bm] B (match cmt with Some c => c | None => [] end) nl.
Definition dir_line (L : Z) (kw : text) (e : list token) (nl : Z) : sline := mkSL L 0 linePseudoOp [] kw [] e [] [] [] nl.
Definition blank_line (L : Z) : sline := mkSL L 0 lineEmpty [] [] [] [] [] [] [] 1.
Definition comment_line (L : Z) (c : text) (nl : Z) : sline := mkSL L 0 lineComment [] [] [] [] [] [] c nl.

(* what the parser makes of a document; it stops after an END line *)
Fixpoint doc_slines (es : list elem) (final_nl : bool) (L C : Z) : list sline :=
  match es with
  | [] => []
  | x :: t =>
    let nl := match t with [] => if final_nl then 1%Z else 0%Z | _ => 1%Z end in
    match x with
    | EInstr op am A bm B cmt => instr_line L C op am A bm B cmt nl :: doc_slines t final_nl (L + 1) (C + 1)
    | EDir kw e => dir_line L kw e nl :: (if lower_is kw "end" then [] else doc_slines t final_nl (L + 1) C)
    | EBlank => blank_line L :: doc_slines t final_nl (L + 1) C
    | EComment c => comment_line L c nl :: doc_slines t final_nl (L + 1) C
    end
  end.
Fixpoint doc_meta (es : list elem) (mt : pmeta) : pmeta :=
  match es with
  | [] => mt
  | EComment c :: t => doc_meta t (read_metadata mt c)
  | EDir kw _ :: t => if lower_is kw "end" then mt else doc_meta t mt
  | _ :: t => doc_meta t mt
  end.

(* well-formed elements *)
Definition expr_ok (e : list token) : Prop :=
  Forall plain_term e /\ e <> [] /\ tok_is_expr_term (hd tEOF e) = true.
Definition elem_ok (x : elem) : Prop :=
  match x with
  | EInstr op am A bm B _ =>
    tok_is_op (mkT tokText op) = true /\ tok_is_pseudo (mkT tokText op) = false /\
    tok_is_amode (sym [am]) = true /\ tok_is_amode (sym [bm]) = true /\ expr_ok A /\ expr_ok B
  | EDir kw e => tok_is_op (mkT tokText kw) = true /\ tok_is_pseudo (mkT tokText kw) = true /\ expr_ok e
  | _ => True
  end.
(* a blank line is followed by something that is not a blank line; the last element is a proper line *)
Fixpoint shape_ok (es : list elem) : Prop :=
  match es with
  | [] => False
  | [x] => match x with EInstr _ _ _ _ _ _ | EDir _ _ => True | _ => False end
  | x :: ((y :: _) as t) => (match x, y with EBlank, EBlank => False | _, _ => True end) /\ shape_ok t
  end.

(* ---------- more single state functions ---------- *)
Section WithMeta.
Variable mt : pmeta.
Notation pp := (ppos mt).

Lemma st_expr_b_eof e L C cur lines en :
  Forall plain_term e -> sl_b cur = [] ->
  parse_step PExprB (pp (e ++ [tEOF]) L C cur lines en) = (pp [tEOF] L C (set_b cur e) (lines ++ [set_b cur e]) en, Some PLine).
Proof.
  intros He Hb. cbn [parse_step].
  replace (p_refs (pp (e ++ [tEOF]) L C cur lines en)) with (@nil text) by (destruct e; reflexivity).
  replace (sl_b (p_cur (pp (e ++ [tEOF]) L C cur lines en))) with (@nil token) by (destruct e; cbn; congruence).
  rewrite (expr_loop_run mt e _ tEOF [] L C cur lines en [] He eq_refl).
  - cbn [app]. reflexivity.
  - destruct e as [|t0 e0]; cbn [app ppos p_toks length]; [lia|]. rewrite app_length. cbn [length]. lia.
Qed.
Lemma st_expr_b_comment e c rest L C cur lines en :
  Forall plain_term e -> sl_b cur = [] ->
  parse_step PExprB (pp (e ++ mkT tokComment c :: rest) L C cur lines en) =
  (pp (mkT tokComment c :: rest) L C (set_b cur e) lines en, Some Parser.PComment).
Proof.
  intros He Hb. cbn [parse_step].
  replace (p_refs (pp (e ++ mkT tokComment c :: rest) L C cur lines en)) with (@nil text) by (destruct e; reflexivity).
  replace (sl_b (p_cur (pp (e ++ mkT tokComment c :: rest) L C cur lines en))) with (@nil token) by (destruct e; cbn; congruence).
  rewrite (expr_loop_run mt e _ (mkT tokComment c) rest L C cur lines en [] He eq_refl).
  - cbn [app]. reflexivity.
  - destruct e as [|t0 e0]; cbn [app ppos p_toks length]; [lia|]. rewrite app_length. cbn [length]. lia.
Qed.
Lemma st_pseudo_expr_eof e L C cur lines en :
  Forall plain_term e -> sl_a cur = [] ->
  parse_step PPseudoExpr (pp (e ++ [tEOF]) L C cur lines en) = (pp [tEOF] L C (set_a cur e) (lines ++ [set_a cur e]) en, Some PLine).
Proof.
  intros He Ha. cbn [parse_step].
  replace (p_refs (pp (e ++ [tEOF]) L C cur lines en)) with (@nil text) by (destruct e; reflexivity).
  replace (sl_a (p_cur (pp (e ++ [tEOF]) L C cur lines en))) with (@nil token) by (destruct e; cbn; congruence).
  rewrite (expr_loop_run mt e _ tEOF [] L C cur lines en [] He eq_refl).
  - cbn [app]. reflexivity.
  - destruct e as [|t0 e0]; cbn [app ppos p_toks length]; [lia|]. rewrite app_length. cbn [length]. lia.
Qed.

Lemma st_comment_nl c t' rest L C cur lines en :
  parse_step Parser.PComment (pp (mkT tokComment c :: nl_tok :: t' :: rest) L C cur lines en) =
  (pp (t' :: rest) (L + 1)%Z C (add_newline (set_comment cur c)) (lines ++ [add_newline (set_comment cur c)]) en, Some PLine).
Proof. reflexivity. Qed.
Lemma st_comment_eof c L C cur lines en :
  parse_step Parser.PComment (pp [mkT tokComment c; tEOF] L C cur lines en) =
  (pp [tEOF] L C (set_comment cur c) (lines ++ [set_comment cur c]) en, None).
Proof. reflexivity. Qed.

Lemma st_line_eof L C cur lines : parse_step PLine (pp [tEOF] L C cur lines false) = (pp [tEOF] L C (empty_sline L) lines false, None).
Proof. reflexivity. Qed.
Lemma st_line_ended l L C cur lines : parse_step PLine (pp l L C cur lines true) = (pp l L C cur lines true, None).
Proof. destruct l; reflexivity. Qed.

Lemma st_line_nl r L C cur lines :
  parse_step PLine (pp (nl_tok :: r) L C cur lines false) = (pp (nl_tok :: r) L C (empty_sline L) lines false, Some PEmptyLines).
Proof. reflexivity. Qed.
Lemma st_empty_one t' rest L C lines :
  t_typ t' <> tokNewline ->
  parse_step PEmptyLines (pp (nl_tok :: t' :: rest) L C (empty_sline L) lines false) =
  (pp (t' :: rest) (L + 1)%Z C (blank_line L) (lines ++ [blank_line L]) false, Some PLine).
Proof.
  intros H. cbn [parse_step ppos p_toks length]. cbn [p_nt nl_tok t_typ].
  rewrite pnext_ppos || idtac.
  cbn. destruct (t_typ t'); try reflexivity. congruence.
Qed.

Lemma st_line_comment c r L C cur lines :
  parse_step PLine (pp (mkT tokComment c :: r) L C cur lines false) =
  (ppos (read_metadata mt c) (mkT tokComment c :: r) L C (mkSL L 0 lineComment [] [] [] [] [] [] [] 0) lines false, Some Parser.PComment).
Proof. reflexivity. Qed.

(* ---------- from the start of an instruction line to its B expression ---------- *)
Definition cur_b (L C : Z) (op : text) (am : N) (A : list token) (bm : N) : sline :=
  set_bmode (set_a (set_amode (set_op (empty_sline L) C lineInstruction op) [am]) A) [bm].

Lemma instr_prefix_run op am A bm B rest L C cur lines f :
  tok_is_op (mkT tokText op) = true -> tok_is_pseudo (mkT tokText op) = false ->
  tok_is_amode (sym [am]) = true -> tok_is_amode (sym [bm]) = true -> expr_ok A -> expr_ok B ->
  parse_run (7 + f) PLine (pp ([mkT tokText op; sym [am]] ++ A ++ [mkT tokComma [44]; sym [bm]] ++ B ++ rest) L C cur lines false) =
  parse_run f PExprB (pp (B ++ rest) L (C + 1)%Z (cur_b L C op am A bm) lines false).
Proof.
  intros O1 O2 A1 B1 [FA1 [FA2 FA3]] [FB1 [FB2 FB3]].
  cbn [app]. rewrite <- ?app_assoc. cbn [app].
  change (7 + f)%nat with (S (S (S (S (S (S (S f))))))).
  rewrite parse_run_S, st_line_text by reflexivity.
  rewrite parse_run_S, st_labels_op by (try reflexivity; exact O1). rewrite O2.
  rewrite parse_run_S, st_op by (try discriminate; exact A1).
  destruct A as [|a0 A'] eqn:EA; [congruence|]. cbn [hd] in FA3.
  cbn [app]. rewrite parse_run_S, st_mode_a by (try discriminate; exact FA3).
  change (a0 :: A' ++ mkT tokComma [44] :: sym [bm] :: B ++ rest) with ((a0 :: A') ++ mkT tokComma [44] :: sym [bm] :: B ++ rest).
  rewrite parse_run_S, st_expr_a by (try exact FA1; reflexivity).
  rewrite parse_run_S, st_comma by exact B1.
  destruct B as [|b0 B'] eqn:EB; [congruence|]. cbn [hd] in FB3.
  cbn [app]. rewrite parse_run_S, st_mode_b by (try discriminate; exact FB3).
  reflexivity.
Qed.

Lemma dir_prefix_run kw e rest L C cur lines f :
  tok_is_op (mkT tokText kw) = true -> tok_is_pseudo (mkT tokText kw) = true -> expr_ok e ->
  parse_run (3 + f) PLine (pp (mkT tokText kw :: e ++ rest) L C cur lines false) =
  parse_run f PPseudoExpr (pp (e ++ rest) L C (set_op (empty_sline L) 0 linePseudoOp kw) lines (lower_is kw "end")).
Proof.
  intros O1 O2 [E1 [E2 E3]].
  change (3 + f)%nat with (S (S (S f))).
  rewrite parse_run_S, st_line_text by reflexivity.
  rewrite parse_run_S, st_labels_op by (try reflexivity; exact O1). rewrite O2.
  destruct e as [|e0 e'] eqn:Ee; [congruence|]. cbn [hd] in E3. cbn [app].
  rewrite parse_run_S, st_pseudo_op by (try discriminate; exact E3).
  reflexivity.
Qed.
End WithMeta.

(* ---------- whole documents ---------- *)
Lemma doc_toks_cons x y t fnl : doc_toks (x :: y :: t) fnl = elem_toks x ++ nl_tok :: doc_toks (y :: t) fnl.
Proof. unfold doc_toks. cbn [doc_body]. rewrite <- app_assoc. reflexivity. Qed.
Lemma doc_toks_one x fnl : doc_toks [x] fnl = elem_toks x ++ (if fnl then [nl_tok; tEOF] else [tEOF]).
Proof. unfold doc_toks. cbn [doc_body]. rewrite <- app_assoc. destruct fnl; reflexivity. Qed.
Lemma doc_toks_first y t fnl : elem_ok y -> (match y with EBlank => False | _ => True end) ->
  exists t0 r, doc_toks (y :: t) fnl = t0 :: r /\ t_typ t0 <> tokNewline.
Proof.
  intros Hy Hb. destruct t as [|z t'].
  - rewrite doc_toks_one. destruct y; try contradiction; cbn [elem_toks app]; eexists _, _; (split; [reflexivity|discriminate]).
  - rewrite doc_toks_cons. destruct y; try contradiction; cbn [elem_toks app]; eexists _, _; (split; [reflexivity|discriminate]).
Qed.

Definition finished (pf : parser) (lines : list sline) (mt : pmeta) : Prop :=
  p_err pf = false /\ p_refs pf = [] /\ p_lines pf = lines /\ p_meta pf = mt.

Lemma body_len_cons x y t fnl : length (doc_body (x :: y :: t) fnl) = (length (elem_toks x) + 1 + length (doc_body (y :: t) fnl))%nat.
Proof. cbn [doc_body]. rewrite app_length. cbn [length]. lia. Qed.

Theorem doc_run : forall es, Forall elem_ok es -> shape_ok es ->
  forall fnl mt L C cur lines,
  exists n pf, (n <= 4 * length (doc_body es fnl) + 2)%nat /\
    (forall f, parse_run (n + f) PLine (ppos mt (doc_toks es fnl) L C cur lines false) = Some pf) /\
    finished pf (lines ++ doc_slines es fnl L C) (doc_meta es mt).
Proof.
  induction es as [|x t IH]; intros Hok Hsh fnl mt L C cur lines; [destruct Hsh|].
  inversion Hok as [|x' t' Hx Ht]; subst.
  destruct t as [|y t2].
  - (* the last element *)
    rewrite doc_toks_one. cbn [doc_slines doc_body].
    destruct x as [op am A bm B cmt|kw e| |c]; try (destruct Hsh; fail).
    + destruct Hx as [O1 [O2 [A1 [B1 [HA HB]]]]]. cbn [elem_toks doc_meta].
      assert (LB : (6 <= length ([mkT tokText op; sym [am]] ++ A ++ [mkT tokComma [44%N]; sym [bm]] ++ B))%nat).
      { destruct HA as [_ [HA _]], HB as [_ [HB _]]. cbn [app length]. rewrite !app_length. cbn [length].
        destruct A; [congruence|]. destruct B; [congruence|]. cbn [length]. lia. }
      destruct cmt as [c|], fnl.
      * exists 10%nat. eexists. split; [rewrite !app_length; rewrite !app_length in LB; cbn [length] in *; lia|]. split.
        -- intros f. change (10 + f)%nat with (7 + S (S (S f)))%nat. rewrite <- !app_assoc.
           rewrite (instr_prefix_run mt op am A bm B _ L C cur lines) by assumption.
           rewrite parse_run_S. cbn [app]. rewrite st_expr_b_comment by (try apply HB; reflexivity).
           rewrite parse_run_S, st_comment_nl. rewrite parse_run_S, st_line_eof. reflexivity.
        -- repeat split; reflexivity.
      * exists 9%nat. eexists. split; [rewrite !app_length; rewrite !app_length in LB; cbn [length] in *; lia|]. split.
        -- intros f. change (9 + f)%nat with (7 + S (S f))%nat. rewrite <- !app_assoc.
           rewrite (instr_prefix_run mt op am A bm B _ L C cur lines) by assumption.
           rewrite parse_run_S. cbn [app]. rewrite st_expr_b_comment by (try apply HB; reflexivity).
           rewrite parse_run_S, st_comment_eof. reflexivity.
        -- repeat split; reflexivity.
      * exists 9%nat. eexists. split; [rewrite !app_length; rewrite !app_length in LB; cbn [length] in *; lia|]. split.
        -- intros f. change (9 + f)%nat with (7 + S (S f))%nat. rewrite <- !app_assoc. rewrite app_nil_l.
           rewrite (instr_prefix_run mt op am A bm B _ L C cur lines) by assumption.
           rewrite parse_run_S. rewrite st_expr_b by (try apply HB; reflexivity).
           rewrite parse_run_S, st_line_eof. reflexivity.
        -- repeat split; reflexivity.
      * exists 9%nat. eexists. split; [rewrite !app_length; rewrite !app_length in LB; cbn [length] in *; lia|]. split.
        -- intros f. change (9 + f)%nat with (7 + S (S f))%nat. rewrite <- !app_assoc. rewrite app_nil_l.
           rewrite (instr_prefix_run mt op am A bm B _ L C cur lines) by assumption.
           rewrite parse_run_S. rewrite st_expr_b_eof by (try apply HB; reflexivity).
           rewrite parse_run_S, st_line_eof. reflexivity.
        -- repeat split; reflexivity.
    + destruct Hx as [O1 [O2 He]]. cbn [elem_toks doc_meta].
      assert (LE : (1 <= length e)%nat) by (destruct He as [_ [He _]]; destruct e; [congruence|cbn; lia]).
      destruct fnl, (lower_is kw "end") eqn:Ek.
      * exists 5%nat. eexists. split; [cbn [length app]; rewrite ?app_length; cbn [length]; lia|]. split.
        -- intros f. change (5 + f)%nat with (3 + S (S f))%nat. cbn [app]. rewrite <- ?app_assoc.
           rewrite (dir_prefix_run mt kw e _ L C cur lines) by assumption.
           rewrite parse_run_S. cbn [app]. rewrite st_pseudo_expr by (try apply He; reflexivity).
           rewrite parse_run_S, Ek, st_line_ended. reflexivity.
        -- repeat split; reflexivity.
      * exists 5%nat. eexists. split; [cbn [length app]; rewrite ?app_length; cbn [length]; lia|]. split.
        -- intros f. change (5 + f)%nat with (3 + S (S f))%nat. cbn [app]. rewrite <- ?app_assoc.
           rewrite (dir_prefix_run mt kw e _ L C cur lines) by assumption.
           rewrite parse_run_S. cbn [app]. rewrite st_pseudo_expr by (try apply He; reflexivity).
           rewrite parse_run_S, Ek, st_line_eof. reflexivity.
        -- repeat split; reflexivity.
      * exists 5%nat. eexists. split; [cbn [length app]; rewrite ?app_length; cbn [length]; lia|]. split.
        -- intros f. change (5 + f)%nat with (3 + S (S f))%nat. cbn [app]. rewrite <- ?app_assoc.
           rewrite (dir_prefix_run mt kw e _ L C cur lines) by assumption.
           rewrite parse_run_S. cbn [app]. rewrite st_pseudo_expr_eof by (try apply He; reflexivity).
           rewrite parse_run_S, Ek, st_line_ended. reflexivity.
        -- repeat split; reflexivity.
      * exists 5%nat. eexists. split; [cbn [length app]; rewrite ?app_length; cbn [length]; lia|]. split.
        -- intros f. change (5 + f)%nat with (3 + S (S f))%nat. cbn [app]. rewrite <- ?app_assoc.
           rewrite (dir_prefix_run mt kw e _ L C cur lines) by assumption.
           rewrite parse_run_S. cbn [app]. rewrite st_pseudo_expr_eof by (try apply He; reflexivity).
           rewrite parse_run_S, Ek, st_line_eof. reflexivity.
        -- repeat split; reflexivity.
  - (* an element followed by its line end and more *)
    destruct Hsh as [Hxy Hsh]. rewrite doc_toks_cons. rewrite body_len_cons.
    assert (Hy : elem_ok y) by (inversion Ht; assumption).
    cbn [doc_slines].
    destruct x as [op am A bm B cmt|kw e| |c].
    + destruct Hx as [O1 [O2 [A1 [B1 [HA HB]]]]]. cbn [elem_toks doc_meta].
      assert (LB : (6 <= length ([mkT tokText op; sym [am]] ++ A ++ [mkT tokComma [44%N]; sym [bm]] ++ B))%nat).
      { destruct HA as [_ [HA _]], HB as [_ [HB _]]. cbn [app length]. rewrite !app_length. cbn [length].
        destruct A; [congruence|]. destruct B; [congruence|]. cbn [length]. lia. }
      destruct (doc_toks (y :: t2) fnl) as [|t0 r] eqn:Ed; [unfold doc_toks in Ed; destruct (doc_body (y :: t2) fnl); discriminate Ed|].
      destruct cmt as [c|].
      * destruct (IH Ht Hsh fnl mt (L + 1)%Z (C + 1)%Z (add_newline (set_comment (set_b (cur_b L C op am A bm) B) c))
                     (lines ++ [add_newline (set_comment (set_b (cur_b L C op am A bm) B) c)])) as [n [pf [Hn [Hr Hf]]]].
        exists (9 + n)%nat, pf. split; [rewrite !app_length; rewrite !app_length in LB; cbn [length] in *; lia|]. split.
        -- intros f. replace (9 + n + f)%nat with (7 + S (S (n + f)))%nat by lia. rewrite <- !app_assoc.
           rewrite (instr_prefix_run mt op am A bm B _ L C cur lines) by assumption.
           rewrite parse_run_S. cbn [app]. rewrite st_expr_b_comment by (try apply HB; reflexivity).
           rewrite parse_run_S, st_comment_nl. rewrite <- Ed. apply Hr.
        -- rewrite <- app_assoc in Hf. exact Hf.
      * destruct (IH Ht Hsh fnl mt (L + 1)%Z (C + 1)%Z (add_newline (set_b (cur_b L C op am A bm) B))
                     (lines ++ [add_newline (set_b (cur_b L C op am A bm) B)])) as [n [pf [Hn [Hr Hf]]]].
        exists (8 + n)%nat, pf. split; [rewrite !app_length; rewrite !app_length in LB; cbn [length] in *; lia|]. split.
        -- intros f. replace (8 + n + f)%nat with (7 + S (n + f))%nat by lia. rewrite <- !app_assoc. rewrite app_nil_l.
           rewrite (instr_prefix_run mt op am A bm B _ L C cur lines) by assumption.
           rewrite parse_run_S. rewrite st_expr_b by (try apply HB; reflexivity). rewrite <- Ed. apply Hr.
        -- rewrite <- app_assoc in Hf. exact Hf.
    + destruct Hx as [O1 [O2 He]]. cbn [elem_toks doc_meta].
      assert (LE : (1 <= length e)%nat) by (destruct He as [_ [He _]]; destruct e; [congruence|cbn; lia]).
      destruct (doc_toks (y :: t2) fnl) as [|t0 r] eqn:Ed; [unfold doc_toks in Ed; destruct (doc_body (y :: t2) fnl); discriminate Ed|].
      destruct (lower_is kw "end") eqn:Ek.
      * exists 5%nat. eexists. split; [cbn [length app]; rewrite ?app_length; cbn [length]; lia|]. split.
        -- intros f. change (5 + f)%nat with (3 + S (S f))%nat. cbn [app]. rewrite <- ?app_assoc.
           rewrite (dir_prefix_run mt kw e _ L C cur lines) by assumption.
           rewrite parse_run_S. cbn [app]. rewrite st_pseudo_expr by (try apply He; reflexivity).
           rewrite parse_run_S. rewrite Ek. rewrite st_line_ended. reflexivity.
        -- repeat split; reflexivity.
      * destruct (IH Ht Hsh fnl mt (L + 1)%Z C (add_newline (set_a (set_op (empty_sline L) 0 linePseudoOp kw) e))
                     (lines ++ [add_newline (set_a (set_op (empty_sline L) 0 linePseudoOp kw) e)])) as [n [pf [Hn [Hr Hf]]]].
        exists (4 + n)%nat, pf. split; [cbn [length app]; rewrite ?app_length; cbn [length]; lia|]. split.
        -- intros f. replace (4 + n + f)%nat with (3 + S (n + f))%nat by lia. cbn [app]. rewrite <- ?app_assoc.
           rewrite (dir_prefix_run mt kw e _ L C cur lines) by assumption.
           rewrite parse_run_S. cbn [app]. rewrite st_pseudo_expr by (try apply He; reflexivity). rewrite Ek, <- Ed. apply Hr.
        -- rewrite <- app_assoc in Hf. exact Hf.
    + (* a blank line *)
      cbn [elem_toks app doc_meta length].
      destruct (doc_toks_first y t2 fnl Hy ltac:(destruct y; try exact I; exact Hxy)) as [t0 [r [Ed Hnn]]].
      destruct (IH Ht Hsh fnl mt (L + 1)%Z C (blank_line L) (lines ++ [blank_line L])) as [n [pf [Hn [Hr Hf]]]].
      exists (2 + n)%nat, pf. split; [lia|]. split.
      * intros f. replace (2 + n + f)%nat with (S (S (n + f))) by lia. rewrite Ed.
        rewrite parse_run_S, st_line_nl. rewrite parse_run_S, st_empty_one by exact Hnn. rewrite <- Ed. apply Hr.
      * rewrite <- app_assoc in Hf. exact Hf.
    + (* a comment line *)
      cbn [elem_toks app doc_meta length].
      destruct (doc_toks (y :: t2) fnl) as [|t0 r] eqn:Ed; [unfold doc_toks in Ed; destruct (doc_body (y :: t2) fnl); discriminate Ed|].
      destruct (IH Ht Hsh fnl (read_metadata mt c) (L + 1)%Z C (comment_line L c 1) (lines ++ [comment_line L c 1])) as [n [pf [Hn [Hr Hf]]]].
      exists (2 + n)%nat, pf. split; [lia|]. split.
      * intros f. replace (2 + n + f)%nat with (S (S (n + f))) by lia.
        rewrite parse_run_S, st_line_comment. rewrite parse_run_S, st_comment_nl. rewrite <- Ed. apply Hr.
      * rewrite <- app_assoc in Hf. exact Hf.
Qed.

Theorem parse_doc es fnl : Forall elem_ok es -> shape_ok es ->
  parse (doc_toks es fnl) = Some (Some (doc_slines es fnl 1 0, doc_meta es (mkPM [] [] []))).
Proof.
  intros Hok Hsh. unfold parse.
  destruct (doc_toks es fnl) as [|x y] eqn:Ed; [unfold doc_toks in Ed; destruct (doc_body es fnl); discriminate Ed|].
  change (pnext (mkP (x :: y) (mkT tokError []) false 1 0 false (empty_sline 1) (mkPM [] [] []) false [] predefined []))
    with (ppos (mkPM [] [] []) (x :: y) 1 0 (empty_sline 1) [] false).
  rewrite <- Ed.
  destruct (doc_run es Hok Hsh fnl (mkPM [] [] []) 1%Z 0%Z (empty_sline 1) []) as [n [pf [Hn [Hr [F1 [F2 [F3 F4]]]]]]].
  assert (Hl : length (doc_toks es fnl) = S (length (doc_body es fnl))) by (unfold doc_toks; rewrite app_length; cbn [length]; lia).
  replace (4 * length (doc_toks es fnl) + 10)%nat with (n + (4 * length (doc_toks es fnl) + 10 - n))%nat by lia.
  rewrite Hr, F1, F2, F3, F4. reflexivity.
Qed.
