(* C08Count.v — the count of a FOR block: the model's ExpandAndEvaluate over the symbols in front of the block gives
   the value the reference (Meaning.value_at over the EQU definitions in front, no labels) gives.  The reference
   substitutes pass by pass with the definitions as written; the model substitutes once with its table of resolved
   values; both arrive at the full substitution (C03Equ.passes_full, C14Expand.subst_is_fs) and both evaluators agree
   on it (C07Inverse). *)
From GM Require Import Base Text Token Lexer Scanner ExprSpec ExprEval ForExpand Parser Sim Compile
     Prog Meaning AsmSpec C03Lexer C03Proof C06Proof C07Parser C07Signs C07Proof C07Model C07Inverse C10Proof C14Proof
     EquFuel SubstFuel C14Expand C03Equ C09Proof C09Parse C09Compile C09GenCompile C03Parse C03Compile C03EquCompile.
From Coq Require Import Lia.
Open Scope Z_scope.

Section Count.
Variable spell : N -> text.
Variable cf : mconf.
Variable ev : env.
Variable tbl : symtab.
Variable m : Z.
Hypothesis Htab : tables_ok spell cf ev [] tbl [] m 0.
Hypothesis Hnn : env_nn ev.

Theorem count_value e v : Forall nn_ntok (nprint e) -> value_at cf ev [] 0 e = MV v ->
  graph_has_cycle (build_graph tbl) = Some false ->
  expand_and_evaluate (etoks spell e) tbl = Some (EOk v).
Proof.
  intros Hn H Hac. unfold expand_and_evaluate. rewrite Hac.
  destruct (expand_expressions_succeeds tbl Hac) as [res Hres]. rewrite Hres.
  destruct (resolved_table tbl res Hres) as [Hfsi Hall].
  unfold value_at in H.
  destruct (subst_all (S (S (length ev))) cf ev [] 0 (nprint e)) as [r|] eqn:Es; [|discriminate].
  destruct (eval_tokens r) as [w|] eqn:Ew; [|discriminate]. destruct (in_int32 w) eqn:Ei; [|discriminate]. inversion H; subst w.
  destruct (subst_all_passes spell cf ev [] tbl [] [] m 0 Htab _ _ _ Es) as [k Hk].
  fold (etoks spell e) in Hk.
  destruct (passes_full tbl [] [] m 0 k (etoks spell e) (map inj r) Hk (inj_not_text r)) as [ER [Hkf Hal]].
  assert (Htf : textfree (fs tbl k (etoks spell e))).
  { eapply Forall_impl; [|exact Hal]. intros t Ht X. destruct (Ht X) as [_ Hl]. apply Hl. reflexivity. }
  rewrite (L_textfree tbl [] m 0 _ Htf) in ER.
  destruct (subst_is_fs tbl res Hfsi (etoks spell e)) as [m0 Hm0].
  { intros t _ _ Hs. apply Hall. exact Hs. }
  rewrite (Hm0 (Nat.max m0 k) (Nat.le_max_l _ _)).
  rewrite (fs_stable_le tbl k (S (Nat.max m0 k)) (etoks spell e)) by (try lia; exact Hkf).
  rewrite <- ER.
  rewrite (evaluate_accepted r v (subst_all_nn cf ev [] 0 Hnn _ _ _ Hn Es) Ew). rewrite <- in_int32_ok, Ei. reflexivity.
Qed.
End Count.

(* ---------- the table the expander is given: the EQU definitions in front of the block, then the constants ---------- *)
Section Table.
Variable spell : N -> text.
Variable cfg : config.
Variable ev : env.
Hypothesis Hsp : spell_ok spell (map fst ev).

Definition count_table : symtab := equ_entries spell ev ++ load_constants cfg.

Lemma entries_keys : map fst (equ_entries spell ev) = map spell (map fst ev).
Proof. unfold equ_entries. rewrite !map_map. reflexivity. Qed.

Lemma entry_not_predefined k : In k (map fst (equ_entries spell ev)) -> ~ In k predefined.
Proof.
  rewrite entries_keys. intros H. apply in_map_iff in H. destruct H as [id [<- Hid]].
  destruct Hsp as [_ Hlab _ _ _]. apply (Hlab id Hid).
Qed.

Lemma with_constants_entries : with_constants cfg (equ_entries spell ev) = count_table.
Proof.
  unfold with_constants, load_constants, count_table. cbn [fold_left fst snd].
  assert (F : forall k, In k predefined -> ~ In k (map fst (equ_entries spell ev))).
  { intros k Hk X. apply (entry_not_predefined k X Hk). }
  rewrite (sym_set_fresh (s2t "CORESIZE")) by (apply F; cbn; auto).
  rewrite (sym_set_fresh (s2t "MAXLENGTH")).
  2: { rewrite map_app. intros X. apply in_app_or in X. destruct X as [X|X]; [revert X; apply F; cbn; auto|].
       cbn [map fst In] in X. destruct X as [X|[]]. vm_compute in X. discriminate X. }
  rewrite (sym_set_fresh (s2t "MAXPROCESSES")).
  2: { rewrite !map_app. intros X. apply in_app_or in X. destruct X as [X|X]; [apply in_app_or in X; destruct X as [X|X]; [revert X; apply F; cbn; auto|]|];
       cbn [map fst In] in X; destruct X as [X|[]]; vm_compute in X; discriminate X. }
  rewrite (sym_set_fresh (s2t "MINDISTANCE")).
  2: { rewrite !map_app. intros X. apply in_app_or in X. destruct X as [X|X]; [apply in_app_or in X; destruct X as [X|X]; [apply in_app_or in X; destruct X as [X|X]; [revert X; apply F; cbn; auto 10|]|]|];
       cbn [map fst In] in X; destruct X as [X|[]]; vm_compute in X; discriminate X. }
  rewrite <- !app_assoc. reflexivity.
Qed.

Lemma find_swap k : sym_find k count_table = sym_find k (raw_table spell cfg ev).
Proof.
  unfold count_table, raw_table. rewrite !sym_find_app.
  destruct (sym_find k (equ_entries spell ev)) as [v|] eqn:E.
  - rewrite (constants_none cfg k); [reflexivity|]. apply entry_not_predefined. apply (sym_find_in _ _ _ E).
  - destruct (sym_find k (load_constants cfg)); reflexivity.
Qed.

Lemma count_tables : tables_ok spell (mconf_of cfg) ev [] count_table [] (Z.of_N (c_size cfg)) 0.
Proof.
  assert (Hsp' : spell_ok spell (map fst (@nil (N * Z)) ++ map fst ev)) by exact Hsp.
  pose proof (tables_hold spell cfg ev [] 0 Hsp') as H.
  assert (H0 : forall id a, lab_find' id [] = Some a -> Z.abs (a - 0) < Z.of_N (c_size cfg)) by (intros id a X; discriminate X).
  specialize (H H0). unfold tables_ok in *. intros id. specialize (H id). rewrite ?find_swap. exact H.
Qed.

Lemma count_acyclic rkN : ranked spell ev rkN -> graph_has_cycle (build_graph count_table) = Some false.
Proof.
  intros Hrk. destruct Hsp as [_ Hlab Hinj _ _].
  apply (ranked_no_cycle _ (rk_text spell ev rkN)).
  intros k refs r Hg Hr. rewrite build_graph_bg in Hg. destruct (bg_in _ _ _ _ Hg) as [v [Hin Eref]]. subst refs.
  destruct (key_refs_sub _ _ _ Hr) as [t [Ht [Ety [Etv Hhas]]]].
  unfold count_table in Hin. apply in_app_or in Hin. destruct Hin as [Hin|Hin].
  - unfold equ_entries in Hin. apply in_map_iff in Hin. destruct Hin as [[n e] [Ene Hne]]. cbn [fst snd] in Ene. inversion Ene; subst k v.
    destruct (etoks_text' spell e t Ht Ety) as [x [Hx Ex]]. rewrite Etv in Ex. subst r.
    assert (Hk : rk_text spell ev rkN (spell n) = S (rkN n)).
    { unfold rk_text. destruct (find (fun ne => text_eqb (spell (fst ne)) (spell n)) ev) as [[n1 e1]|] eqn:Ef.
      - apply find_some in Ef. destruct Ef as [F1 F2]. cbn [fst] in F2. apply text_eqb_eq in F2.
        rewrite (Hinj n1 n); [reflexivity| | |exact F2]; apply in_map_iff; [exists (n1, e1)|exists (n, e)]; split; try reflexivity; assumption.
      - exfalso. pose proof (find_none _ _ Ef (n, e) Hne) as X. cbn [fst] in X. rewrite text_eqb_refl in X. discriminate X. }
    rewrite Hk. unfold rk_text. rewrite ?Ex. destruct (find (fun ne => text_eqb (spell (fst ne)) (spell x)) ev) as [[n' e']|] eqn:Ef.
    2: lia.
    apply find_some in Ef. destruct Ef as [F1 F2]. cbn [fst] in F2 |- *. apply text_eqb_eq in F2.
    pose proof (Hrk n e Hne x Hx n' e' F1 (eq_sym F2)). lia.
  - exfalso. unfold load_constants in Hin. cbn [In] in Hin.
    repeat (destruct Hin as [Hin|Hin]; [inversion Hin; subst; destruct Ht as [<-|[]]; discriminate Ety|]). exact Hin.
Qed.

(* the count of a block, as the expander evaluates it, is the reference's value *)
Theorem block_count rkN e v : env_nn ev -> ranked spell ev rkN -> Forall nn_ntok (nprint e) ->
  value_at (mconf_of cfg) ev [] 0 e = MV v ->
  expand_and_evaluate (etoks spell e) (with_constants cfg (equ_entries spell ev)) = Some (EOk v).
Proof.
  intros Hnn Hrk Hn H. rewrite with_constants_entries.
  apply (count_value spell (mconf_of cfg) ev count_table (Z.of_N (c_size cfg)) count_tables Hnn e v Hn H (count_acyclic rkN Hrk)).
Qed.
End Table.
