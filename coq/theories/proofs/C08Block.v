(* C08Block.v — one pass of the FOR expander on a stream that holds a block, at the
   token level: the lines in front of the block are copied (labels re-attached), the
   header fixes counter, block labels and count, the body is collected line by line
   with the nesting depth, and from the closing ROF on C08Proof.rof_phase applies. *)
From GM Require Import Base Text Token Lexer Scanner ExprSpec ExprEval ForExpand C05Lexer C05Expander C05Fuel C14Proof EquFuel C08Proof.
From Coq Require Import Lia.
Open Scope N_scope.

(* ---------- the expander positioned on a token list ---------- *)
Definition fx (l : list token) (labels : list text) (expr : list token) (cl : text) (ll : list text)
           (at_ : option nat) (cnt : Z) (content : list token) (depth : nat) (out : list token) : fexp :=
  mkF (rd_at l) labels expr cl ll at_ cnt content depth out false.

Lemma fx_nt t r labels expr cl ll at_ cnt content depth out : f_nt (fx (t :: r) labels expr cl ll at_ cnt content depth out) = t.
Proof. reflexivity. Qed.
Lemma fx_next t t2 r labels expr cl ll at_ cnt content depth out : is_terminal t = false ->
  f_next (fx (t :: t2 :: r) labels expr cl ll at_ cnt content depth out) = fx (t2 :: r) labels expr cl ll at_ cnt content depth out.
Proof. intros H. unfold f_next, fx, f_set_rd. cbn [f_rd]. rewrite rnext_at by exact H. reflexivity. Qed.

Lemma for_run_S symbols n st f :
  for_run symbols (S n) st f =
  match for_step symbols st f with
  | None => None
  | Some (f', None) => Some f'
  | Some (f', Some st') => for_run symbols n st' f'
  end.
Proof. reflexivity. Qed.

Definition plain_tok (t : token) : Prop := is_terminal t = false /\ t_typ t <> tokNewline.
Definition nlt := mkT tokNewline [].

(* ---------- copying the rest of a body line into the block's content ---------- *)
Lemma inner_copy symbols ts : forall n next rest labels expr cl ll at_ cnt content depth out,
  Forall plain_tok ts ->
  for_run symbols (length ts + 1 + n) FInnerEmitConsumeLine (fx (ts ++ nlt :: next :: rest) labels expr cl ll at_ cnt content depth out) =
  for_run symbols n FInnerLine (fx (next :: rest) labels expr cl ll at_ cnt (content ++ ts ++ [nlt]) depth out).
Proof.
  induction ts as [|t ts IH]; intros n next rest labels expr cl ll at_ cnt content depth out H.
  - cbn [app length Nat.add]. rewrite for_run_S. cbn [for_step]. rewrite fx_nt. cbn [nlt t_typ].
    unfold f_set_content. cbn [fx f_rd f_labels f_expr f_count_label f_line_labels f_labels_at f_count f_content f_depth f_out f_stuck].
    change (mkF (rd_at (nlt :: next :: rest)) labels expr cl ll at_ cnt (content ++ [nlt]) depth out false)
      with (fx (nlt :: next :: rest) labels expr cl ll at_ cnt (content ++ [nlt]) depth out).
    rewrite fx_next by reflexivity. reflexivity.
  - inversion H as [|x y [Hx1 Hx2] Hy]; subst. cbn [app length Nat.add]. rewrite for_run_S. cbn [for_step]. rewrite fx_nt.
    assert (Hstep : match t_typ t with
                    | tokError => Some (f_send (fx (t :: ts ++ nlt :: next :: rest) labels expr cl ll at_ cnt content depth out) [t], None)
                    | tokEOF => Some (fx (t :: ts ++ nlt :: next :: rest) labels expr cl ll at_ cnt content depth out, None)
                    | tokNewline => Some (f_next (f_set_content (fx (t :: ts ++ nlt :: next :: rest) labels expr cl ll at_ cnt content depth out) (content ++ [t])), Some FInnerLine)
                    | _ => Some (f_next (f_set_content (fx (t :: ts ++ nlt :: next :: rest) labels expr cl ll at_ cnt content depth out) (content ++ [t])), Some FInnerEmitConsumeLine)
                    end = Some (fx (ts ++ nlt :: next :: rest) labels expr cl ll at_ cnt (content ++ [t]) depth out, Some FInnerEmitConsumeLine)).
    { unfold is_terminal in Hx1. destruct (t_typ t) eqn:E; try discriminate Hx1; try congruence;
        (unfold f_set_content; cbn [fx f_rd f_labels f_expr f_count_label f_line_labels f_labels_at f_count f_content f_depth f_out f_stuck];
         change (mkF (rd_at (t :: ts ++ nlt :: next :: rest)) labels expr cl ll at_ cnt (content ++ [t]) depth out false)
           with (fx (t :: ts ++ nlt :: next :: rest) labels expr cl ll at_ cnt (content ++ [t]) depth out);
         destruct ts; cbn [app]; rewrite fx_next by (unfold is_terminal; rewrite E; reflexivity); reflexivity). }
    cbn [f_content fx] in Hstep |- *. rewrite Hstep. rewrite IH by exact Hy. rewrite <- !app_assoc. reflexivity.
Qed.

(* ---------- the labels in front of a body line ---------- *)
Definition colon := mkT tokColon [58].
Definition lbl_seg (ls : list (text * nat)) : list token := flat_map (fun vc => mkT tokText (fst vc) :: repeat colon (snd vc)) ls.
Definition is_label (v : text) : Prop := tok_is_pseudo (mkT tokText v) = false /\ tok_is_op (mkT tokText v) = false.

Lemma inner_colons symbols c : forall n tail labels expr cl ll at_ cnt content depth out, tail <> [] ->
  for_run symbols (c + n) FInnerLabels (fx (repeat colon c ++ tail) labels expr cl ll at_ cnt content depth out) =
  for_run symbols n FInnerLabels (fx tail labels expr cl ll at_ cnt content depth out).
Proof.
  induction c as [|c IH]; intros n tail labels expr cl ll at_ cnt content depth out Hne; [reflexivity|].
  cbn [repeat app Nat.add]. rewrite for_run_S. cbn [for_step]. rewrite fx_nt. cbn [colon t_typ].
  destruct (repeat colon c ++ tail) as [|t2 r2] eqn:E; [destruct c; [cbn in E; congruence|discriminate E]|].
  rewrite fx_next by reflexivity. rewrite <- E. apply IH. exact Hne.
Qed.

Lemma inner_labels symbols ls : forall n w rest labels expr cl ll at_ cnt content depth out,
  Forall (fun vc => is_label (fst vc)) ls ->
  for_run symbols (length (lbl_seg ls) + n) FInnerLabels (fx (lbl_seg ls ++ w :: rest) labels expr cl ll at_ cnt content depth out) =
  for_run symbols n FInnerLabels (fx (w :: rest) (labels ++ map fst ls) expr cl ll at_ cnt content depth out).
Proof.
  induction ls as [|[v c] t IH]; intros n w rest labels expr cl ll at_ cnt content depth out H.
  - cbn [lbl_seg flat_map app length Nat.add map]. rewrite app_nil_r. reflexivity.
  - inversion H as [|x y [H1 H2] Hy]; subst. cbn [fst] in H1, H2.
    cbn [lbl_seg flat_map fst snd]. fold (lbl_seg t). rewrite <- !app_assoc. cbn [app length]. rewrite app_length, repeat_length.
    replace (S (c + length (lbl_seg t)) + n)%nat with (S (c + (length (lbl_seg t) + n)))%nat by lia.
    rewrite for_run_S. cbn [for_step]. rewrite fx_nt. cbn [t_typ]. rewrite H1, H2. cbn [t_val].
    unfold f_set_labels. cbn [fx f_rd f_labels f_expr f_count_label f_line_labels f_labels_at f_count f_content f_depth f_out f_stuck].
    change (mkF (rd_at (mkT tokText v :: repeat colon c ++ lbl_seg t ++ w :: rest)) (labels ++ [v]) expr cl ll at_ cnt content depth out false)
      with (fx (mkT tokText v :: repeat colon c ++ lbl_seg t ++ w :: rest) (labels ++ [v]) expr cl ll at_ cnt content depth out).
    assert (Hn : forall r0, repeat colon c ++ lbl_seg t ++ w :: rest = r0 -> r0 <> []).
    { intros r0 <-. destruct c; [destruct (lbl_seg t); discriminate|discriminate]. }
    destruct (repeat colon c ++ lbl_seg t ++ w :: rest) as [|t2 r2] eqn:E; [exfalso; apply (Hn [] eq_refl); reflexivity|].
    rewrite fx_next by reflexivity. rewrite <- E.
    rewrite inner_colons by (destruct (lbl_seg t); discriminate). rewrite IH by exact Hy. cbn [map fst]. rewrite <- app_assoc. reflexivity.
Qed.

(* ---------- what the first token after the labels decides ---------- *)
Definition wclass (w : token) (depth : nat) : option (bool * nat * bool) :=   (* keep the labels, new depth, a place for block labels *)
  match t_typ w with
  | tokText =>
    if tok_is_pseudo w then
      if lower_is (t_val w) "for" then Some (true, S depth, true)
      else if lower_is (t_val w) "rof" then match depth with S d => Some (false, d, false) | O => None end
      else Some (true, depth, false)
    else if tok_is_op w then Some (true, depth, true) else None
  | tokColon => None
  | _ => Some (true, depth, false)
  end.
Definition marked (depth : nat) (at_ : option nat) (mk : bool) (clen : nat) : option nat :=
  match mk, depth, at_ with true, O, None => Some clen | _, _, _ => at_ end.

Lemma inner_decide symbols w rest labels expr cl ll at_ cnt content depth out keep d' mk n :
  wclass w depth = Some (keep, d', mk) ->
  for_run symbols (S (if keep then S n else n)) FInnerLabels (fx (w :: rest) labels expr cl ll at_ cnt content depth out) =
  for_run symbols n FInnerEmitConsumeLine
    (fx (w :: rest) labels expr cl ll (marked depth at_ mk (length content)) cnt
        (if keep then content ++ map (mkT tokText) labels else content) d' out).
Proof.
  intros Hc. unfold wclass in Hc. rewrite for_run_S. cbn [for_step]. rewrite fx_nt.
  destruct (t_typ w) eqn:Et; try discriminate Hc;
    try (injection Hc as <- <- <-; rewrite for_run_S; cbn [for_step marked]; reflexivity).
  destruct (tok_is_pseudo w).
  - destruct (lower_is (t_val w) "for").
    + injection Hc as <- <- <-. unfold f_mark, f_set_depth, f_set_labels_at. cbn [fx f_depth f_labels_at].
      rewrite for_run_S. cbn [for_step]. destruct depth, at_; reflexivity.
    + destruct (lower_is (t_val w) "rof").
      * destruct depth as [|d]; [discriminate Hc|]. injection Hc as <- <- <-. reflexivity.
      * injection Hc as <- <- <-. rewrite for_run_S. cbn [for_step marked]. reflexivity.
  - destruct (tok_is_op w); [|discriminate Hc]. injection Hc as <- <- <-.
    unfold f_mark, f_set_labels_at. cbn [fx f_depth f_labels_at].
    rewrite for_run_S. cbn [for_step]. destruct depth, at_; reflexivity.
Qed.

(* ---------- one line of the body ---------- *)
Record bline := mkBL { bl_labels : list (text * nat); bl_rest : list token }.
Definition bl_toks (b : bline) : list token := lbl_seg (bl_labels b) ++ bl_rest b ++ [nlt].
Definition bl_first (b : bline) : token := hd nlt (bl_rest b ++ [nlt]).
Definition bline_ok (b : bline) : Prop :=
  Forall (fun vc => is_label (fst vc)) (bl_labels b) /\ Forall plain_tok (bl_rest b).
(* what the line adds to the content, given whether the labels are kept *)
Definition bl_out (b : bline) (keep : bool) : list token :=
  (if keep then map (mkT tokText) (map fst (bl_labels b)) else []) ++ bl_rest b ++ [nlt].

Lemma body_line symbols b next rest lab0 expr cl ll at_ cnt content depth out keep d' mk :
  bline_ok b -> wclass (bl_first b) depth = Some (keep, d', mk) ->
  exists k lab', (k <= length (bl_toks b) + 3)%nat /\ forall n,
    for_run symbols (k + n) FInnerLine (fx (bl_toks b ++ next :: rest) lab0 expr cl ll at_ cnt content depth out) =
    for_run symbols n FInnerLine
      (fx (next :: rest) lab' expr cl ll (marked depth at_ mk (length content)) cnt (content ++ bl_out b keep) d' out).
Proof.
  intros [Hl Hr] Hc. destruct b as [ls wts]. unfold bl_toks, bl_first, bl_out in *. cbn [bl_labels bl_rest] in *.
  (* does the line begin with a word? *)
  destruct (match ls with [] => t_typ (hd nlt (wts ++ [nlt])) | _ => tokText end) eqn:Efirst.
  2: { (* a word: parseLabels *)
    exists (1 + (length (lbl_seg ls) + (1 + ((if keep then 1 else 0) + (length wts + 1)))))%nat, (map fst ls).
    split; [rewrite !app_length; cbn [length]; destruct keep; lia|]. intros n.
    assert (E1 : for_run symbols (1 + (length (lbl_seg ls) + (1 + ((if keep then 1 else 0) + (length wts + 1)))) + n) FInnerLine
                   (fx ((lbl_seg ls ++ wts ++ [nlt]) ++ next :: rest) lab0 expr cl ll at_ cnt content depth out) =
                 for_run symbols (length (lbl_seg ls) + (1 + ((if keep then 1 else 0) + (length wts + 1)) + n)) FInnerLabels
                   (fx ((lbl_seg ls ++ wts ++ [nlt]) ++ next :: rest) [] expr cl ll at_ cnt content depth out)).
    { replace (1 + (length (lbl_seg ls) + (1 + ((if keep then 1 else 0) + (length wts + 1)))) + n)%nat
        with (S (length (lbl_seg ls) + (1 + ((if keep then 1 else 0) + (length wts + 1)) + n)))%nat by lia.
      rewrite for_run_S. cbn [for_step].
      assert (Ht : t_typ (f_nt (fx ((lbl_seg ls ++ wts ++ [nlt]) ++ next :: rest) lab0 expr cl ll at_ cnt content depth out)) = tokText).
      { destruct ls as [|[v c] t]; [cbn [lbl_seg flat_map app]; destruct wts; cbn [app hd] in *; [discriminate Efirst|exact Efirst]|reflexivity]. }
      rewrite Ht. reflexivity. }
    rewrite E1. clear E1. rewrite <- !app_assoc. cbn [app].
    destruct (wts ++ nlt :: next :: rest) as [|w r] eqn:Ew; [destruct wts; discriminate Ew|].
    rewrite inner_labels by exact Hl. cbn [app].
    assert (Hw : w = hd nlt (wts ++ [nlt])) by (destruct wts; cbn [app hd] in *; inversion Ew; reflexivity).
    rewrite <- Hw in Hc.
    replace (1 + ((if keep then 1 else 0) + (length wts + 1)) + n)%nat with (S (if keep then S (length wts + 1 + n) else (length wts + 1 + n))) by (destruct keep; lia).
    rewrite (inner_decide symbols w r (map fst ls) expr cl ll at_ cnt content depth out keep d' mk _ Hc).
    rewrite <- Ew. rewrite inner_copy by exact Hr.
    f_equal. destruct keep; rewrite <- ?app_assoc; reflexivity. }
  all: (* not a word: the line is copied *)
    destruct ls as [|vc t]; [|discriminate Efirst]; cbn [lbl_seg flat_map app map] in *;
    (assert (Hk : keep = true /\ d' = depth /\ mk = false)
       by (unfold wclass in Hc; rewrite Efirst in Hc; inversion Hc; auto); destruct Hk as [-> [-> ->]]);
    exists (1 + (length wts + 1))%nat, lab0; (split; [rewrite !app_length; cbn [length]; lia|]); intros n;
    replace (1 + (length wts + 1) + n)%nat with (S (length wts + 1 + n)) by lia;
    rewrite for_run_S; cbn [for_step];
    (assert (Ht : t_typ (f_nt (fx ((wts ++ [nlt]) ++ next :: rest) lab0 expr cl ll at_ cnt content depth out)) = t_typ (hd nlt (wts ++ [nlt])))
       by (destruct wts; reflexivity));
    rewrite Ht, Efirst; rewrite <- app_assoc; cbn [app];
    rewrite inner_copy by exact Hr; cbn [marked]; destruct depth; reflexivity.
Qed.

(* ---------- the whole body ---------- *)
Fixpoint body_run (bs : list bline) (depth : nat) (at_ : option nat) (content : list token) : option (nat * option nat * list token) :=
  match bs with
  | [] => Some (depth, at_, content)
  | b :: t =>
    match wclass (bl_first b) depth with
    | Some (keep, d', mk) => body_run t d' (marked depth at_ mk (length content)) (content ++ bl_out b keep)
    | None => None
    end
  end.

Lemma body_lines symbols bs : forall next rest lab0 expr cl ll at_ cnt content depth out d' at' content',
  Forall bline_ok bs -> body_run bs depth at_ content = Some (d', at', content') ->
  exists k lab', (k <= length (flat_map bl_toks bs) + 3 * length bs)%nat /\ forall n,
    for_run symbols (k + n) FInnerLine (fx (flat_map bl_toks bs ++ next :: rest) lab0 expr cl ll at_ cnt content depth out) =
    for_run symbols n FInnerLine (fx (next :: rest) lab' expr cl ll at' cnt content' d' out).
Proof.
  induction bs as [|b t IH]; intros next rest lab0 expr cl ll at_ cnt content depth out d' at' content' Hok Hrun.
  - cbn [body_run] in Hrun. inversion Hrun; subst. exists 0%nat, lab0. split; [cbn; lia|]. intros n. reflexivity.
  - inversion Hok as [|x y Hb Ht]; subst. cbn [body_run] in Hrun.
    destruct (wclass (bl_first b) depth) as [[[keep d1] mk]|] eqn:Ec; [|discriminate Hrun].
    cbn [flat_map]. rewrite <- app_assoc.
    destruct (flat_map bl_toks t ++ next :: rest) as [|n1 r1] eqn:En; [destruct (flat_map bl_toks t); discriminate En|].
    destruct (body_line symbols b n1 r1 lab0 expr cl ll at_ cnt content depth out keep d1 mk Hb Ec) as [k1 [lab1 [Hk1 H1]]].
    destruct (IH next rest lab1 expr cl ll (marked depth at_ mk (length content)) cnt (content ++ bl_out b keep) d1 out d' at' content' Ht Hrun)
      as [k2 [lab2 [Hk2 H2]]].
    exists (k1 + k2)%nat, lab2. split; [rewrite app_length; cbn [length]; lia|]. intros n.
    rewrite En in H2. rewrite <- Nat.add_assoc. rewrite H1. apply H2.
Qed.

(* ---------- the closing ROF line ---------- *)
Lemma closing_rof symbols ls w skip rest lab0 expr cl ll at_ cnt content out :
  Forall (fun vc => is_label (fst vc)) ls ->
  t_typ w = tokText -> tok_is_pseudo w = true -> lower_is (t_val w) "for" = false -> lower_is (t_val w) "rof" = true ->
  exists lab', forall n,
    for_run symbols (2 + length (lbl_seg ls) + n) FInnerLine (fx (lbl_seg ls ++ w :: skip ++ rest) lab0 expr cl ll at_ cnt content O out) =
    for_run symbols n FRof (fx (w :: skip ++ rest) lab' expr cl ll at_ cnt content O out).
Proof.
  intros Hl Ht Hp Hf Hr. exists (map fst ls). intros n.
  replace (2 + length (lbl_seg ls) + n)%nat with (S (length (lbl_seg ls) + S n)) by lia.
  rewrite for_run_S. cbn [for_step].
  assert (Hft : t_typ (f_nt (fx (lbl_seg ls ++ w :: skip ++ rest) lab0 expr cl ll at_ cnt content 0 out)) = tokText).
  { destruct ls as [|[v c] t]; [exact Ht|reflexivity]. }
  rewrite Hft.
  change (f_set_labels (fx (lbl_seg ls ++ w :: skip ++ rest) lab0 expr cl ll at_ cnt content 0 out) [])
    with (fx (lbl_seg ls ++ w :: skip ++ rest) [] expr cl ll at_ cnt content 0 out).
  rewrite inner_labels by exact Hl. cbn [app]. rewrite for_run_S. cbn [for_step]. rewrite fx_nt, Ht, Hp, Hf, Hr. reflexivity.
Qed.

(* ---------- the lines in front of the block ---------- *)
Definition junk_tok (t : token) : Prop := match t_typ t with tokNewline | tokComment | tokColon => True | _ => False end.
Definition plbl_seg (ls : list (text * list token)) : list token := flat_map (fun vj => mkT tokText (fst vj) :: snd vj) ls.
Definition plbl_ok (ls : list (text * list token)) : Prop := Forall (fun vj => is_label (fst vj) /\ Forall junk_tok (snd vj)) ls.

Lemma junk_nonterm t : junk_tok t -> is_terminal t = false.
Proof. unfold junk_tok, is_terminal. destruct (t_typ t); try contradiction; reflexivity. Qed.

Lemma consume_junk symbols js : forall n tail labels expr cl ll at_ cnt content depth out, Forall junk_tok js -> tail <> [] ->
  for_run symbols (length js + n) FConsumeLabels (fx (js ++ tail) labels expr cl ll at_ cnt content depth out) =
  for_run symbols n FConsumeLabels (fx tail labels expr cl ll at_ cnt content depth out).
Proof.
  induction js as [|j js IH]; intros n tail labels expr cl ll at_ cnt content depth out H Hne; [reflexivity|].
  inversion H as [|x y Hj Hjs]; subst. cbn [app length Nat.add]. rewrite for_run_S. cbn [for_step]. rewrite fx_nt.
  assert (E : forall A (a b : A), match t_typ j with tokText => a | tokNewline | tokComment | tokColon => b | _ => a end = b)
    by (intros A a b; unfold junk_tok in Hj; destruct (t_typ j); try contradiction; reflexivity).
  unfold junk_tok in Hj.
  destruct (js ++ tail) as [|t2 r2] eqn:Et; [destruct js; [cbn in Et; congruence|discriminate Et]|].
  destruct (t_typ j) eqn:Ej; try contradiction; (rewrite fx_next by (unfold is_terminal; rewrite Ej; reflexivity); rewrite <- Et; apply IH; assumption).
Qed.

Lemma consume_labels symbols ls : forall n w rest labels expr cl ll at_ cnt content depth out, plbl_ok ls ->
  for_run symbols (length (plbl_seg ls) + n) FConsumeLabels (fx (plbl_seg ls ++ w :: rest) labels expr cl ll at_ cnt content depth out) =
  for_run symbols n FConsumeLabels (fx (w :: rest) (labels ++ map fst ls) expr cl ll at_ cnt content depth out).
Proof.
  induction ls as [|[v js] t IH]; intros n w rest labels expr cl ll at_ cnt content depth out H.
  - cbn [plbl_seg flat_map app length Nat.add map]. rewrite app_nil_r. reflexivity.
  - inversion H as [|x y [[H1 H2] Hj] Hy]; subst. cbn [fst snd] in H1, H2, Hj.
    cbn [plbl_seg flat_map fst snd]. fold (plbl_seg t). rewrite <- !app_assoc. cbn [app length]. rewrite app_length.
    replace (S (length js + length (plbl_seg t)) + n)%nat with (S (length js + (length (plbl_seg t) + n)))%nat by lia.
    rewrite for_run_S. cbn [for_step]. rewrite fx_nt. cbn [t_typ]. rewrite H1, H2. cbn [t_val].
    unfold f_set_labels. cbn [fx f_rd f_labels f_expr f_count_label f_line_labels f_labels_at f_count f_content f_depth f_out f_stuck].
    change (mkF (rd_at (mkT tokText v :: js ++ plbl_seg t ++ w :: rest)) (labels ++ [v]) expr cl ll at_ cnt content depth out false)
      with (fx (mkT tokText v :: js ++ plbl_seg t ++ w :: rest) (labels ++ [v]) expr cl ll at_ cnt content depth out).
    destruct (js ++ plbl_seg t ++ w :: rest) as [|t2 r2] eqn:E; [destruct js; [destruct (plbl_seg t); discriminate E|discriminate E]|].
    rewrite fx_next by reflexivity. rewrite <- E.
    rewrite consume_junk by (try exact Hj; destruct (plbl_seg t); discriminate). rewrite IH by exact Hy.
    cbn [map fst]. rewrite <- app_assoc. reflexivity.
Qed.

Lemma fx_emit_consume t t2 r labels expr cl ll at_ cnt content depth out : is_terminal t = false ->
  f_emit_consume (fx (t :: t2 :: r) labels expr cl ll at_ cnt content depth out) = fx (t2 :: r) labels expr cl ll at_ cnt content depth (out ++ [t]).
Proof.
  intros H. unfold f_emit_consume, f_send. rewrite fx_nt.
  change (mkF (f_rd (fx (t :: t2 :: r) labels expr cl ll at_ cnt content depth out)) (f_labels (fx (t :: t2 :: r) labels expr cl ll at_ cnt content depth out))
              (f_expr (fx (t :: t2 :: r) labels expr cl ll at_ cnt content depth out)) (f_count_label (fx (t :: t2 :: r) labels expr cl ll at_ cnt content depth out))
              (f_line_labels (fx (t :: t2 :: r) labels expr cl ll at_ cnt content depth out)) (f_labels_at (fx (t :: t2 :: r) labels expr cl ll at_ cnt content depth out))
              (f_count (fx (t :: t2 :: r) labels expr cl ll at_ cnt content depth out)) (f_content (fx (t :: t2 :: r) labels expr cl ll at_ cnt content depth out))
              (f_depth (fx (t :: t2 :: r) labels expr cl ll at_ cnt content depth out)) (f_out (fx (t :: t2 :: r) labels expr cl ll at_ cnt content depth out) ++ [t])
              (f_stuck (fx (t :: t2 :: r) labels expr cl ll at_ cnt content depth out)))
    with (fx (t :: t2 :: r) labels expr cl ll at_ cnt content depth (out ++ [t])).
  apply fx_next. exact H.
Qed.

Lemma outer_copy symbols ts : forall n next rest labels expr cl ll at_ cnt content depth out,
  Forall plain_tok ts ->
  for_run symbols (length ts + 1 + n) FConsumeEmitLine (fx (ts ++ nlt :: next :: rest) labels expr cl ll at_ cnt content depth out) =
  for_run symbols n FLine (fx (next :: rest) labels expr cl ll at_ cnt content depth (out ++ ts ++ [nlt])).
Proof.
  induction ts as [|t ts IH]; intros n next rest labels expr cl ll at_ cnt content depth out H.
  - cbn [app length Nat.add]. rewrite for_run_S. cbn [for_step]. rewrite fx_nt. cbn [nlt t_typ].
    rewrite fx_emit_consume by reflexivity. reflexivity.
  - inversion H as [|x y [Hx1 Hx2] Hy]; subst. cbn [app length Nat.add]. rewrite for_run_S. cbn [for_step]. rewrite fx_nt.
    assert (E2 : exists t2 r2, ts ++ nlt :: next :: rest = t2 :: r2) by (destruct ts; eexists _, _; reflexivity).
    destruct E2 as [t2 [r2 E2]]. rewrite E2. rewrite fx_emit_consume by exact Hx1. rewrite <- E2.
    assert (Hstep : forall A (a b c : A), match t_typ t with tokNewline => a | tokError | tokEOF => b | _ => c end = c).
    { intros A a b c. unfold is_terminal in Hx1. destruct (t_typ t); try reflexivity; try discriminate Hx1. congruence. }
    rewrite Hstep. rewrite IH by exact Hy. rewrite <- !app_assoc. reflexivity.
Qed.

(* a line in front of the block: labels (with line ends, comments, colons between them), then an instruction or a
   pseudo-op other than FOR, and the rest of the line - or a line that does not begin with a word *)
Record pline := mkPL { pl_labels : list (text * list token); pl_rest : list token }.
Definition pl_toks (p : pline) : list token := plbl_seg (pl_labels p) ++ pl_rest p ++ [nlt].
Definition pl_out (p : pline) : list token := map (mkT tokText) (map fst (pl_labels p)) ++ pl_rest p ++ [nlt].
Definition pl_first (p : pline) : token := hd nlt (pl_rest p ++ [nlt]).
Definition pline_ok (p : pline) : Prop :=
  plbl_ok (pl_labels p) /\ Forall plain_tok (pl_rest p) /\
  (match pl_labels p with
   | [] => t_typ (pl_first p) <> tokText \/
           (t_typ (pl_first p) = tokText /\ ((tok_is_pseudo (pl_first p) = true /\ lower_is (t_val (pl_first p)) "for" = false) \/
                                             (tok_is_pseudo (pl_first p) = false /\ tok_is_op (pl_first p) = true)))
   | _ => t_typ (pl_first p) = tokText /\ ((tok_is_pseudo (pl_first p) = true /\ lower_is (t_val (pl_first p)) "for" = false) \/
                                           (tok_is_pseudo (pl_first p) = false /\ tok_is_op (pl_first p) = true))
   end).

Lemma pre_line symbols p next rest lab0 expr cl ll at_ cnt content depth out :
  pline_ok p ->
  exists k lab', (k <= length (pl_toks p) + 3)%nat /\ forall n,
    for_run symbols (k + n) FLine (fx (pl_toks p ++ next :: rest) lab0 expr cl ll at_ cnt content depth out) =
    for_run symbols n FLine (fx (next :: rest) lab' expr cl ll at_ cnt content depth (out ++ pl_out p)).
Proof.
  intros [Hl [Hr Hw]]. destruct p as [ls wts]. unfold pl_toks, pl_out, pl_first in *. cbn [pl_labels pl_rest] in *.
  assert (Hword : forall w r lab, t_typ w = tokText ->
            ((tok_is_pseudo w = true /\ lower_is (t_val w) "for" = false) \/ (tok_is_pseudo w = false /\ tok_is_op w = true)) ->
            for_step symbols FConsumeLabels (fx (w :: r) lab expr cl ll at_ cnt content depth out) =
            Some (fx (w :: r) lab expr cl ll at_ cnt content depth out, Some FWriteLabelsEmitConsumeLine)).
  { intros w r lab Ht [[Hp Hf]|[Hp Ho]]; cbn [for_step]; rewrite fx_nt, Ht, Hp; [rewrite Hf|rewrite Ho]; reflexivity. }
  assert (Hwrite : forall w t2 r lab, is_terminal w = false ->
            for_step symbols FWriteLabelsEmitConsumeLine (fx (w :: t2 :: r) lab expr cl ll at_ cnt content depth out) =
            Some (fx (t2 :: r) [] expr cl ll at_ cnt content depth ((out ++ map (mkT tokText) lab) ++ [w]), Some FConsumeEmitLine)).
  { intros w t2 r lab Hn. cbn [for_step]. unfold f_send, f_set_labels.
    cbn [fx f_rd f_labels f_expr f_count_label f_line_labels f_labels_at f_count f_content f_depth f_out f_stuck].
    change (mkF (rd_at (w :: t2 :: r)) [] expr cl ll at_ cnt content depth (out ++ map (mkT tokText) lab) false)
      with (fx (w :: t2 :: r) [] expr cl ll at_ cnt content depth (out ++ map (mkT tokText) lab)).
    rewrite fx_emit_consume by exact Hn. reflexivity. }
  destruct (match ls with [] => t_typ (hd nlt (wts ++ [nlt])) | _ => tokText end) eqn:Efirst.
  2: { (* the line begins with a word *)
    assert (Hw' : t_typ (hd nlt (wts ++ [nlt])) = tokText /\
                  ((tok_is_pseudo (hd nlt (wts ++ [nlt])) = true /\ lower_is (t_val (hd nlt (wts ++ [nlt]))) "for" = false) \/
                   (tok_is_pseudo (hd nlt (wts ++ [nlt])) = false /\ tok_is_op (hd nlt (wts ++ [nlt])) = true))).
    { destruct ls; [destruct Hw as [Hw|Hw]; [congruence|exact Hw]|exact Hw]. }
    destruct Hw' as [Wt Wk].
    destruct wts as [|w ts]; [cbn [app hd] in Wt; discriminate Wt|]. cbn [app hd] in Wt, Wk.
    inversion Hr as [|x y [Hw1 Hw2] Hts]; subst.
    exists (1 + (length (plbl_seg ls) + (2 + (length ts + 1))))%nat, []. split; [rewrite !app_length; cbn [length]; rewrite ?app_length; cbn [length]; lia|].
    intros n. replace (1 + (length (plbl_seg ls) + (2 + (length ts + 1))) + n)%nat with (S (length (plbl_seg ls) + S (S (length ts + 1 + n)))) by lia.
    rewrite for_run_S. cbn [for_step].
    assert (Ht : t_typ (f_nt (fx ((plbl_seg ls ++ (w :: ts) ++ [nlt]) ++ next :: rest) lab0 expr cl ll at_ cnt content depth out)) = tokText).
    { destruct ls as [|[v c] t]; [exact Wt|reflexivity]. }
    rewrite Ht.
    change (f_set_labels (fx ((plbl_seg ls ++ (w :: ts) ++ [nlt]) ++ next :: rest) lab0 expr cl ll at_ cnt content depth out) [])
      with (fx ((plbl_seg ls ++ (w :: ts) ++ [nlt]) ++ next :: rest) [] expr cl ll at_ cnt content depth out).
    rewrite <- !app_assoc. cbn [app]. rewrite consume_labels by exact Hl. cbn [app].
    rewrite for_run_S, (Hword w _ _ Wt Wk). rewrite for_run_S.
    destruct (ts ++ nlt :: next :: rest) as [|t2 r2] eqn:E2; [destruct ts; discriminate E2|].
    rewrite (Hwrite w t2 r2 _ Hw1). rewrite <- E2. rewrite outer_copy by exact Hts.
    f_equal. rewrite <- !app_assoc. reflexivity. }
  all: destruct ls as [|vj t]; [|discriminate Efirst]; cbn [plbl_seg flat_map app map] in *;
    exists (1 + (length wts + 1))%nat, lab0; (split; [rewrite !app_length; cbn [length]; lia|]); intros n;
    replace (1 + (length wts + 1) + n)%nat with (S (length wts + 1 + n)) by lia;
    rewrite for_run_S; cbn [for_step];
    (assert (Ht : t_typ (f_nt (fx ((wts ++ [nlt]) ++ next :: rest) lab0 expr cl ll at_ cnt content depth out)) = t_typ (hd nlt (wts ++ [nlt])))
       by (destruct wts; reflexivity));
    rewrite Ht, Efirst; rewrite <- app_assoc; cbn [app]; rewrite outer_copy by exact Hr; reflexivity.
Qed.

Lemma pre_lines symbols ps : forall next rest lab0 expr cl ll at_ cnt content depth out, Forall pline_ok ps ->
  exists k lab', (k <= length (flat_map pl_toks ps) + 3 * length ps)%nat /\ forall n,
    for_run symbols (k + n) FLine (fx (flat_map pl_toks ps ++ next :: rest) lab0 expr cl ll at_ cnt content depth out) =
    for_run symbols n FLine (fx (next :: rest) lab' expr cl ll at_ cnt content depth (out ++ flat_map pl_out ps)).
Proof.
  induction ps as [|p t IH]; intros next rest lab0 expr cl ll at_ cnt content depth out Hok.
  - exists 0%nat, lab0. split; [cbn; lia|]. intros n. cbn [flat_map app]. rewrite app_nil_r. reflexivity.
  - inversion Hok as [|x y Hp Ht]; subst. cbn [flat_map]. rewrite <- app_assoc.
    destruct (flat_map pl_toks t ++ next :: rest) as [|n1 r1] eqn:En; [destruct (flat_map pl_toks t); discriminate En|].
    destruct (pre_line symbols p n1 r1 lab0 expr cl ll at_ cnt content depth out Hp) as [k1 [lab1 [Hk1 H1]]].
    destruct (IH next rest lab1 expr cl ll at_ cnt content depth (out ++ pl_out p) Ht) as [k2 [lab2 [Hk2 H2]]].
    exists (k1 + k2)%nat, lab2. split; [rewrite app_length; cbn [length]; lia|]. intros n.
    rewrite En in H2. rewrite <- Nat.add_assoc, H1, H2. rewrite <- app_assoc. reflexivity.
Qed.

(* ---------- the FOR line ---------- *)
Definition noncomment (t : token) : bool := match t_typ t with tokComment => false | _ => true end.

Lemma consume_expr symbols es : forall n next rest labels expr cl ll at_ cnt content depth out, Forall plain_tok es ->
  for_run symbols (length es + 1 + n) FConsumeExpression (fx (es ++ nlt :: next :: rest) labels expr cl ll at_ cnt content depth out) =
  for_run symbols n FFor (fx (next :: rest) labels (expr ++ filter noncomment es) cl ll at_ cnt content depth out).
Proof.
  induction es as [|t es IH]; intros n next rest labels expr cl ll at_ cnt content depth out H.
  - cbn [app length Nat.add filter]. rewrite for_run_S. cbn [for_step]. rewrite fx_nt. cbn [nlt t_typ].
    rewrite fx_next by reflexivity. rewrite app_nil_r. reflexivity.
  - inversion H as [|x y [Hx1 Hx2] Hy]; subst. cbn [app length Nat.add]. rewrite for_run_S. cbn [for_step]. rewrite fx_nt.
    assert (E2 : exists t2 r2, es ++ nlt :: next :: rest = t2 :: r2) by (destruct es; eexists _, _; reflexivity).
    destruct E2 as [t2 [r2 E2]]. rewrite E2.
    unfold is_terminal in Hx1. cbn [filter]. unfold noncomment at 1.
    destruct (t_typ t) eqn:Et; try discriminate Hx1; try congruence;
      try (unfold f_set_expr; cbn [fx f_rd f_labels f_expr f_count_label f_line_labels f_labels_at f_count f_content f_depth f_out f_stuck];
           change (mkF (rd_at (t :: t2 :: r2)) labels (expr ++ [t]) cl ll at_ cnt content depth out false)
             with (fx (t :: t2 :: r2) labels (expr ++ [t]) cl ll at_ cnt content depth out);
           rewrite fx_next by (unfold is_terminal; rewrite Et; reflexivity); rewrite <- E2; rewrite IH by exact Hy;
           rewrite <- app_assoc; reflexivity).
    rewrite fx_next by (unfold is_terminal; rewrite Et; reflexivity). rewrite <- E2. apply IH. exact Hy.
Qed.

Lemma header_run symbols hl forw es next rest lab0 expr0 cl0 ll0 at0 cnt0 content0 depth out :
  plbl_ok hl -> t_typ forw = tokText -> tok_is_pseudo forw = true -> lower_is (t_val forw) "for" = true -> Forall plain_tok es ->
  forall n,
    for_run symbols (2 + length (plbl_seg hl) + (length es + 1) + n) FLine
      (fx (plbl_seg hl ++ forw :: es ++ nlt :: next :: rest) lab0 expr0 cl0 ll0 at0 cnt0 content0 depth out) =
    for_run symbols n FFor (fx (next :: rest) (map fst hl) (filter noncomment es) cl0 ll0 at0 cnt0 content0 depth out).
Proof.
  intros Hl Ht Hp Hf Hes n.
  replace (2 + length (plbl_seg hl) + (length es + 1) + n)%nat with (S (length (plbl_seg hl) + S (length es + 1 + n))) by lia.
  rewrite for_run_S. cbn [for_step].
  assert (Hft : t_typ (f_nt (fx (plbl_seg hl ++ forw :: es ++ nlt :: next :: rest) lab0 expr0 cl0 ll0 at0 cnt0 content0 depth out)) = tokText).
  { destruct hl as [|[v c] t]; [exact Ht|reflexivity]. }
  rewrite Hft.
  change (f_set_labels (fx (plbl_seg hl ++ forw :: es ++ nlt :: next :: rest) lab0 expr0 cl0 ll0 at0 cnt0 content0 depth out) [])
    with (fx (plbl_seg hl ++ forw :: es ++ nlt :: next :: rest) [] expr0 cl0 ll0 at0 cnt0 content0 depth out).
  rewrite consume_labels by exact Hl. cbn [app]. rewrite for_run_S. cbn [for_step]. rewrite fx_nt, Ht, Hp, Hf.
  assert (E2 : exists t2 r2, es ++ nlt :: next :: rest = t2 :: r2) by (destruct es; eexists _, _; reflexivity).
  destruct E2 as [t2 [r2 E2]]. rewrite E2. rewrite fx_next by (unfold is_terminal; rewrite Ht; reflexivity).
  unfold f_set_expr. cbn [fx f_rd f_labels f_expr f_count_label f_line_labels f_labels_at f_count f_content f_depth f_out f_stuck].
  change (mkF (rd_at (t2 :: r2)) (map fst hl) [] cl0 ll0 at0 cnt0 content0 depth out false)
    with (fx (t2 :: r2) (map fst hl) [] cl0 ll0 at0 cnt0 content0 depth out).
  rewrite <- E2. rewrite consume_expr by exact Hes. reflexivity.
Qed.

Lemma for_step_header symbols l labels expr cl0 ll0 at0 cnt0 content0 depth out v :
  expand_and_evaluate expr symbols = Some (EOk v) ->
  for_step symbols FFor (fx l labels expr cl0 ll0 at0 cnt0 content0 depth out) =
  Some (fx l [] expr (last labels []) (init_list labels) None v [] depth out, Some FInnerLine).
Proof. intros H. cbn [for_step]. cbn [fx f_expr]. rewrite H. reflexivity. Qed.

(* ---------- one pass on a stream that holds a block ---------- *)
Lemma lines_len {A} (f : A -> list token) (l : list A) : (forall x, 1 <= length (f x))%nat -> (length l <= length (flat_map f l))%nat.
Proof. intros H. induction l as [|x t IH]; [cbn; lia|]. cbn [flat_map length]. rewrite app_length. specialize (H x). lia. Qed.

Lemma block_chain symbols pre hl forw es body cls rofw skip tail v d_at content' :
  Forall pline_ok pre ->
  plbl_ok hl -> t_typ forw = tokText -> tok_is_pseudo forw = true -> lower_is (t_val forw) "for" = true -> Forall plain_tok es ->
  expand_and_evaluate (filter noncomment es) symbols = Some (EOk v) ->
  Forall bline_ok body -> body_run body 0 None [] = Some (O, d_at, content') ->
  Forall (fun vc => is_label (fst vc)) cls ->
  t_typ rofw = tokText -> tok_is_pseudo rofw = true -> lower_is (t_val rofw) "for" = false -> lower_is (t_val rofw) "rof" = true ->
  let toks := flat_map pl_toks pre ++ (plbl_seg hl ++ forw :: es ++ [nlt]) ++ flat_map bl_toks body ++ lbl_seg cls ++ rofw :: skip ++ tail in
  exists K lab5, (K <= 4 * (length toks - length (skip ++ tail)))%nat /\ forall n,
    for_run symbols (K + n) FLine (fx toks [] [] [] [] None 0%Z [] 0%nat []) =
    for_run symbols n FRof (fx (rofw :: skip ++ tail) lab5 (filter noncomment es) (last (map fst hl) []) (init_list (map fst hl))
                               d_at v content' 0%nat (flat_map pl_out pre)).
Proof.
  intros Hpre Hhl Hft Hfp Hff Hes Hev Hbody Hrun Hcls Hrt Hrp Hrf Hrr toks.
  (* shapes of the remaining stream at each stage *)
  set (s3 := lbl_seg cls ++ rofw :: skip ++ tail).
  set (s2 := flat_map bl_toks body ++ s3).
  set (s1 := plbl_seg hl ++ forw :: es ++ nlt :: s2).
  assert (Et : toks = flat_map pl_toks pre ++ s1).
  { unfold toks, s1, s2, s3. rewrite <- !app_assoc. cbn [app]. rewrite <- !app_assoc. reflexivity. }
  assert (N3 : exists c1 cr1, s3 = c1 :: cr1) by (unfold s3; destruct (lbl_seg cls); eexists _, _; reflexivity).
  destruct N3 as [c1 [cr1 E3]].
  assert (N2 : exists b1 br1, s2 = b1 :: br1) by (unfold s2; rewrite E3; destruct (flat_map bl_toks body); eexists _, _; reflexivity).
  destruct N2 as [b1 [br1 E2]].
  assert (N1 : exists h1 hr1, s1 = h1 :: hr1) by (unfold s1; destruct (plbl_seg hl); eexists _, _; reflexivity).
  destruct N1 as [h1 [hr1 E1]].
  destruct (pre_lines symbols pre h1 hr1 [] [] [] [] None 0%Z [] 0%nat [] Hpre) as [k1 [lab1 [Hk1 H1]]].
  pose proof (header_run symbols hl forw es b1 br1 lab1 [] [] [] None 0%Z [] 0%nat (flat_map pl_out pre) Hhl Hft Hfp Hff Hes) as H2.
  pose proof (for_step_header symbols (b1 :: br1) (map fst hl) (filter noncomment es) [] [] None 0%Z [] 0%nat (flat_map pl_out pre) v Hev) as H3.
  destruct (body_lines symbols body c1 cr1 [] (filter noncomment es) (last (map fst hl) []) (init_list (map fst hl)) None v [] 0%nat
              (flat_map pl_out pre) 0%nat d_at content' Hbody Hrun) as [k4 [lab4 [Hk4 H4]]].
  destruct (closing_rof symbols cls rofw skip tail lab4 (filter noncomment es) (last (map fst hl) []) (init_list (map fst hl))
              d_at v content' (flat_map pl_out pre) Hcls Hrt Hrp Hrf Hrr) as [lab5 H5].
  exists (k1 + (2 + length (plbl_seg hl) + (length es + 1) + (1 + (k4 + (2 + length (lbl_seg cls))))))%nat, lab5. split.
  - assert (L1 : forall x, (1 <= length (pl_toks x))%nat) by (intros x; unfold pl_toks; rewrite !app_length; cbn [length]; lia).
    assert (L2 : forall x, (1 <= length (bl_toks x))%nat) by (intros x; unfold bl_toks; rewrite !app_length; cbn [length]; lia).
    pose proof (lines_len pl_toks pre L1). pose proof (lines_len bl_toks body L2).
    unfold toks. repeat (rewrite app_length || cbn [length]). lia.
  - intros n. rewrite Et, E1.
    replace (k1 + (2 + length (plbl_seg hl) + (length es + 1) + (1 + (k4 + (2 + length (lbl_seg cls))))) + n)%nat
      with (k1 + (2 + length (plbl_seg hl) + (length es + 1) + (S (k4 + (2 + length (lbl_seg cls) + n)))))%nat by lia.
    rewrite H1. cbn [app]. rewrite <- E1. unfold s1. rewrite E2. rewrite H2.
    rewrite for_run_S, H3. rewrite <- E2. unfold s2. rewrite E3. rewrite H4. rewrite <- E3. unfold s3. apply H5.
Qed.

Theorem one_pass_full symbols pre hl forw es body cls rofw skip rest e v d_at content' :
  Forall pline_ok pre ->
  plbl_ok hl -> t_typ forw = tokText -> tok_is_pseudo forw = true -> lower_is (t_val forw) "for" = true -> Forall plain_tok es ->
  expand_and_evaluate (filter noncomment es) symbols = Some (EOk v) ->
  Forall bline_ok body -> body_run body 0 None [] = Some (O, d_at, content') ->
  Forall (fun vc => is_label (fst vc)) cls ->
  t_typ rofw = tokText -> tok_is_pseudo rofw = true -> lower_is (t_val rofw) "for" = false -> lower_is (t_val rofw) "rof" = true ->
  Forall plain_tok skip -> Forall nonterm rest -> t_typ e = tokEOF ->
  let toks := flat_map pl_toks pre ++ (plbl_seg hl ++ forw :: es ++ [nlt]) ++ flat_map bl_toks body
              ++ lbl_seg cls ++ rofw :: skip ++ (nlt :: rest ++ [e]) in
  closed_stream toks /\
  exists r, for_expand toks symbols = Some (Some r) /\
    fr_sends r = flat_map pl_out pre
                 ++ emit_body (Z.to_nat v) d_at (last (map fst hl) []) (init_list (map fst hl)) content'
                 ++ rest /\
    fr_tokens r = fr_sends r ++ [tEOF].
Proof.
  intros Hpre Hhl Hft Hfp Hff Hes Hev Hbody Hrun Hcls Hrt Hrp Hrf Hrr Hskip Hrest He toks.
  destruct (block_chain symbols pre hl forw es body cls rofw skip (nlt :: rest ++ [e]) v d_at content'
              Hpre Hhl Hft Hfp Hff Hes Hev Hbody Hrun Hcls Hrt Hrp Hrf Hrr) as [K [lab5 [HK Hchain]]].
  fold toks in HK, Hchain.
  (* the pass ends (C05) ... *)
  assert (Hclosed : closed_stream toks).
  { unfold toks. replace (flat_map pl_toks pre ++ (plbl_seg hl ++ forw :: es ++ [nlt]) ++ flat_map bl_toks body ++ lbl_seg cls ++ rofw :: skip ++ nlt :: rest ++ [e])
      with ((flat_map pl_toks pre ++ (plbl_seg hl ++ forw :: es ++ [nlt]) ++ flat_map bl_toks body ++ lbl_seg cls ++ rofw :: skip ++ nlt :: rest) ++ [e])
      by (rewrite <- !app_assoc; cbn [app]; rewrite <- !app_assoc; reflexivity).
    apply closed_one; [unfold is_terminal; rewrite He; reflexivity|].
    assert (P : forall l, Forall plain_tok l -> Forall nonterm l) by (intros l H; eapply Forall_impl; [|exact H]; intros t [A _]; exact A).
    apply Forall_app. split.
    { apply Forall_forall. intros t Hin. apply in_flat_map in Hin. destruct Hin as [p [Hp Ht]].
      rewrite Forall_forall in Hpre. destruct (Hpre p Hp) as [Pl [Pr _]]. unfold pl_toks in Ht.
      apply in_app_or in Ht. destruct Ht as [Ht|Ht].
      - unfold plbl_seg in Ht. apply in_flat_map in Ht. destruct Ht as [vj [Hv Ht]]. unfold plbl_ok in Pl. rewrite Forall_forall in Pl.
        destruct (Pl vj Hv) as [_ Hj]. destruct Ht as [<-|Ht]; [reflexivity|]. rewrite Forall_forall in Hj. apply junk_nonterm. apply Hj. exact Ht.
      - apply in_app_or in Ht. destruct Ht as [Ht|[<-|[]]]; [|reflexivity]. rewrite Forall_forall in Pr. apply (Pr t Ht). }
    apply Forall_app. split.
    { apply Forall_app. split.
      - apply Forall_forall. intros t Ht. unfold plbl_seg in Ht. apply in_flat_map in Ht. destruct Ht as [vj [Hv Ht]].
        unfold plbl_ok in Hhl. rewrite Forall_forall in Hhl. destruct (Hhl vj Hv) as [_ Hj]. destruct Ht as [<-|Ht]; [reflexivity|].
        rewrite Forall_forall in Hj. apply junk_nonterm. apply Hj. exact Ht.
      - constructor; [unfold nonterm, is_terminal; rewrite Hft; reflexivity|]. apply Forall_app. split; [apply P; exact Hes|repeat constructor]. }
    apply Forall_app. split.
    { apply Forall_forall. intros t Hin. apply in_flat_map in Hin. destruct Hin as [b [Hb Ht]].
      rewrite Forall_forall in Hbody. destruct (Hbody b Hb) as [Bl Br]. unfold bl_toks in Ht.
      apply in_app_or in Ht. destruct Ht as [Ht|Ht].
      - unfold lbl_seg in Ht. apply in_flat_map in Ht. destruct Ht as [vc [_ Ht]]. destruct Ht as [<-|Ht]; [reflexivity|].
        apply repeat_spec in Ht. subst t. reflexivity.
      - apply in_app_or in Ht. destruct Ht as [Ht|[<-|[]]]; [|reflexivity]. rewrite Forall_forall in Br. apply (Br t Ht). }
    apply Forall_app. split.
    { apply Forall_forall. intros t Ht. unfold lbl_seg in Ht. apply in_flat_map in Ht. destruct Ht as [vc [_ Ht]]. destruct Ht as [<-|Ht]; [reflexivity|].
      apply repeat_spec in Ht. subst t. reflexivity. }
    constructor; [unfold nonterm, is_terminal; rewrite Hrt; reflexivity|]. apply Forall_app. split; [apply P; exact Hskip|].
    constructor; [reflexivity|exact Hrest]. }
  destruct (for_expand_ends toks symbols Hclosed (fun x => expand_and_evaluate_total x symbols)) as [res Eres].
  (* ... and what it sends is read off the run *)
  assert (Hinit : reader_init toks = rd_at toks).
  { unfold toks. destruct (flat_map pl_toks pre ++ (plbl_seg hl ++ forw :: es ++ [nlt]) ++ flat_map bl_toks body ++ lbl_seg cls ++ rofw :: skip ++ nlt :: rest ++ [e]); reflexivity. }
  assert (Hne0 : r_eof (reader_init toks) = false).
  { rewrite Hinit. unfold toks. destruct pre as [|p0 pt].
    - cbn [flat_map app]. destruct hl as [|[v0 j0] ht]; cbn [plbl_seg flat_map app rd_at r_eof]; [unfold is_terminal; rewrite Hft|]; reflexivity.
    - cbn [flat_map]. inversion Hpre as [|x y [Pl [Pr Pw]] _]; subst. unfold pl_toks. destruct (pl_labels p0) as [|[v0 j0] lt]; cbn [plbl_seg flat_map app].
      + destruct (pl_rest p0) as [|w0 ws]; cbn [app rd_at r_eof]; [reflexivity|]. inversion Pr as [|a b [Pa _] _]; subst. exact Pa.
      + reflexivity. }
  unfold for_expand in Eres |- *. rewrite Hne0 in Eres |- *. cbv zeta in Eres |- *. rewrite Hinit in Eres |- *.
  change (mkF (rd_at toks) [] [] [] [] None 0%Z [] 0%nat [] false) with (fx toks [] [] [] [] None 0%Z [] 0%nat []) in Eres |- *.
  set (N := (4 * length toks + 8)%nat) in *.
  destruct (for_run symbols N FLine (fx toks [] [] [] [] None 0%Z [] 0%nat [])) as [f'|] eqn:Erun; [|discriminate Eres].
  clear Eres. split; [exact Hclosed|]. eexists. split; [reflexivity|]. cbn [fr_sends fr_tokens].
  assert (HKN : (K <= N)%nat) by (unfold N; lia).
  replace N with (K + (N - K))%nat in Erun by lia. rewrite Hchain in Erun.
  assert (Hsk : Forall (fun t => nonterm t /\ t_typ t <> tokNewline) (rofw :: skip)).
  { constructor; [split; [unfold nonterm, is_terminal; rewrite Hrt; reflexivity|rewrite Hrt; discriminate]|]. exact Hskip. }
  pose proof (rof_phase symbols (N - K)
                (fx (rofw :: skip ++ nlt :: rest ++ [e]) lab5 (filter noncomment es) (last (map fst hl) []) (init_list (map fst hl))
                    d_at v content' 0%nat (flat_map pl_out pre))
                f' (rofw :: skip) rest e [] Hsk Hrest He eq_refl Erun) as Hout.
  cbn [fx f_out f_count f_labels_at f_count_label f_line_labels f_content] in Hout. split; [exact Hout|].
  rewrite Hout.
  set (OUT := flat_map pl_out pre ++ emit_body (Z.to_nat v) d_at (last (map fst hl) []) (init_list (map fst hl)) content' ++ rest).
  rewrite <- (app_nil_r OUT) at 1. rewrite recv_nonterm; [reflexivity|].
  unfold OUT. apply Forall_app. split.
  { apply Forall_forall. intros t Hin. apply in_flat_map in Hin. destruct Hin as [p [Hp Ht]].
    rewrite Forall_forall in Hpre. destruct (Hpre p Hp) as [Pl [Pr _]]. unfold pl_out in Ht.
    apply in_app_or in Ht. destruct Ht as [Ht|Ht].
    - apply in_map_iff in Ht. destruct Ht as [x [<- _]]. reflexivity.
    - apply in_app_or in Ht. destruct Ht as [Ht|[<-|[]]]; [|reflexivity]. rewrite Forall_forall in Pr. apply (Pr t Ht). }
  apply Forall_app. split; [|exact Hrest]. apply emit_body_nonterm.
  assert (G : forall bs d a c d' a' c', Forall bline_ok bs -> Forall nonterm c -> body_run bs d a c = Some (d', a', c') -> Forall nonterm c').
  { induction bs as [|b bs IH]; intros d a c d' a' c' Hb Hc Hr; cbn [body_run] in Hr; [inversion Hr; subst; exact Hc|].
    inversion Hb as [|x y [Bl Br] Hbs]; subst. destruct (wclass (bl_first b) d) as [[[keep d2] mk]|]; [|discriminate Hr].
    apply (IH _ _ _ _ _ _ Hbs) in Hr; [exact Hr|]. apply Forall_app. split; [exact Hc|]. unfold bl_out. apply Forall_app. split.
    - destruct keep; [|constructor]. apply Forall_forall. intros t Ht. apply in_map_iff in Ht. destruct Ht as [x [<- _]]. reflexivity.
    - apply Forall_app. split; [eapply Forall_impl; [|exact Br]; intros t [A _]; exact A|repeat constructor]. }
  apply (G body 0%nat None [] 0%nat d_at content' Hbody ltac:(constructor) Hrun).
Qed.

Theorem one_pass symbols pre hl forw es body cls rofw skip rest e v d_at content' :
  Forall pline_ok pre ->
  plbl_ok hl -> t_typ forw = tokText -> tok_is_pseudo forw = true -> lower_is (t_val forw) "for" = true -> Forall plain_tok es ->
  expand_and_evaluate (filter noncomment es) symbols = Some (EOk v) ->
  Forall bline_ok body -> body_run body 0 None [] = Some (O, d_at, content') ->
  Forall (fun vc => is_label (fst vc)) cls ->
  t_typ rofw = tokText -> tok_is_pseudo rofw = true -> lower_is (t_val rofw) "for" = false -> lower_is (t_val rofw) "rof" = true ->
  Forall plain_tok skip -> Forall nonterm rest -> t_typ e = tokEOF ->
  let toks := flat_map pl_toks pre ++ (plbl_seg hl ++ forw :: es ++ [nlt]) ++ flat_map bl_toks body
              ++ lbl_seg cls ++ rofw :: skip ++ (nlt :: rest ++ [e]) in
  exists r, for_expand toks symbols = Some (Some r) /\
    fr_sends r = flat_map pl_out pre
                 ++ emit_body (Z.to_nat v) d_at (last (map fst hl) []) (init_list (map fst hl)) content'
                 ++ rest.
Proof.
  intros Hpre Hhl Hft Hfp Hff Hes Hev Hbody Hrun Hcls Hrt Hrp Hrf Hrr Hskip Hrest He toks.
  destruct (one_pass_full symbols pre hl forw es body cls rofw skip rest e v d_at content'
              Hpre Hhl Hft Hfp Hff Hes Hev Hbody Hrun Hcls Hrt Hrp Hrf Hrr Hskip Hrest He) as [_ [r [H1 [H2 _]]]].
  exists r. split; assumption.
Qed.
