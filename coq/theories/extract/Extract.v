(* Extract.v — the only file with Extraction commands.  ExtrOcamlBasic only:
   bool, option, list, prod, unit, sumbool map to OCaml's own; N, Z, positive,
   nat stay the Coq datatypes.  No Extract Constant / Extract Inductive here. *)
From GM Require Import Codec AsmCodec SpecCodec ApiSpec Monitors.
From Coq Require Import ExtrOcamlBasic.
Extraction Language OCaml.
Extraction "model.ml" run_case6 spec_case2 mon_case_all Z.add Z.mul Z.div_eucl Z.opp.
