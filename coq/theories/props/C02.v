(* C02 — battles are scheduled and decided by the standard rules.
   Sim.run_cycle / Sim.run are the literal models of RunCycle / Run that the
   harness runs against gmars; Mars is the reference scheduler.  Rel s t says
   that the reference state t describes the model state s (same core cell for
   cell, same queues, alive flags and completed cycles); Inv is C04's
   invariant; guards are C01's (M <= 2^32, limits 1..M). *)
From GM Require Import Base Exec Sim Emi94 Mars QueueProof InvSim C02Proof.
Open Scope N_scope.

(* one RunCycle call is one cycle of the reference scheduler — every living
   warrior in loading order runs the task at the front of its queue, a warrior
   dies when its queue empties, the cycle is cut short (and not counted) when a
   death leaves one of several alive — or does nothing when the battle is over *)
Theorem C02_cycle_refines_mars :
  forall s t, Inv s -> guards s -> Rel s t ->
  match run_cycle s with
  | Panic => False
  | Ok (s', r, _) =>
    if can_run s t then
      let t' := m_cycle (cfg_of s) t in
      Rel s' t' /\ Inv s' /\ cfg_of s' = cfg_of s /\
      r = (if m_cycles t' =? m_cycles t then 1%Z else Z.of_nat (m_living t'))
    else s' = s /\ r = 0%Z
  end.
Proof. exact run_cycle_refines. Qed.
Print Assumptions C02_cycle_refines_mars.

(* Run() ends in the state reached by iterating cycles until the battle is
   finished, returns the alive flags, and needs at most cycles-left+1 iterations *)
Theorem C02_run_is_stepping :
  forall s t, Inv s -> guards s -> Rel s t -> s_ws s <> [] ->
  forall fuel, (N.to_nat (s_cycles s - s_cycle s) < fuel)%nat ->
  match run fuel s with
  | RunOk s' (Some flags) =>
      Rel s' (m_until_done (cfg_of s) fuel t) /\ Inv s' /\ flags = map alive (s_ws s')
  | _ => False
  end.
Proof. exact run_refines. Qed.
Print Assumptions C02_run_is_stepping.

(* SpawnWarrior loads the code at (offset+i) mod M and queues the entry point
   (offset+start) mod M, for any offset below 2^64 *)
Theorem C02_spawn_refines :
  forall s t wi off, Inv s -> guards s -> Rel s t -> off < two64 ->
  Forall (fun w => (0 <= w_start w)%Z /\
                   Z.to_N (w_start w) + N.of_nat (length (w_code w)) + 2 * s_m s < two64) (s_ws s) ->
  match spawn_warrior s wi off with
  | Panic => False
  | Ok (inr _) =>
      (wi < 0)%Z \/ (Z.of_nat (length (s_ws s)) <= wi)%Z \/
      exists w, nth_error (m_ws t) (Z.to_nat wi) = Some w /\ m_alive w = true
  | Ok (inl (s', _)) =>
      (0 <= wi)%Z /\
      exists t', m_spawn (cfg_of s) t (Z.to_nat wi) off = Some t' /\ Rel s' t' /\ Inv s' /\
                 cfg_of s' = cfg_of s
  end.
Proof. exact spawn_refines. Qed.
Print Assumptions C02_spawn_refines.

(* the process queue: Push appends while fewer than P tasks are held, Pop takes the front *)
Theorem C02_queue_is_bounded_fifo :
  (forall q xs, rq_wf q ->
     rq_wf (fold_left rq_push xs q) /\ q_size (fold_left rq_push xs q) = q_size q /\
     rq_values (fold_left rq_push xs q) = enq (q_size q) (rq_values q) xs) /\
  (forall q, rq_wf q ->
     match rq_pop q with
     | None => rq_values q = []
     | Some (x, q') => rq_values q = x :: rq_values q' /\ rq_wf q' /\ q_size q' = q_size q
     end).
Proof. split; [exact rq_pushes|exact rq_pop_spec]. Qed.
Print Assumptions C02_queue_is_bounded_fifo.
