(* C04 — no program can corrupt or crash the simulator.
   Statements about the literal model Sim.v (every Go panic site is an explicit
   Panic; uint64 wrap-around is modelled, so limits above the core size are
   covered).  Inv is the invariant; bsteps runs any sequence of AddWarrior /
   SpawnWarrior / RunCycle / Run calls. *)
From GM Require Import Base Exec Sim VmArith C01Phase InvExec InvSim.
Open Scope N_scope.

(* a configuration is refused, or creation yields a state satisfying the invariant *)
Theorem C04_create_total :
  forall cfg, c_cycles cfg < two64 ->
    new_sim cfg = None \/ exists s, new_sim cfg = Some s /\ Inv s.
Proof. exact new_sim_inv. Qed.
Print Assumptions C04_create_total.

(* from any state satisfying the invariant, no sequence of operations loading
   well-formed code panics, and the invariant holds afterwards; in particular
   after every cycle of every battle, whatever the limits, offsets and code *)
Theorem C04_inv_reachable :
  forall ops s, Inv s -> Forall (bop_wf (s_m s)) ops ->
    match bsteps s ops with Panic => False | Ok s' => Inv s' end.
Proof. exact bsteps_inv. Qed.
Print Assumptions C04_inv_reachable.

(* one task, for all limits: fields stay below M, queued program counters are below M *)
Theorem C04_exec_preserves_wf :
  forall M rl wl wi, 0 < M -> forall c pc, cwf M c -> pc < M ->
    let '(c', pushes, _) := exec M rl wl wi c pc in
    cwf M c' /\ Forall (fun x => x < M) pushes.
Proof. exact exec_inv. Qed.
Print Assumptions C04_exec_preserves_wf.

(* the invariant is what the property lists; "fresh" = no warrior sits between a
   Reset and its re-spawn (never the case during a battle: C04_fresh_reachable) *)
Theorem C04_inv_observables :
  forall s, Inv s -> Forall fresh_w (s_ws s) ->
    (forall a, a < s_m s -> i_a (get (s_mem s) a) < s_m s /\ i_b (get (s_mem s) a) < s_m s) /\
    Forall (queue_ok (s_m s) (s_procs s)) (s_ws s) /\
    s_cycle s <= s_cycles s /\
    s_living s = Z.of_nat (length (filter alive (s_ws s))).
Proof. exact inv_observables. Qed.
Print Assumptions C04_inv_observables.

Theorem C04_fresh_reachable :
  forall ops s, Forall fresh_w (s_ws s) ->
    match bsteps s ops with Panic => True | Ok s' => Forall fresh_w (s_ws s') end.
Proof. exact bsteps_fresh. Qed.
Print Assumptions C04_fresh_reachable.
