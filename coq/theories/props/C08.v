(* C08 — FOR/ROF blocks assemble exactly like their manual unrolling.
   ForExpand.for_step / for_run is the literal model of the expander state machine of
   forexpand.go (run against gmars on every run: hook kind 21 and whole programs),
   Render.unroll the manual unrolling of an abstract program. *)
From GM Require Import Base Text Token Lexer Scanner ExprSpec ExprEval ForExpand Parser Compile Sim Prog Meaning Render AsmSpec
     C05Lexer C05Expander C08Proof C08Block C08Scan C08Passes C08Flat C03Parse C03Compile C03EquCompile C03Flat C08Subst C08Count.
From Coq Require Import Lia.
Open Scope N_scope.

(* the property at full strength, on the model: a program and its unrolling assemble alike *)
Definition C08_full_statement : Prop :=
  forall s s' cfg p, validate cfg = true ->
    match unroll_prog (mconf_of cfg) 64 p with
    | Some q =>
        match compile_warrior cfg (render s p), compile_warrior cfg (render s' q) with
        | COk c1 st1 _, COk c2 st2 _ => c1 = c2 /\ st1 = st2
        | CErr, CErr => True
        | _, _ => False
        end
    | None => True
    end.

(* proved, at the level of the expander's state machine, for every stream, label list and count: *)

(* what is sent for the body is the body written out count times, the counter replaced by 1, 2, ..., count
   (nothing at all when the count is zero), every other token - block labels included - kept *)
Theorem C08_body_count_times_partial :
  forall n i cl ll body,
    repeat_body n i cl ll body = flat_map (fun j => map (subst_body cl ll j) body) (nseq i n) /\
    repeat_body 0 i cl ll body = [] /\
    (forall t, t_typ t = tokText -> t_val t = cl -> subst_body cl ll i t = mkT tokNumber (dec_of_N i)) /\
    (forall t, (t_typ t <> tokText \/ text_eqb (t_val t) cl = false) -> subst_body cl ll i t = t).
Proof.
  intros n i cl ll body. split; [apply repeat_body_unroll|]. split; [reflexivity|].
  split; [intros t; apply subst_counter|intros t; apply subst_other].
Qed.
Print Assumptions C08_body_count_times_partial.

(* from the ROF line on, whatever the state reached: the block is sent - the first iteration with the labels
   written before the counter standing in front of the body line found for them, then iterations 2 .. count;
   with a count below one only those labels - and then the rest of the program is copied unchanged up to the
   end-of-file token *)
Theorem C08_rof_phase_partial :
  forall symbols n f f' skip rest e junk,
    Forall (fun t => nonterm t /\ t_typ t <> tokNewline) skip -> Forall nonterm rest -> t_typ e = tokEOF ->
    f_rd f = rd_at (skip ++ mkT tokNewline [] :: rest ++ e :: junk) ->
    for_run symbols n FRof f = Some f' ->
    f_out f' = f_out f
               ++ emit_body (Z.to_nat (f_count f)) (f_labels_at f) (f_count_label f) (f_line_labels f) (f_content f)
               ++ rest.
Proof. exact rof_phase. Qed.
Print Assumptions C08_rof_phase_partial.

(* a ROF on the last line of the input, without a newline, closes its block all the same (D28) *)
Theorem C08_rof_at_end_of_input_partial :
  forall symbols n f f' skip e junk,
    Forall (fun t => nonterm t /\ t_typ t <> tokNewline) skip -> t_typ e = tokEOF ->
    f_rd f = rd_at (skip ++ e :: junk) ->
    for_run symbols n FRof f = Some f' ->
    f_out f' = f_out f
               ++ emit_body (Z.to_nat (f_count f)) (f_labels_at f) (f_count_label f) (f_line_labels f) (f_content f).
Proof. exact rof_phase_eof. Qed.
Print Assumptions C08_rof_at_end_of_input_partial.

(* what is sent for the block: without block labels the body written out count times; with block labels the
   same, the labels standing in front of token number a of the first iteration; iterations 2.. are plain *)
Theorem C08_block_shape_partial :
  (forall n cl body, emit_body n None cl [] body = flat_map (fun j => map (subst_body cl [] j) body) (nseq 1 n)) /\
  (forall n at_ cl ll body,
     emit_body (S n) at_ cl ll body =
     emit_first 0 at_ (map (mkT tokText) ll) cl ll body ++ flat_map (fun j => map (subst_body cl ll j) body) (nseq 2 n)) /\
  (forall cl ll labs body a, (a < length body)%nat ->
     emit_first 0 (Some a) labs cl ll body =
     map (subst_body cl ll 1) (firstn a body) ++ labs ++ map (subst_body cl ll 1) (skipn a body)) /\
  (forall cl ll labs body, emit_first 0 None labs cl ll body = map (subst_body cl ll 1) body).
Proof.
  split; [exact emit_body_plain|]. split; [exact emit_body_unroll|]. split.
  - intros cl ll labs body a H. rewrite (emit_first_at cl ll labs body 0 a) by lia.
    replace (a - 0)%nat with a by lia. reflexivity.
  - intros. apply emit_first_none.
Qed.
Print Assumptions C08_block_shape_partial.

(* the FOR line: the count is the value of its expression over the EQU symbols of the pre-scan and the
   predefined constants; the name just before FOR is the counter, the names before it are block labels.
   Their place is the first line of the body itself that is an instruction (D30: not an EQU line) or the
   header of a nested block (whose labels they then become); a colon after a body label is dropped (D29) *)
Theorem C08_block_labels_partial :
  (forall symbols f v,
     expand_and_evaluate (f_expr f) symbols = Some (EOk v) ->
     exists f1, for_step symbols FFor f = Some (f1, Some FInnerLine) /\
       f_count f1 = v /\ f_count_label f1 = last (f_labels f) [] /\ f_line_labels f1 = init_list (f_labels f) /\
       f_labels_at f1 = None /\
       f_content f1 = [] /\ f_out f1 = f_out f /\ f_rd f1 = f_rd f) /\
  (forall symbols f,
     t_typ (f_nt f) = tokText -> tok_is_pseudo (f_nt f) = false -> tok_is_op (f_nt f) = true ->
     f_depth f = O -> f_labels_at f = None ->
     exists f1, for_step symbols FInnerLabels f = Some (f1, Some FInnerEmitLabels) /\
       f_labels_at f1 = Some (length (f_content f)) /\
       f_out f1 = f_out f /\ f_rd f1 = f_rd f /\ f_content f1 = f_content f /\ f_labels f1 = f_labels f) /\
  (forall symbols f,
     t_typ (f_nt f) = tokText -> lower_is (t_val (f_nt f)) "for" = true ->
     f_depth f = O -> f_labels_at f = None ->
     exists f1, for_step symbols FInnerLabels f = Some (f1, Some FInnerEmitLabels) /\
       f_labels_at f1 = Some (length (f_content f)) /\ f_depth f1 = 1%nat /\
       f_out f1 = f_out f /\ f_rd f1 = f_rd f /\ f_content f1 = f_content f /\ f_labels f1 = f_labels f) /\
  (forall symbols f,
     t_typ (f_nt f) = tokText -> tok_is_pseudo (f_nt f) = false -> tok_is_op (f_nt f) = true ->
     (f_depth f <> O \/ f_labels_at f <> None) ->
     for_step symbols FInnerLabels f = Some (f, Some FInnerEmitLabels)) /\
  (forall symbols f,
     t_typ (f_nt f) = tokColon -> for_step symbols FInnerLabels f = Some (f_next f, Some FInnerLabels)).
Proof.
  split; [exact step_for|]. split; [exact step_block_labels|]. split; [exact step_block_labels_nested|].
  split; [exact step_block_labels_done|exact step_inner_colon].
Qed.
Print Assumptions C08_block_labels_partial.

(* ONE PASS of the expander, as a whole, at the token level.  Whatever stands in front of the first block
   (lines that do not begin with a word; labels - with line ends, comments and colons between them - and then an
   instruction or a pseudo-op other than FOR), a header (labels, FOR, the count expression with comments dropped),
   a body of any lines with nested blocks properly closed (body_run follows the nesting depth and finds the place
   of the block labels), the closing ROF line, the rest of the program and the end-of-file token: the pass ends
   and sends exactly the lines in front (labels re-attached), the block written out (first iteration with the
   block labels in place, then iterations 2 .. count), and the rest, unchanged. *)
Theorem C08_one_pass_partial :
  forall symbols pre hl forw es body cls rofw skip rest e v d_at content',
    Forall pline_ok pre ->
    plbl_ok hl -> t_typ forw = tokText -> tok_is_pseudo forw = true -> lower_is (t_val forw) "for" = true -> Forall plain_tok es ->
    expand_and_evaluate (filter noncomment es) symbols = Some (EOk v) ->
    Forall bline_ok body -> body_run body 0 None [] = Some (O, d_at, content') ->
    Forall (fun vc => is_label (fst vc)) cls ->
    t_typ rofw = tokText -> tok_is_pseudo rofw = true -> lower_is (t_val rofw) "for" = false -> lower_is (t_val rofw) "rof" = true ->
    Forall plain_tok skip -> Forall nonterm rest -> t_typ e = tokEOF ->
    let toks := flat_map pl_toks pre ++ (plbl_seg hl ++ forw :: es ++ [nlt]) ++ flat_map bl_toks body
                ++ lbl_seg cls ++ rofw :: skip ++ (nlt :: rest ++ [e]) in
    exists r, for_expand toks symbols = Some (Some r) /\
      fr_sends r = flat_map pl_out pre
                   ++ emit_body (Z.to_nat v) d_at (last (map fst hl) []) (init_list (map fst hl)) content'
                   ++ rest.
Proof. exact one_pass. Qed.
Print Assumptions C08_one_pass_partial.

(* the premises are satisfiable: `x i for 2 / lbl dat i / j for 1 / dat j / rof / rof / jmp x` *)
Example C08_one_pass_example :
  let T := mkT tokText in let d := s2t "dat" in
  let body := [mkBL [(s2t "lbl", 1%nat)] [T d; T (s2t "i")];
               mkBL [(s2t "j", 0%nat)] [T (s2t "for"); mkT tokNumber [49]];
               mkBL [] [T d; T (s2t "j")];
               mkBL [] [T (s2t "rof")]] in
  Forall bline_ok body /\
  body_run body 0 None [] =
    Some (O, Some O, [T (s2t "lbl"); T d; T (s2t "i"); nlt; T (s2t "j"); T (s2t "for"); mkT tokNumber [49]; nlt;
                      T d; T (s2t "j"); nlt; T (s2t "rof"); nlt]).
Proof. cbv zeta. split; [repeat constructor; cbn; discriminate|vm_compute; reflexivity]. Qed.

(* THE PASS DRIVER.  One pass of CompileWarrior's driver, scanner included: on a stream whose first block is as above,
   where the lines in front define the EQU symbols syms (C08Scan.scan_spec: the definitions in order; a name
   defined twice is an error, an END line hides the block) and the count evaluates to v over these symbols and the
   predefined constants, the driver continues with the stream in which the block is written out. *)
Theorem C08_pass_driver_partial :
  forall cfg k pre hl forw es body cls rofw skip rest e v d_at content' syms,
    Forall pline_ok pre ->
    plbl_ok hl -> t_typ forw = tokText -> tok_is_pseudo forw = true -> lower_is (t_val forw) "for" = true -> Forall plain_tok es ->
    front_symbols pre = Some syms ->
    expand_and_evaluate (filter noncomment es) (with_constants cfg syms) = Some (EOk v) ->
    Forall bline_ok body -> body_run body 0 None [] = Some (O, d_at, content') ->
    Forall (fun vc => is_label (fst vc)) cls ->
    t_typ rofw = tokText -> tok_is_pseudo rofw = true -> lower_is (t_val rofw) "for" = false -> lower_is (t_val rofw) "rof" = true ->
    Forall plain_tok skip -> Forall nonterm rest -> t_typ e = tokEOF ->
    pass_loop cfg (S k)
      (flat_map pl_toks pre ++ (plbl_seg hl ++ forw :: es ++ [nlt]) ++ flat_map bl_toks body
       ++ lbl_seg cls ++ rofw :: skip ++ (nlt :: rest ++ [e])) =
    pass_loop cfg k
      (flat_map pl_out pre ++ emit_body (Z.to_nat v) d_at (last (map fst hl) []) (init_list (map fst hl)) content' ++ rest ++ [tEOF]).
Proof. exact pass_step. Qed.
Print Assumptions C08_pass_driver_partial.

(* THE PASSES ADD UP.  `unrolls cfg k toks final`: final is obtained from toks by writing out the first block of
   the stream k times in a row (each time with the symbols in front of that block), and has no block left.  Then
   the driver returns exactly final, whenever it is given more than k passes (CompileWarrior gives 1000). *)
Theorem C08_passes_partial :
  forall cfg k toks final, unrolls cfg k toks final -> forall n, (k < n)%nat -> pass_loop cfg n toks = Some (Some final).
Proof. exact driver_unrolls. Qed.
Print Assumptions C08_passes_partial.

(* ... and therefore a text with FOR blocks is assembled exactly like any text whose tokens are its unrolling
   (same code, same entry point, same metadata, same refusal): the statement of C08 on the model, with the
   unrolling given as the token-level relation `unrolls` (blocks in sequence, nested, counts from expressions,
   zero counts, block labels: whatever the single steps allow). *)
Theorem C08_assembles_like_unrolling_partial :
  forall cfg k t1 t2 toks final,
    lex_ascii t1 = Some toks -> lex_ascii t2 = Some final -> unrolls cfg k toks final -> (k <= max_for_passes)%nat ->
    counts_modelled toks None = true -> counts_modelled final None = true ->
    compile_warrior cfg t1 = compile_warrior cfg t2.
Proof. exact assembles_like_unrolling. Qed.
Print Assumptions C08_assembles_like_unrolling_partial.

(* non-vacuity: `x i for 2 / dat i / rof / jmp x` unrolls in one step to `x dat 1 / dat 2 / jmp x`, and the two
   texts are assembled alike (by the theorem, not by evaluation) *)
Module C08Example.
Definition T := mkT tokText.
Definition src : text := s2t "x i for 2" ++ [10%N] ++ s2t " dat i" ++ [10%N] ++ s2t "rof" ++ [10%N] ++ s2t "jmp x" ++ [10%N].
Definition unrolled : text := s2t "x dat 1" ++ [10%N] ++ s2t "dat 2" ++ [10%N] ++ s2t "jmp x" ++ [10%N].
Definition cfg94 := mkCfg 2 8000 8000 80000 8000 8000 100 100.
Definition toks1 : list token :=
  flat_map pl_toks [] ++ (plbl_seg [(s2t "x", []); (s2t "i", [])] ++ T (s2t "for") :: [mkT tokNumber [50%N]] ++ [nlt])
  ++ flat_map bl_toks [mkBL [] [T (s2t "dat"); T (s2t "i")]] ++ lbl_seg [] ++ T (s2t "rof") :: [] ++ (nlt :: [T (s2t "jmp"); T (s2t "x"); nlt] ++ [tEOF]).
Definition pre2 : list pline :=
  [mkPL [(s2t "x", [])] [T (s2t "dat"); mkT tokNumber [49%N]]; mkPL [] [T (s2t "dat"); mkT tokNumber [50%N]]; mkPL [] [T (s2t "jmp"); T (s2t "x")]].
Example unrolls_in_one_step : unrolls cfg94 1 toks1 (flat_map pl_toks pre2 ++ [tEOF]).
Proof.
  unfold toks1.
  apply (U_step cfg94 0 [] [(s2t "x", []); (s2t "i", [])] (T (s2t "for")) [mkT tokNumber [50%N]] [mkBL [] [T (s2t "dat"); T (s2t "i")]] []
                (T (s2t "rof")) [] [T (s2t "jmp"); T (s2t "x"); nlt] tEOF 2%Z (Some O) [T (s2t "dat"); T (s2t "i"); nlt] []);
    try reflexivity; try (repeat constructor; cbn; try discriminate; fail).
  replace (flat_map pl_out [] ++ emit_body (Z.to_nat 2) (Some 0%nat) (last (map fst [(s2t "x", @nil token); (s2t "i", [])]) [])
               (init_list (map fst [(s2t "x", @nil token); (s2t "i", [])])) [T (s2t "dat"); T (s2t "i"); nlt]
             ++ [T (s2t "jmp"); T (s2t "x"); nlt] ++ [tEOF])
      with (flat_map pl_toks pre2 ++ [tEOF]) by (vm_compute; reflexivity).
  apply U_done; [|reflexivity|vm_compute; discriminate].
  assert (Plain : forall l, Forall (fun t => is_terminal t = false /\ t_typ t <> tokNewline) l -> Forall plain_tok l) by (intros l H; exact H).
  constructor; [|constructor; [|constructor; [|constructor]]].
  - split; [repeat constructor; cbn; intuition discriminate|]. split; [repeat constructor; cbn; discriminate|].
    cbn. split; [reflexivity|right; split; reflexivity].
  - split; [constructor|]. split; [repeat constructor; cbn; discriminate|]. cbn. right. split; [reflexivity|right; split; reflexivity].
  - split; [constructor|]. split; [repeat constructor; cbn; discriminate|]. cbn. right. split; [reflexivity|right; split; reflexivity].
Qed.
Example assembled_alike : compile_warrior cfg94 src = compile_warrior cfg94 unrolled.
Proof.
  apply (C08_assembles_like_unrolling_partial cfg94 1 src unrolled toks1 (flat_map pl_toks pre2 ++ [tEOF]));
    [vm_compute; reflexivity|vm_compute; reflexivity|exact unrolls_in_one_step|unfold max_for_passes; lia|vm_compute; reflexivity|vm_compute; reflexivity].
Qed.
End C08Example.

(* the simplest blocks, closed: a FOR block without labels or counter whose body is a run of unlabelled lines whose
   first words are neither FOR nor ROF (flat_bline) is replaced, in one pass, by its body written out count times -
   the derivation of `unrolls` constructed for every such stream (any lines in front, any count expression that
   evaluates with the symbols in front, any tail), given how the written-out stream unrolls further (k more blocks; k = 0: no FOR left) *)
Theorem C08_plain_block_unrolls_partial :
  forall cfg k final pre forw es body rofw skip rest syms v,
    Forall pline_ok pre ->
    t_typ forw = tokText -> tok_is_pseudo forw = true -> lower_is (t_val forw) "for" = true -> Forall plain_tok es ->
    front_symbols pre = Some syms ->
    expand_and_evaluate (filter noncomment es) (with_constants cfg syms) = Some (EOk v) ->
    Forall flat_bline body ->
    t_typ rofw = tokText -> tok_is_pseudo rofw = true -> lower_is (t_val rofw) "for" = false -> lower_is (t_val rofw) "rof" = true ->
    Forall plain_tok skip -> Forall nonterm rest ->
    let out := flat_map pl_out pre ++ flat_map (fun _ : N => flat_map bl_toks body) (nseq 1 (Z.to_nat v)) ++ rest ++ [tEOF] in
    unrolls cfg k out final ->
    unrolls cfg (S k) (flat_map pl_toks pre ++ (forw :: es ++ [nlt]) ++ flat_map bl_toks body ++ rofw :: skip ++ (nlt :: rest ++ [tEOF])) final.
Proof. exact flat_block_unrolls. Qed.
Print Assumptions C08_plain_block_unrolls_partial.

(* the comment idiom: a block without labels or counter whose count is not positive disappears in one pass, whatever
   its body is (any lines, nested blocks included: body_run finds the closing ROF) *)
Theorem C08_zero_block_unrolls_partial :
  forall cfg k final pre forw es body cls rofw skip rest syms v d_at content',
    Forall pline_ok pre ->
    t_typ forw = tokText -> tok_is_pseudo forw = true -> lower_is (t_val forw) "for" = true -> Forall plain_tok es ->
    front_symbols pre = Some syms ->
    expand_and_evaluate (filter noncomment es) (with_constants cfg syms) = Some (EOk v) -> (v <= 0)%Z ->
    Forall bline_ok body -> body_run body 0 None [] = Some (O, d_at, content') ->
    Forall (fun vc => is_label (fst vc)) cls ->
    t_typ rofw = tokText -> tok_is_pseudo rofw = true -> lower_is (t_val rofw) "for" = false -> lower_is (t_val rofw) "rof" = true ->
    Forall plain_tok skip -> Forall nonterm rest ->
    let out := flat_map pl_out pre ++ rest ++ [tEOF] in
    unrolls cfg k out final ->
    unrolls cfg (S k) (flat_map pl_toks pre ++ (forw :: es ++ [nlt]) ++ flat_map bl_toks body ++ lbl_seg cls ++ rofw :: skip ++ (nlt :: rest ++ [tEOF])) final.
Proof. exact zero_block_unrolls. Qed.
Print Assumptions C08_zero_block_unrolls_partial.

(* and with a counter: `c FOR count` over such lines is replaced by the body written out count times with the counter
   replaced by 1 .. count *)
Theorem C08_counter_block_unrolls_partial :
  forall cfg k final pre c forw es body rofw skip rest syms v,
    Forall pline_ok pre -> is_label c ->
    t_typ forw = tokText -> tok_is_pseudo forw = true -> lower_is (t_val forw) "for" = true -> Forall plain_tok es ->
    front_symbols pre = Some syms ->
    expand_and_evaluate (filter noncomment es) (with_constants cfg syms) = Some (EOk v) ->
    Forall cnt_bline body ->
    t_typ rofw = tokText -> tok_is_pseudo rofw = true -> lower_is (t_val rofw) "for" = false -> lower_is (t_val rofw) "rof" = true ->
    Forall plain_tok skip -> Forall nonterm rest ->
    let out := flat_map pl_out pre ++ flat_map (fun j => map (subst_body c [] j) (flat_map bl_toks body)) (nseq 1 (Z.to_nat v)) ++ rest ++ [tEOF] in
    unrolls cfg k out final ->
    unrolls cfg (S k) (flat_map pl_toks pre ++ (mkT tokText c :: forw :: es ++ [nlt]) ++ flat_map bl_toks body ++ rofw :: skip ++ (nlt :: rest ++ [tEOF])) final.
Proof. exact counter_block_unrolls. Qed.
Print Assumptions C08_counter_block_unrolls_partial.

(* the link to the abstract unrolling, for one line: replacing the counter word by the number j in the tokens of a
   rendered instruction line (what the expander does) gives the rendering of the line with the counter replaced by the
   literal j in its operand expressions (what Render.unroll does: subst_item) - for every expression, mode and mnemonic *)
Theorem C08_copy_renders_partial :
  forall spell spellc cid c, spellc cid = c -> (forall id, id <> cid -> spellc id = spell id /\ spell id <> c) ->
  forall j l t, il_labels l = [] -> renders_line spellc l t ->
    match subst_elem c j (LInstr t) with
    | LInstr t' => renders_line spell (subst_line cid (Z.of_N j) l) t' /\
                   Render.subst_item 1 cid (Z.of_N j) (IInstr l) = IInstr (subst_line cid (Z.of_N j) l)
    | _ => False
    end.
Proof.
  intros spell spellc cid c Hc Ho j l t Hl Hr. pose proof (copy_renders spell spellc cid c Hc Ho j l t Hl Hr) as H.
  cbn [subst_elem] in *. split; [exact H|reflexivity].
Qed.
Print Assumptions C08_copy_renders_partial.

(* the count of a block: ExpandAndEvaluate over the EQU definitions in front of the block (as the scanner hands them
   over, followed by the predefined constants) gives the value the reference gives the count expression over those
   definitions - for every expression without negative literals, definitions nested to any depth along a rank *)
Theorem C08_block_count_partial :
  forall spell cfg ev, spell_ok spell (map fst ev) ->
  forall rkN e v, env_nn ev -> ranked spell ev rkN -> Forall nn_ntok (nprint e) ->
    value_at (mconf_of cfg) ev [] 0 e = MV v ->
    expand_and_evaluate (etoks spell e) (with_constants cfg (equ_entries spell ev)) = Some (EOk v).
Proof. exact block_count. Qed.
Print Assumptions C08_block_count_partial.

(* missing: that the token-level relation `unrolls` holds between the rendering of an abstract program and the
   rendering of its unrolling (Render.unroll) for every program - each instance is a finite derivation like the
   example's - and the composition with the reference meaning.  These are decided on every run by the correspondence:
   generated programs (blocks in sequence, nested to depth 3, counts 0..6 from literals and EQU expressions, counters
   in inner and outer operand expressions, block labels) and their extracted unrollings are assembled by gmars and by
   the extracted model and compared with each other and with the extracted meaning. *)

(* D35: a block with a count below one sends exactly the labels written in front of its counter - they fall onto what
   follows the block - whatever its body holds, an empty body included *)
Theorem C08_zero_count_sends_its_labels_partial :
  forall at_ cl ll body, ForExpand.emit_body 0 at_ cl ll body = map (mkT tokText) ll.
Proof. reflexivity. Qed.
Print Assumptions C08_zero_count_sends_its_labels_partial.
Example empty_zero_count_block_first :
  compile_warrior (mkCfg 2 8000 8000 80000 8000 8000 100 100)
    (s2t "a i for 2" ++ [10%N] ++ s2t "j for 0" ++ [10%N] ++ s2t "rof" ++ [10%N] ++ s2t "dat i" ++ [10%N] ++ s2t "rof" ++ [10%N] ++ s2t "jmp a" ++ [10%N])
  = compile_warrior (mkCfg 2 8000 8000 80000 8000 8000 100 100)
    (s2t "a dat 1" ++ [10%N] ++ s2t "dat 2" ++ [10%N] ++ s2t "jmp a" ++ [10%N]).
Proof. vm_compute. reflexivity. Qed.
