(* C10 — the load-file reader rejects what it cannot represent.
   Load.parse_load_file is the literal model of ParseLoadFile (both dialects),
   a total function of the file's bytes: every slice index of the Go code is
   guarded by a length test the model mirrors, so there is no panic site to
   model; that gmars itself neither panics nor hangs on any input is what the
   harness checks on every run.  legal88 is the independently written table;
   line_kind / count_instr (spec/AsmSpec.v) classify the lines of a file. *)
From GM Require Import Base Text Load Sim Meaning AsmSpec C06Proof C10Proof.
Open Scope N_scope.

(* an accepted file denotes a well-formed warrior *)
Theorem C10_accepted_wf :
  forall cfg s code start, 3 <= c_size cfg ->
    parse_load_file cfg s = LOk code start ->
    Forall (wf_instr (c_size cfg)) code /\
    (0 <= start /\ (start < Z.of_nat (length code) \/ start = 0))%Z /\
    (c_mode cfg = 0 -> Forall (fun i => legal88 i = true) code).
Proof. exact load_accepts_wf. Qed.
Print Assumptions C10_accepted_wf.

(* nothing is skipped silently: the number of instructions read equals the number of
   instruction-bearing lines (non-blank, non-comment, not a directive) before the end marker *)
Theorem C10_no_silent_skip :
  forall cfg s code start,
    parse_load_file cfg s = LOk code start ->
    length code = count_instr (c_mode cfg =? 0) (read_lines s []).
Proof. exact load_no_silent_skip. Qed.
Print Assumptions C10_no_silent_skip.

(* the reader is a total function: it answers every text with an error or a warrior *)
Theorem C10_total :
  forall cfg s, parse_load_file cfg s = LErr \/ exists code start, parse_load_file cfg s = LOk code start.
Proof. intros cfg s. destruct (parse_load_file cfg s); eauto. Qed.
Print Assumptions C10_total.

(* a line that holds something, but nothing except commas and white space in front of its remark, is neither blank nor a
   comment: both readers refuse it (D32: they used to skip it like a blank line) - and such a line counts as
   instruction-bearing in C10_no_silent_skip (AsmSpec.line_kind), so an accepted file holds none *)
Theorem C10_comma_only_line_refused :
  forall m st raw c0 rest,
    raw = c0 :: rest -> c0 <> 59 ->
    fields (commas_to_spaces (before_semicolon (lower raw))) = [] -> fields (before_semicolon (lower raw)) <> [] ->
    line94 m st raw = None /\ line88 m st raw = None.
Proof. exact comma_line_refused. Qed.
Print Assumptions C10_comma_only_line_refused.
Example comma_only_lines :
  parse_load_file (mkCfg 2 8000 8000 80000 8000 8000 100 100) (s2t "," ++ [10] ++ s2t "MOV.I $ 0, $ 1" ++ [10]) = LErr /\
  parse_load_file (mkCfg 0 8000 8000 80000 8000 8000 100 100) (s2t "MOV $ 0, $ 1" ++ [10] ++ s2t " , , ; c" ++ [10]) = LErr /\
  parse_load_file (mkCfg 0 8000 8000 80000 8000 8000 100 100) (s2t "MOV $ 0, $ 1" ++ [10] ++ s2t "   ; c" ++ [10]) <> LErr.
Proof. split; [vm_compute; reflexivity|]. split; [vm_compute; reflexivity|vm_compute; discriminate]. Qed.
