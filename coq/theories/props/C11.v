(* C11 — no access reaches beyond the configured read and write distances.
   Statements about Exec.exec (the literal model the harness runs against gmars);
   cdistN is the distance around the circular core. *)
From GM Require Import Base Exec Emi94 Locality C01Phase C11Proof C11Top.
Open Scope N_scope.

(* every cell that differs after a step is within floor(W/2) of the program counter *)
Theorem C11_write_locality :
  forall M R W wi c pc,
    2 <= M -> M <= 2 ^ 32 -> 1 <= R <= M -> 1 <= W <= M -> cwf M c -> pc < M ->
    forall a, get (fst (fst (exec M R W wi c pc))) a <> get c a -> cdistN M pc a <= W / 2.
Proof. exact model_write_local. Qed.
Print Assumptions C11_write_locality.

(* every queued successor other than pc+1 / pc+2 is within floor(R/2) *)
Theorem C11_jump_locality :
  forall M R W wi c pc,
    2 <= M -> M <= 2 ^ 32 -> 1 <= R <= M -> 1 <= W <= M -> cwf M c -> pc < M ->
    forall x, In x (snd (fst (exec M R W wi c pc))) ->
    x = (pc + 1) mod M \/ x = (pc + 2) mod M \/ cdistN M pc x <= R / 2.
Proof. exact model_jump_local. Qed.
Print Assumptions C11_jump_locality.

(* the instruction copied for an operand is fetched within floor(R/2) *)
Theorem C11_fetch_locality :
  forall M R W c pc md num,
    2 <= M -> 1 <= R <= M -> 1 <= W <= M -> pc < M ->
    let '(_, rp, _, ir) := eval_operand M R W c pc md num in
    cdistN M pc (addr M pc rp) <= R / 2 /\ exists c1, ir = get c1 (addr M pc rp).
Proof. exact fetch_local. Qed.
Print Assumptions C11_fetch_locality.

(* with both limits equal to the core size the step is the step with limits ignored *)
Theorem C11_full_limits_noop :
  forall M wi c pc, 2 <= M -> M <= 2 ^ 32 -> cwf M c -> pc < M ->
    let '(c', pushes, _) := exec M M M wi c pc in
    let '(c'', succs) := step_core_unlimited M c pc in
    (forall a, get c' a = get c'' a) /\ pushes = succs.
Proof. exact model_full_limits. Qed.
Print Assumptions C11_full_limits_noop.
