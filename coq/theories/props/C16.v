(* C16 — the printed load listing denotes the warrior it was printed from.
   Listing.load_code_text is the literal model of warrior.go LoadCode /
   sim.go addressSigned (run against gmars on every run, kind 12);
   LoadPrint.read_listing is the independently written reader of pMARS load
   listings (START label, ORG START / END START, signed fields, implied
   modifier in '88 mode). *)
From GM Require Import Base Text Token Parser Compile Load Listing Sim Meaning LoadPrint AsmSpec C06Proof C10Proof C16Proof.
Open Scope N_scope.

(* every well-formed warrior, every core size up to 2^63, both dialects, every entry point:
   the listing reads back to exactly the instructions and entry point *)
Theorem C16_listing_denotes :
  forall m legacy code start,
    0 < m -> m <= 2 ^ 63 ->
    Forall (fun i => i_a i < m /\ i_b i < m) code ->
    (legacy = true -> Forall (fun i => legal88 i = true) code) ->
    (0 <= start < Z.of_nat (length code))%Z ->
    read_listing legacy m (load_code_text m legacy code start) = Some (code, start).
Proof. exact listing_denotes. Qed.
Print Assumptions C16_listing_denotes.

(* the empty warrior prints nothing, which reads back as the empty warrior *)
Theorem C16_empty :
  forall m legacy start, read_listing legacy m (load_code_text m legacy [] start) = Some ([], 0%Z).
Proof. exact listing_empty. Qed.
Print Assumptions C16_empty.

(* warriors produced by the assembler (C06) satisfy the hypotheses: whatever compile accepts reads back *)
Theorem C16_after_assembler :
  forall cfg lines meta code start meta',
    0 < c_size cfg -> c_size cfg <= 2 ^ 63 ->
    compile cfg lines meta = COk code start meta' -> code <> [] ->
    read_listing (c_mode cfg =? 0) (c_size cfg) (load_code_text (c_size cfg) (c_mode cfg =? 0) code start) = Some (code, start).
Proof.
  intros cfg lines meta code start meta' Hm Hm' E Hne.
  destruct (compile_accepts_wf cfg lines meta code start meta' E) as [Hwf [Hs [_ H88]]].
  apply listing_denotes; try assumption.
  - intros L. apply H88. apply N.eqb_eq. exact L.
  - destruct Hs as [H0 [H1 | [_ H2]]]; [split; assumption|congruence].
Qed.
Print Assumptions C16_after_assembler.

(* and so do warriors produced by the load-file reader (C10) *)
Theorem C16_after_loader :
  forall cfg s code start,
    3 <= c_size cfg -> c_size cfg <= 2 ^ 63 ->
    parse_load_file cfg s = LOk code start -> (start < Z.of_nat (length code))%Z ->
    read_listing (c_mode cfg =? 0) (c_size cfg) (load_code_text (c_size cfg) (c_mode cfg =? 0) code start) = Some (code, start).
Proof.
  intros cfg s code start Hm Hm' E Hlt.
  destruct (load_accepts_wf cfg s code start Hm E) as [Hwf [Hs H88]].
  apply listing_denotes; try assumption.
  - apply N.lt_le_trans with 3; [reflexivity|exact Hm].
  - intros L. apply H88. apply N.eqb_eq. exact L.
  - split; [apply Hs|exact Hlt].
Qed.
Print Assumptions C16_after_loader.
