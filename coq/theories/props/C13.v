(* C13 — any sequence of simulator API calls behaves like the documented machine.
   Codec.api_call is the literal model of one API call as the harness drives it
   (None = panic, or Run still looping when the fuel cycles+2 is exhausted);
   ApiSpec / Mars is the documented machine; Rel ties model states to it. *)
From GM Require Import Base Exec Sim Codec Emi94 Mars ApiSpec InvSim C02Proof C13Proof.
Open Scope N_scope.

(* no call sequence — any indexes, any offsets, any order — panics or hangs *)
Theorem C13_no_panic_no_hang :
  forall ds ops s, Inv s -> aop_wf (s_m s) ds ->
    exists s', api_states ds s ops = Some s' /\ Inv s'.
Proof. exact api_never_panics. Qed.
Print Assumptions C13_no_panic_no_hang.

(* RunCycle: one reference cycle when the battle can be stepped; otherwise
   (finished, empty or never-started battle) it returns 0 and changes nothing *)
Theorem C13_run_cycle_refines_spec :
  forall s t, Inv s -> guards s -> Rel s t ->
  match run_cycle s with
  | Panic => False
  | Ok (s', r, _) =>
    if a_can_run (cfg_of s) t then
      let t' := m_cycle (cfg_of s) t in
      Rel s' t' /\ Inv s' /\ cfg_of s' = cfg_of s /\
      r = (if m_cycles t' =? m_cycles t then 1%Z else Z.of_nat (m_living t'))
    else s' = s /\ r = 0%Z
  end.
Proof. exact run_cycle_refines. Qed.
Print Assumptions C13_run_cycle_refines_spec.

(* Run: the reference run-to-completion, the alive flags as result *)
Theorem C13_run_refines_spec :
  forall s t, Inv s -> guards s -> Rel s t -> s_ws s <> [] ->
  forall fuel, (N.to_nat (s_cycles s - s_cycle s) < fuel)%nat ->
  match run fuel s with
  | RunOk s' (Some flags) =>
      Rel s' (m_until_done (cfg_of s) fuel t) /\ Inv s' /\ flags = map alive (s_ws s')
  | _ => False
  end.
Proof. exact run_refines. Qed.
Print Assumptions C13_run_refines_spec.

(* SpawnWarrior: refused exactly for an unknown index or a running warrior, else the reference spawn *)
Theorem C13_spawn_refines_spec :
  forall s t wi off, Inv s -> guards s -> Rel s t -> off < two64 ->
  Forall (fun w => (0 <= w_start w)%Z /\
                   Z.to_N (w_start w) + N.of_nat (length (w_code w)) + 2 * s_m s < two64) (s_ws s) ->
  match spawn_warrior s wi off with
  | Panic => False
  | Ok (inr _) =>
      (wi < 0)%Z \/ (Z.of_nat (length (s_ws s)) <= wi)%Z \/
      exists w, nth_error (m_ws t) (Z.to_nat wi) = Some w /\ m_alive w = true
  | Ok (inl (s', _)) =>
      (0 <= wi)%Z /\
      exists t', m_spawn (cfg_of s) t (Z.to_nat wi) off = Some t' /\ Rel s' t' /\ Inv s' /\
                 cfg_of s' = cfg_of s
  end.
Proof. exact spawn_refines. Qed.
Print Assumptions C13_spawn_refines_spec.

(* Reset yields the state of a fresh simulator holding the same (not started) warriors *)
Theorem C13_reset_fresh :
  forall s t, Rel s t ->
  Rel (fst (reset s))
      (mkM empty_core (map (fun w => mkMW (mw_code w) (mw_start w) MAdded []) (m_ws t)) 0)
  /\ (forall c s0, new_sim c = Some s0 -> Rel s0 (mkM empty_core [] 0)).
Proof. exact reset_is_fresh. Qed.
Print Assumptions C13_reset_fresh.

(* AddWarrior and GetMem *)
Theorem C13_add_getmem :
  (forall s t code start, Rel s t ->
     Rel (add_warrior s code start)
         (mkM (m_core t) (m_ws t ++ [mkMW code start MAdded []]) (m_cycles t))) /\
  (forall s t a, Inv s -> Rel s t -> get_mem s a = get (m_core t) (a mod s_m s)).
Proof. split; [exact add_refines|exact get_mem_refines]. Qed.
Print Assumptions C13_add_getmem.
