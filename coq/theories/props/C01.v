(* C01 — every instruction step follows ICWS'94 semantics, including read/write limits.
   Statement only; proofs are in proofs/.  Exec.step is the literal uint64 model
   of sim.go exec + simops.go + queue.go that the correspondence check runs
   against gmars on every run; Emi94.step is the reference emulator. *)
From GM Require Import Base Exec Emi94 QueueProof C01Exec C01Phase C01Top.
Open Scope N_scope.

(* one task: same core cell for cell on [0,M), same queue element for element,
   for every core size 2..2^32, limits 1..M, process limit >= 1, well-formed core, pc < M *)
Theorem C01_step_refines_emi94 :
  forall M R W P wi c pc q,
    2 <= M -> M <= 2 ^ 32 -> 1 <= R <= M -> 1 <= W <= M -> 1 <= P ->
    core_wf M c -> pc < M -> rq_wf q -> q_size q = P ->
    let '(c', q') := Exec.step M R W wi c pc q in
    let '(c'', l) := Emi94.step M R W P c pc (rq_values q) in
    core_eq M c' c'' /\ rq_values q' = l /\ rq_wf q' /\ q_size q' = P /\ core_wf M c''.
Proof. exact step_refines. Qed.
Print Assumptions C01_step_refines_emi94.

(* the same at the level of exec: extensional equality on every address, and the
   Push calls are exactly the reference's successor tasks, all below M *)
Theorem C01_exec_refines_emi94 :
  forall M R W wi, 2 <= M -> M <= 2 ^ 32 -> 1 <= R <= M -> 1 <= W <= M ->
  forall c pc, cwf M c -> pc < M ->
    let '(c', pushes, _) := exec M R W wi c pc in
    let '(c'', succs) := step_core M R W c pc in
    (forall a, get c' a = get c'' a) /\ pushes = succs /\ cwf M c'' /\
    Forall (fun x => x < M) succs.
Proof. exact exec_refines. Qed.
Print Assumptions C01_exec_refines_emi94.

(* the ring buffer of queue.go is a bounded first-in-first-out queue *)
Theorem C01_queue_is_bounded_fifo :
  forall q xs, rq_wf q ->
    rq_wf (fold_left rq_push xs q) /\ q_size (fold_left rq_push xs q) = q_size q /\
    rq_values (fold_left rq_push xs q) = enq (q_size q) (rq_values q) xs.
Proof. exact rq_pushes. Qed.
Print Assumptions C01_queue_is_bounded_fifo.
