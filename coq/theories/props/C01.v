From GM Require Import Emi94.
Theorem C01_placeholder : True. Proof. exact I. Qed.
Print Assumptions C01_placeholder.
