(* C09 — load-file text round-trips through the loader and the assembler.
   LoadPrint.loadprint is the canonical load-file layout under a style number
   from which every layout decision is drawn (letter case per character,
   blanks / tabs, CR-LF or LF, comment / blank / ;name lines between lines,
   a missing final newline, fields printed signed or unsigned);
   Load.parse_load_file is the literal model of load.go (run against gmars on
   every run), Compile.compile_warrior the literal model of the assembler. *)
From GM Require Import Base Text Token Compile Load Sim Meaning Render LoadPrint AsmSpec C06Proof C10Proof C16Proof C09Proof
     Parser C09Compile C09Asm.
Open Scope N_scope.

(* the property at full strength: both readers return the warrior, under every style *)
Definition C09_full_statement : Prop :=
  forall s cfg code start,
    0 < c_size cfg -> c_size cfg <= 2 ^ 63 ->
    Forall (fun i => i_a i < c_size cfg /\ i_b i < c_size cfg) code ->
    (c_mode cfg = 0 -> Forall (fun i => legal88 i = true) code) ->
    (0 <= start < Z.of_nat (length code))%Z -> (start < 2 ^ 31)%Z ->
    let t := loadprint s (c_mode cfg =? 0) (c_size cfg) code start in
    parse_load_file cfg t = LOk code start /\
    exists meta, compile_warrior cfg t = COk code start meta.

(* proved: (1) the load-file reader half, for every style, core size up to 2^63, both dialects, every
   instruction form, every entry point; (2) the assembler half for the canonical layout itself
   (LoadPrint.canon_print: one fully explicit instruction per line, single blanks, LF line ends, ORG first
   or END last, fields unsigned or signed) - an end-to-end theorem through lexer, symbol scanner, parser and
   compiler, for every warrior, both dialects, every core size whose fields an operand expression can
   denote (M <= 2^31).  Missing: the assembler half under every layout style of loadprint (letter case,
   tabs, CR-LF, comment / blank / metadata lines, missing final newline), decided on every run by the
   correspondence (kinds 10 / 32 of the harness: gmars' CompileWarrior and ParseLoadFile on the rendered
   text against the warrior); the lexer part of it is C03_spacing_independent_partial. *)
Theorem C09_round_trip_partial :
  forall s cfg code start,
    0 < c_size cfg -> c_size cfg <= 2 ^ 63 ->
    Forall (fun i => i_a i < c_size cfg /\ i_b i < c_size cfg) code ->
    (c_mode cfg = 0 -> Forall (fun i => legal88 i = true) code) ->
    (0 <= start < Z.of_nat (length code))%Z -> (start < 2 ^ 31)%Z ->
    parse_load_file cfg (loadprint s (c_mode cfg =? 0) (c_size cfg) code start) = LOk code start.
Proof. exact loader_round_trip. Qed.
Print Assumptions C09_round_trip_partial.

(* what the reader accepts (C10) prints and reads back to itself: print-then-read is the identity on
   the image of the reader, so reading is idempotent through the canonical text *)
Theorem C09_reader_fixpoint :
  forall s cfg txt code start,
    3 <= c_size cfg -> c_size cfg <= 2 ^ 63 ->
    parse_load_file cfg txt = LOk code start -> (start < Z.of_nat (length code))%Z -> (start < 2 ^ 31)%Z ->
    parse_load_file cfg (loadprint s (c_mode cfg =? 0) (c_size cfg) code start) = LOk code start.
Proof.
  intros s cfg txt code start Hm Hm' E Hlt H31.
  destruct (load_accepts_wf cfg txt code start Hm E) as [Hwf [Hs H88]].
  apply loader_round_trip; try assumption.
  - apply N.lt_le_trans with 3; [reflexivity|exact Hm].
  - split; [apply Hs|exact Hlt].
Qed.
Print Assumptions C09_reader_fixpoint.

(* the assembler half, for the canonical layout: CompileWarrior reads back exactly the warrior *)
Theorem C09_assembler_reads_canonical_partial :
  forall cfg sg code start,
    validate cfg = true -> c_size cfg <= 2147483648 ->
    Forall (fun i => i_a i < c_size cfg /\ i_b i < c_size cfg) code ->
    ((c_mode cfg =? 0) = true -> Forall (fun i => legal88 i = true) code) ->
    (0 <= start < Z.of_nat (length code))%Z -> N.of_nat (length code) <= c_len cfg ->
    compile_warrior cfg (canon_print (c_mode cfg =? 0) sg (c_size cfg) code start) = COk code start (mkPM [] [] []).
Proof. intros cfg sg code start Hv Hm Hw Hl Hs Hn. apply asm_canon; try assumption. split; assumption. Qed.
Print Assumptions C09_assembler_reads_canonical_partial.

(* the premises are satisfiable: a two-line '94 warrior *)
Example C09_canonical_example :
  compile_warrior (mkCfg 2 8000 8000 80000 8000 8000 100 100)
    (canon_print false true 8000 [mkI MOV mI 0 DIRECT 1 DIRECT; mkI DJN mF 7998 B_DECREMENT 3 IMMEDIATE] 1)
  = COk [mkI MOV mI 0 DIRECT 1 DIRECT; mkI DJN mF 7998 B_DECREMENT 3 IMMEDIATE] 1 (mkPM [] [] []).
Proof. vm_compute. reflexivity. Qed.
