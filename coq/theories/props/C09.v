(* C09 — load-file text round-trips through the loader and the assembler.
   LoadPrint.loadprint is the canonical load-file layout under a style number
   from which every layout decision is drawn (letter case per character,
   blanks / tabs, CR-LF or LF, comment / blank / ;name lines between lines,
   a missing final newline, fields printed signed or unsigned);
   Load.parse_load_file is the literal model of load.go (run against gmars on
   every run), Compile.compile_warrior the literal model of the assembler. *)
From GM Require Import Base Text Token Compile Load Sim Meaning Render LoadPrint AsmSpec C06Proof C10Proof C16Proof C09Proof.
Open Scope N_scope.

(* the property at full strength: both readers return the warrior, under every style *)
Definition C09_full_statement : Prop :=
  forall s cfg code start,
    0 < c_size cfg -> c_size cfg <= 2 ^ 63 ->
    Forall (fun i => i_a i < c_size cfg /\ i_b i < c_size cfg) code ->
    (c_mode cfg = 0 -> Forall (fun i => legal88 i = true) code) ->
    (0 <= start < Z.of_nat (length code))%Z -> (start < 2 ^ 31)%Z ->
    let t := loadprint s (c_mode cfg =? 0) (c_size cfg) code start in
    parse_load_file cfg t = LOk code start /\
    exists meta, compile_warrior cfg t = COk code start meta.

(* proved: the load-file reader half, for every style, core size up to 2^63, both dialects, every
   instruction form, every entry point.  Missing: the assembler half (compile_warrior on the same
   text), which is decided on every run by the correspondence only (kinds 10 / 32 of the harness:
   gmars' CompileWarrior and ParseLoadFile on the rendered text against the warrior). *)
Theorem C09_round_trip_partial :
  forall s cfg code start,
    0 < c_size cfg -> c_size cfg <= 2 ^ 63 ->
    Forall (fun i => i_a i < c_size cfg /\ i_b i < c_size cfg) code ->
    (c_mode cfg = 0 -> Forall (fun i => legal88 i = true) code) ->
    (0 <= start < Z.of_nat (length code))%Z -> (start < 2 ^ 31)%Z ->
    parse_load_file cfg (loadprint s (c_mode cfg =? 0) (c_size cfg) code start) = LOk code start.
Proof. exact loader_round_trip. Qed.
Print Assumptions C09_round_trip_partial.

(* what the reader accepts (C10) prints and reads back to itself: print-then-read is the identity on
   the image of the reader, so reading is idempotent through the canonical text *)
Theorem C09_reader_fixpoint :
  forall s cfg txt code start,
    3 <= c_size cfg -> c_size cfg <= 2 ^ 63 ->
    parse_load_file cfg txt = LOk code start -> (start < Z.of_nat (length code))%Z -> (start < 2 ^ 31)%Z ->
    parse_load_file cfg (loadprint s (c_mode cfg =? 0) (c_size cfg) code start) = LOk code start.
Proof.
  intros s cfg txt code start Hm Hm' E Hlt H31.
  destruct (load_accepts_wf cfg txt code start Hm E) as [Hwf [Hs H88]].
  apply loader_round_trip; try assumption.
  - apply N.lt_le_trans with 3; [reflexivity|exact Hm].
  - split; [apply Hs|exact Hlt].
Qed.
Print Assumptions C09_reader_fixpoint.
