(* C09 — load-file text round-trips through the loader and the assembler.
   LoadPrint.loadprint is the canonical load-file layout under a style number
   from which every layout decision is drawn (letter case per character,
   blanks / tabs, CR-LF or LF, comment / blank / ;name lines between lines,
   a missing final newline, fields printed signed or unsigned);
   Load.parse_load_file is the literal model of load.go (run against gmars on
   every run), Compile.compile_warrior the literal model of the assembler. *)
From GM Require Import Base Text Token Compile Load Sim Meaning Render LoadPrint AsmSpec C06Proof C10Proof C16Proof C09Proof
     Parser C09Compile C09Asm C09GenGlue.
Open Scope N_scope.

(* the property at full strength: both readers return the warrior, under every style.  The load-file reader
   handles core sizes up to 2^63; the assembler evaluates operands through a 32-bit range check, so its half
   speaks of core sizes whose fields an operand expression can denote (M <= 2^31), and of configurations the
   assembler accepts at all (validate) whose maximum length admits the warrior *)
Definition C09_full_statement : Prop :=
  forall s cfg code start,
    0 < c_size cfg ->
    Forall (fun i => i_a i < c_size cfg /\ i_b i < c_size cfg) code ->
    (c_mode cfg = 0 -> Forall (fun i => legal88 i = true) code) ->
    (0 <= start < Z.of_nat (length code))%Z -> (start < 2 ^ 31)%Z ->
    let t := loadprint s (c_mode cfg =? 0) (c_size cfg) code start in
    (c_size cfg <= 2 ^ 63 -> parse_load_file cfg t = LOk code start) /\
    (validate cfg = true -> c_size cfg <= 2 ^ 31 -> N.of_nat (length code) <= c_len cfg ->
     exists meta, compile_warrior cfg t = COk code start meta).

(* proved in two halves: (1) the load-file reader, C09Proof.loader_round_trip; (2) the assembler,
   C09GenGlue.asm_loadprint - an end-to-end theorem through the models of lexer (the text as blank runs and
   lexemes, closed by white space or by a last number / comment running into the end of the input), symbol
   scanner, parser (documents of instruction lines, the ORG / END line, blank lines, comment lines, trailing
   remarks, a last line with or without its line end) and compiler (mnemonics in any letter case, fields signed
   or unsigned) - for every layout record satisfying C09GenGlue.layout_ok, of which the layouts loadprint
   derives from its style number are instances (lay_of_ok, LoadPrint.loadprint_as_gen). *)
Theorem C09_round_trip : C09_full_statement.
Proof.
  intros s cfg code start Hm Hw Hl Hs H31 t. split.
  - intros Hm'. apply loader_round_trip; assumption.
  - intros Hv Hm' Hlen. apply asm_loadprint; try assumption.
    split; [exact Hw|]. intros E. apply Hl. apply N.eqb_eq. exact E.
Qed.
Print Assumptions C09_round_trip.

(* the assembler half holds for every layout record, not only those loadprint can choose *)
Theorem C09_assembler_any_layout :
  forall L cfg code start,
    layout_ok L -> validate cfg = true -> c_size cfg <= 2147483648 ->
    Forall (fun i => i_a i < c_size cfg /\ i_b i < c_size cfg) code ->
    ((c_mode cfg =? 0) = true -> Forall (fun i => legal88 i = true) code) ->
    (0 <= start < Z.of_nat (length code))%Z -> N.of_nat (length code) <= c_len cfg ->
    exists meta, compile_warrior cfg (loadprint_gen L (c_mode cfg =? 0) (c_size cfg) code start) = COk code start meta.
Proof. intros L cfg code start HL Hv Hm Hw Hl Hs Hn. apply asm_loadprint_gen; try assumption. split; assumption. Qed.
Print Assumptions C09_assembler_any_layout.

(* the reader half on its own, under its earlier name *)
Theorem C09_round_trip_partial :
  forall s cfg code start,
    0 < c_size cfg -> c_size cfg <= 2 ^ 63 ->
    Forall (fun i => i_a i < c_size cfg /\ i_b i < c_size cfg) code ->
    (c_mode cfg = 0 -> Forall (fun i => legal88 i = true) code) ->
    (0 <= start < Z.of_nat (length code))%Z -> (start < 2 ^ 31)%Z ->
    parse_load_file cfg (loadprint s (c_mode cfg =? 0) (c_size cfg) code start) = LOk code start.
Proof. exact loader_round_trip. Qed.
Print Assumptions C09_round_trip_partial.

(* what the reader accepts (C10) prints and reads back to itself: print-then-read is the identity on
   the image of the reader, so reading is idempotent through the canonical text *)
Theorem C09_reader_fixpoint :
  forall s cfg txt code start,
    3 <= c_size cfg -> c_size cfg <= 2 ^ 63 ->
    parse_load_file cfg txt = LOk code start -> (start < Z.of_nat (length code))%Z -> (start < 2 ^ 31)%Z ->
    parse_load_file cfg (loadprint s (c_mode cfg =? 0) (c_size cfg) code start) = LOk code start.
Proof.
  intros s cfg txt code start Hm Hm' E Hlt H31.
  destruct (load_accepts_wf cfg txt code start Hm E) as [Hwf [Hs H88]].
  apply loader_round_trip; try assumption.
  - apply N.lt_le_trans with 3; [reflexivity|exact Hm].
  - split; [apply Hs|exact Hlt].
Qed.
Print Assumptions C09_reader_fixpoint.

(* the assembler half, for the canonical layout: CompileWarrior reads back exactly the warrior *)
Theorem C09_assembler_reads_canonical_partial :
  forall cfg sg code start,
    validate cfg = true -> c_size cfg <= 2147483648 ->
    Forall (fun i => i_a i < c_size cfg /\ i_b i < c_size cfg) code ->
    ((c_mode cfg =? 0) = true -> Forall (fun i => legal88 i = true) code) ->
    (0 <= start < Z.of_nat (length code))%Z -> N.of_nat (length code) <= c_len cfg ->
    compile_warrior cfg (canon_print (c_mode cfg =? 0) sg (c_size cfg) code start) = COk code start (mkPM [] [] []).
Proof. intros cfg sg code start Hv Hm Hw Hl Hs Hn. apply asm_canon; try assumption. split; assumption. Qed.
Print Assumptions C09_assembler_reads_canonical_partial.

(* the premises are satisfiable: a two-line '94 warrior *)
Example C09_canonical_example :
  compile_warrior (mkCfg 2 8000 8000 80000 8000 8000 100 100)
    (canon_print false true 8000 [mkI MOV mI 0 DIRECT 1 DIRECT; mkI DJN mF 7998 B_DECREMENT 3 IMMEDIATE] 1)
  = COk [mkI MOV mI 0 DIRECT 1 DIRECT; mkI DJN mF 7998 B_DECREMENT 3 IMMEDIATE] 1 (mkPM [] [] []).
Proof. vm_compute. reflexivity. Qed.
