(* C06 — accepted programs are well-formed and obey the selected rule set.
   Compile.compile is the literal model of compiler.compile (run against gmars on
   every run); legal88 / implied_modifier_88 is the independently written table
   of legal ICWS'88 instructions (spec/Meaning.v, spec/AsmSpec.v).  The theorem
   quantifies over ALL source-line lists and metadata, so it does not depend on
   what the lexer / parser produce nor on what the expressions evaluate to. *)
From GM Require Import Base Text Token Parser Compile Sim Meaning AsmSpec C06Proof.
Open Scope N_scope.

Theorem C06_accepted_wf :
  forall cfg lines meta code start meta',
    compile cfg lines meta = COk code start meta' ->
    Forall (wf_instr (c_size cfg)) code /\
    (0 <= start /\ (start < Z.of_nat (length code) \/ (start = 0 /\ code = [])))%Z /\
    N.of_nat (length code) <= c_len cfg /\
    (c_mode cfg = 0 -> Forall (fun i => legal88 i = true) code).
Proof. exact compile_accepts_wf. Qed.
Print Assumptions C06_accepted_wf.

(* one line: whatever it contains, an assembled instruction has both fields below the core size and,
   under ICWS'88, is a legal '88 instruction carrying the implied modifier *)
Theorem C06_line_wf :
  forall cfg c ln i, 3 <= c_size cfg ->
    assemble_line cfg c ln = AOk i ->
    wf_instr (c_size cfg) i /\ (c_mode cfg = 0 -> legal88 i = true).
Proof. exact assemble_line_wf. Qed.
Print Assumptions C06_line_wf.

(* the '88 table in load.go agrees with the independent table on all 17 x 8 x 8 combinations of '88 modes *)
Theorem C06_table_88_agrees :
  forall o am bm md, is88mode am = true -> is88mode bm = true ->
    op_mode_88 o am bm = Some md -> implied_modifier_88 o am bm = Some md.
Proof. intros o am bm md. apply op_mode_88_legal. right. exact I. Qed.
Print Assumptions C06_table_88_agrees.
