(* C14 — simulators and assemblies are isolated, repeatable and safe to use concurrently.
   What a proof about a model can carry of this property:
   (1) copy isolation, in a store model of Go slices (model/Alias.v: backing arrays by
       address, WarriorData.Copy allocates, addWarrior keeps only the copy);
   (2) map iteration order: the EQU cycle check (graph.go, model/ExprEval.v) gives the same
       answer for every order in which the map of names is ranged over, and the expansion of the
       EQU values (expandExpressions, expr.go) returns the same table for every order;
   (3) schedules: jobs whose steps write only their own state end in the same state under
       every interleaving — with (4) the literal models being functions of their arguments,
       so that repeating a job repeats its result.
   That gmars has no package-level mutable state, that goroutines hand tokens over channels
   only, and the absence of data races are facts about the Go runtime and source which no
   executable model expresses: they are checked on every run by the harness built with
   -race (jobs on 1..32 threads, results compared with the sequential ones). *)
From GM Require Import Base Text Token Lexer Scanner ExprSpec ExprEval Compile Sim Alias C14Proof C14Expand.
From Coq Require Import Permutation.
Open Scope N_scope.

(* (1) after AddWarrior, writes through the caller's slice never show in what the simulator
   loads, and writes to the simulator's copy never show in the caller's data *)
Theorem C14_copy_isolation :
  forall s held w s' held' i x,
    store_wf s -> wd_code w < st_next s -> sim_add s held w = (s', held') ->
    sim_code (write s' (wd_code w) i x) held' (length held) = read s (wd_code w) /\
    (forall c, nth_error held' (length held) = Some c ->
       read (write s' (wd_code c) i x) (wd_code w) = read s (wd_code w)).
Proof. exact copy_isolation. Qed.
Print Assumptions C14_copy_isolation.

(* adding a warrior leaves every warrior already held, and the caller's data, as they were *)
Theorem C14_add_frames :
  forall s held w s' held',
    store_wf s -> wd_code w < st_next s -> Forall (fun c => wd_code c < st_next s) held ->
    sim_add s held w = (s', held') ->
    store_wf s' /\ Forall (fun c => wd_code c < st_next s') held' /\ length held' = S (length held) /\
    sim_code s' held' (length held) = read s (wd_code w) /\
    (forall k, (k < length held)%nat -> sim_code s' held' k = sim_code s held k) /\
    read s' (wd_code w) = read s (wd_code w) /\
    (forall c, In c held' -> ~ In c held -> wd_code c <> wd_code w /\ wd_code c < st_next s').
Proof. exact add_copies. Qed.
Print Assumptions C14_add_frames.

(* (2) the cycle check does not depend on the order in which Go ranges over the map *)
Theorem C14_cycle_check_order :
  forall g g' : graph,
    Permutation g g' -> NoDup (map fst g) -> graph_has_cycle g' = graph_has_cycle g.
Proof. exact cycle_check_order_independent'. Qed.
Print Assumptions C14_cycle_check_order.

(* and it always answers: the depth-first walk never exhausts its fuel, whatever the graph *)
(* expandExpressions ranges over a Go map as well: whatever the order, every EQU name is mapped to the same
   tokens - its value with every EQU name inside it substituted, to any depth (the fully substituted value is
   unique: C14Expand.fs_unique) *)
Theorem C14_expansion_order :
  forall values values' r1 r2,
    Permutation values values' -> NoDup (map fst values) ->
    expand_expressions values (build_graph values) = Some (Some r1) ->
    expand_expressions values' (build_graph values') = Some (Some r2) ->
    forall k, sym_find k r1 = sym_find k r2.
Proof. exact expand_any_order. Qed.
Print Assumptions C14_expansion_order.

(* the premises are satisfiable: three EQUs, one order and its reverse *)
Example C14_expansion_order_example :
  let T := mkT tokText in let n := fun c => mkT tokNumber [c] in let plus := mkT tokSymbol [43] in
  let vs := [(s2t "a", [T (s2t "b"); plus; T (s2t "c")]); (s2t "b", [n 49; plus; T (s2t "c")]); (s2t "c", [n 50])] in
  exists r1 r2, expand_expressions vs (build_graph vs) = Some (Some r1) /\
                expand_expressions (rev vs) (build_graph (rev vs)) = Some (Some r2) /\
                sym_find (s2t "a") r1 = Some [n 49; plus; n 50; plus; n 50] /\ sym_find (s2t "a") r2 = sym_find (s2t "a") r1.
Proof. cbv zeta. eexists _, _. split; [vm_compute; reflexivity|]. split; [vm_compute; reflexivity|]. split; vm_compute; reflexivity. Qed.

Theorem C14_cycle_check_total : forall g : graph, graph_has_cycle g <> None.
Proof. exact cycle_check_total. Qed.
Print Assumptions C14_cycle_check_total.

(* (3) whatever the interleaving of steps, every job ends where it ends when run alone *)
Theorem C14_schedule_independent_partial :
  forall (S : Type) (step : nat -> S -> S) sched sigma i,
    run_schedule S step sched sigma i = iter S (count_occ Nat.eq_dec sched i) (step i) (sigma i).
Proof. exact schedule_independent. Qed.
Print Assumptions C14_schedule_independent_partial.

(* instance: simulators stepping RunCycle in any interleaving *)
Definition cycle_of (s : sim) : sim := match run_cycle s with Ok (s', _, _) => s' | _ => s end.
Theorem C14_simulators_interleaved :
  forall sched sigma i,
    run_schedule sim (fun _ => cycle_of) sched sigma i = iter sim (count_occ Nat.eq_dec sched i) cycle_of (sigma i).
Proof. intros. apply schedule_independent. Qed.
Print Assumptions C14_simulators_interleaved.
