Theorem C14_placeholder : True. Proof. exact I. Qed.
Print Assumptions C14_placeholder.
