(* C12 — a battle is independent of where in the core it is placed.
   rot_rel M k c c' : c' is the core c rotated by k cells; shift M k x = (x+k) mod M;
   mrot : the same for whole reference states (queues shifted); Rel / Inv / guards
   as in C02 tie the literal model (Sim.run_cycle) to the reference. *)
From GM Require Import Base Exec Sim Emi94 Mars Rotate C12Step C12Run InvSim C02Proof C12Top.
Open Scope N_scope.

(* one step: rotating the core and the program counter rotates the result *)
Theorem C12_step_equivariant :
  forall M k, 0 < M -> forall fR fW c c' pc,
    rot_rel M k c c' -> pc < M ->
    let '(c1, s1) := step_core_g M fR fW c pc in
    let '(c1', s1') := step_core_g M fR fW c' (shift M k pc) in
    rot_rel M k c1 c1' /\ s1' = map (shift M k) s1.
Proof. exact step_core_rot. Qed.
Print Assumptions C12_step_equivariant.

(* spawning k cells further yields the rotated state; then every cycle and the
   whole run-to-completion stay rotated (same survivors, same cycle count) *)
Theorem C12_spawn_equivariant :
  forall cfg k, 0 < mc_M cfg -> forall t t' i off,
    mrot (mc_M cfg) k t t' -> mwf (mc_M cfg) t ->
    match m_spawn cfg t i off, m_spawn cfg t' i (off + k) with
    | Some t1, Some t1' => mrot (mc_M cfg) k t1 t1' /\ mwf (mc_M cfg) t1
    | None, None => True
    | _, _ => False
    end.
Proof. exact m_spawn_rot. Qed.
Print Assumptions C12_spawn_equivariant.

Theorem C12_run_equivariant :
  forall cfg k, 0 < mc_M cfg -> forall fuel t t',
    mrot (mc_M cfg) k t t' -> mwf (mc_M cfg) t ->
    mrot (mc_M cfg) k (m_until_done cfg fuel t) (m_until_done cfg fuel t').
Proof. exact m_until_done_rot. Qed.
Print Assumptions C12_run_equivariant.

(* offsets congruent modulo the core size are the same placement *)
Theorem C12_offset_congruent :
  forall cfg, 0 < mc_M cfg -> forall t i off j,
    m_spawn cfg t i (off + j * mc_M cfg) = m_spawn cfg t i off.
Proof. exact m_spawn_congruent. Qed.
Print Assumptions C12_offset_congruent.

(* the same for the literal model of RunCycle, through the C02 refinement *)
Theorem C12_model_cycle_equivariant :
  forall k s s' t t',
    Inv s -> Inv s' -> guards s -> guards s' -> cfg_of s' = cfg_of s ->
    Rel s t -> Rel s' t' -> mrot (s_m s) k t t' ->
    match run_cycle s, run_cycle s' with
    | Ok (s1, r1, _), Ok (s1', r1', _) =>
        exists t1 t1', Rel s1 t1 /\ Rel s1' t1' /\ mrot (s_m s) k t1 t1' /\ r1' = r1
    | _, _ => False
    end.
Proof. exact model_cycle_equivariant. Qed.
Print Assumptions C12_model_cycle_equivariant.
