(* C03 — Redcode source assembles to the instructions it denotes.
   Compile.compile_warrior is the literal model of CompileWarrior (lexer, FOR
   expander, parser, compiler; run against gmars on every run), Render.render
   the surface syntax of an abstract program under a style number, and
   Meaning.meaning what the program denotes, computed without gmars. *)
From GM Require Import Base Text Token Lexer Scanner ExprSpec ExprEval Parser Compile Sim Prog Meaning Render AsmSpec
     C03Proof C03Lexer C06Proof C09Proof C09GenCompile C09GenLex C08Proof C08Block C08Scan C08Passes C03Equ C03Parse C03Compile C03Labels C03EquCompile C03EquLabels C08Flat C03Flat C03Blocks.
From Coq Require Import Lia.
Open Scope Z_scope.

(* the property at full strength, on the model *)
Definition C03_full_statement : Prop :=
  forall s cfg p code start,
    validate cfg = true ->
    meaning (mconf_of cfg) p = MOk code start ->
    exists meta, compile_warrior cfg (render s p) = COk code start meta.

(* proved, at the lexer stage: a text written as any sequence of well-placed lexemes (blank runs, words,
   numbers, symbols, commas, parentheses, colons, comments), closed by white space, is tokenised into exactly
   the tokens of its lexemes in order; a blank run contributes one newline token per line feed and nothing
   else - so the amount and kind of white space between lexemes, and blank lines' contents, do not matter *)
Theorem C03_lexer_partial :
  forall ps tail,
    Forall (fun x => is_space_a x = true) tail -> tail <> [] -> pieces_ok ps tail ->
    lex_ascii (flat_map ptext ps ++ tail) = Some (flat_map ptoks ps ++ newlines tail ++ [tEOF]).
Proof. exact lex_text. Qed.
Print Assumptions C03_lexer_partial.

Theorem C03_spacing_independent_partial :
  forall ps tail ps' tail',
    Forall (fun x => is_space_a x = true) tail -> tail <> [] -> pieces_ok ps tail ->
    Forall (fun x => is_space_a x = true) tail' -> tail' <> [] -> pieces_ok ps' tail' ->
    flat_map ptoks ps = flat_map ptoks ps' -> newlines tail = newlines tail' ->
    lex_ascii (flat_map ptext ps ++ tail) = lex_ascii (flat_map ptext ps' ++ tail').
Proof.
  intros ps tail ps' tail' H1 H2 H3 H4 H5 H6 E1 E2.
  rewrite (lex_text ps tail H1 H2 H3), (lex_text ps' tail' H4 H5 H6), E1, E2. reflexivity.
Qed.
Print Assumptions C03_spacing_independent_partial.

(* proved, at the compile stage (from parsed source lines to instructions): *)

(* omitted modifiers take the dialect's defaults: the '94 table of load.go is the reference table,
   for all 17 x 8 x 8 combinations; the '88 table is the reference table wherever it accepts *)
Theorem C03_default_modifiers_partial :
  (forall o am bm, op_mode_94 o am bm = default_modifier_94 o am bm) /\
  (forall o am bm md, is88mode am = true -> is88mode bm = true ->
     op_mode_88 o am bm = Some md -> implied_modifier_88 o am bm = Some md) /\
  (forall o am bm md, implied_modifier_88 o am bm = Some md -> op_mode_88 o am bm = Some md).
Proof.
  split; [exact defaults_94|]. split.
  - intros o am bm md. apply op_mode_88_legal. right. exact I.
  - intros o am bm md H. apply (implied_88_facts o am bm md H).
Qed.
Print Assumptions C03_default_modifiers_partial.

(* a label used as an operand becomes its offset from the referring instruction, reduced into [0, M) *)
Theorem C03_label_offset_partial :
  forall values labels se l L line m f,
    lab_find l labels = Some L -> sym_find l values = None -> 0 < m <= 2147483648 ->
    exists toks v,
      expand_expression (S (S f)) m (mkC values labels se) line [mkT tokText l] = Some (Some toks) /\
      evaluate_expression toks = EOk v /\
      norm_field v m = Z.to_N ((L - line) mod m).
Proof. exact label_offset. Qed.
Print Assumptions C03_label_offset_partial.

(* EQU names are substituted textually, token by token, wherever they occur in an expression *)
Theorem C03_equ_textual_partial :
  forall m c line a b,
    expand_pass m c line (a ++ b) =
    match expand_pass m c line a, expand_pass m c line b with Some x, Some y => Some (x ++ y) | _, _ => None end /\
    forall k v, sym_find k (c_values c) = Some v -> expand_pass m c line [mkT tokText k] = Some v.
Proof.
  intros m c line a b. split.
  - rewrite !expand_pass_tokenwise. apply expand_all_app.
  - intros k v H. rewrite expand_pass_tokenwise. cbn [expand_all expand_tok t_typ t_val]. rewrite H. rewrite app_nil_r. reflexivity.
Qed.
Print Assumptions C03_equ_textual_partial.

(* ... and to any depth, forward uses included: the compiler expands an expression with the table of resolved values
   that expandExpressions has built (EQU values with the EQU names inside them already substituted, whatever the
   order of the definitions).  What it arrives at is exactly what k passes arrive at that replace every EQU name by
   its text as written and every label by its offset (C03Equ.Pk: expand_pass with the raw definitions, k times),
   whenever those passes leave no name - the reference meaning's way of reading a program *)
Theorem C03_equ_any_depth_partial :
  forall raw res labels se m line k T R f,
    expand_expressions raw (build_graph raw) = Some (Some res) ->
    Pk raw labels se m line k T = Some R -> textfree R ->
    expand_expression (S (S (S f))) m (mkC res labels se) line T = Some (Some R).
Proof. exact equ_textual. Qed.
Print Assumptions C03_equ_any_depth_partial.

(* mnemonics, modifiers and pseudo-ops are recognised in any letter case *)
Theorem C03_letter_case_partial :
  (forall s k o, opcode_of_text (recase s k (opcode_name o)) = Some o) /\
  (forall s k md, opmode_of_text (recase s k (opmode_name md)) = Some md) /\
  (forall s k kw, is_pseudo_text (recase s k kw) = is_pseudo_text kw).
Proof. split; [exact opcode_any_case|]. split; [exact opmode_any_case|exact pseudo_any_case]. Qed.
Print Assumptions C03_letter_case_partial.

(* the entry point of an accepted program is the value of its ORG / END expression (0 when there is none),
   and the metadata captured by the parser is returned unchanged *)
Theorem C03_entry_point_partial :
  forall cfg lines meta code start meta',
    compile cfg lines meta = COk code start meta' ->
    exists resolved se,
      let c0 := load_symbols cfg lines in
      let c := mkC resolved (c_labels c0) (c_startexpr c0) in
      expand_expression (expand_fuel c) (Z.of_N (c_size cfg)) c 0 (c_startexpr c0) = Some (Some se) /\
      evaluate_expression se = EOk start /\ meta' = meta.
Proof. exact entry_point. Qed.
Print Assumptions C03_entry_point_partial.

(* proved, end to end (lexer, scanner, expander passes, parser, compiler), for programs of labelled
   instructions with ORG and END: C03_full_statement restricted to programs without EQU, FOR and ;assert,
   and generalised from the styles of Render.render to every layout.

   The program is a list of abstract instructions (Prog.iline: labels, opcode, optional modifier, operands
   with optional modes, an optional second operand; operand expressions over literals, labels and the
   predefined constants), an optional ORG expression, an optional END expression and the labels written on
   the END line.  Its surface form is a document (C03Parse): lines, each followed by one or more line ends
   (the last by any number when there is no END line), preceded by any number of blank lines; a line is a
   comment, an ORG line or an instruction line: a label section (names, colons and line ends in any order
   after the first name), the mnemonic in any letter case with or without its modifier, operands with or
   without their modes, an optional remark; the END line, if any, comes last: labels, the keyword, the
   expression if any, a remark, line ends.  Names are spelt by any function that keeps the predefined names,
   spells labels as distinct words that are no mnemonics, and never as "*" (C03Compile.spell_ok).  The text
   is any sequence of lexemes and white space whose tokens are those of the document (C09GenLex.items_ok:
   each lexeme is well placed, e.g. a word is not directly followed by a letter).

   Then, if the program has a meaning (Meaning.meaning - labels are offsets from the referring instruction,
   labels of the END line stand for the address past the code, omitted modes and modifiers take the
   dialect's defaults, a lone operand lands where the dialect prescribes, fields are reduced modulo the core
   size, ORG / END select the entry point), the assembler returns exactly that code and entry point, and
   the metadata of the comment lines.  (With labels on the END line the code must be shorter than the core.) *)
Theorem C03_labelled_programs_partial :
  forall cfg spell org pend elabs ils es xo lead nm au code start its tail,
    validate cfg = true ->
    spell_ok spell (flat_map il_labels ils ++ elabs) ->
    renders_doc spell org ils es -> shape_ok es -> line_ends_ok es xo -> renders_tail spell cfg pend elabs (length ils) xo ->
    match org with Some e => nok e | None => True end ->
    meaning (mconf_of cfg) (mkProg (map IInstr ils) org pend nm au elabs) = MOk code start ->
    Forall (fun x => is_space_a x = true) tail -> tail <> [] -> items_ok its tail ->
    flat_map item_toks its ++ newlines tail ++ [tEOF] = doc_tokens lead es xo ->
    compile_warrior cfg (flat_map item_text its ++ tail) = COk code start (dmeta (mkPM [] [] []) es).
Proof. intros cfg spell org pend elabs ils es xo lead nm au code start its tail. exact (program_text spell cfg org pend elabs ils es xo lead nm au code start its tail). Qed.
Print Assumptions C03_labelled_programs_partial.

(* the same for any text that the lexer turns into the tokens of the document *)
Theorem C03_labelled_tokens_partial :
  forall cfg spell org pend elabs ils es xo lead nm au code start inp,
    validate cfg = true ->
    spell_ok spell (flat_map il_labels ils ++ elabs) ->
    renders_doc spell org ils es -> shape_ok es -> line_ends_ok es xo -> renders_tail spell cfg pend elabs (length ils) xo ->
    match org with Some e => nok e | None => True end ->
    meaning (mconf_of cfg) (mkProg (map IInstr ils) org pend nm au elabs) = MOk code start ->
    lex_ascii inp = Some (doc_tokens lead es xo) ->
    compile_warrior cfg inp = COk code start (dmeta (mkPM [] [] []) es).
Proof. intros cfg spell org pend elabs ils es xo lead nm au code start inp. exact (program_tokens spell cfg org pend elabs ils es xo lead nm au code start inp). Qed.
Print Assumptions C03_labelled_tokens_partial.

(* the hypotheses are satisfiable: a three-line program with a forward and a backward reference, a label
   on its own line with a colon, an omitted mode, an omitted modifier, a lone operand, a remark, a blank
   line, a name comment, an ORG line that uses the label of the END line *)
Module C03Example.
Definition spell (id : N) : text :=
  if (id =? 1)%N then s2t "CORESIZE" else if (id =? 2)%N then s2t "MAXLENGTH" else if (id =? 3)%N then s2t "MAXPROCESSES"
  else if (id =? 4)%N then s2t "MINDISTANCE" else if (id =? 10)%N then s2t "loop" else if (id =? 11)%N then s2t "tgt" else s2t "last".
Definition ils : list Prog.iline :=
  [ mkIL [10%N] MOV None (mkOp None (NName 11)) (Some (mkOp (Some B_INDIRECT) (NName 11)));
    mkIL [] ADD (Some mAB) (mkOp (Some IMMEDIATE) (NLit 4)) (Some (mkOp None (NBin OSub (NName 11) (NLit 1))));
    mkIL [11%N] JMP None (mkOp None (NBin OSub (NName 10) (NName 1))) None ].
Definition org : nexpr := NBin OSub (NName 12) (NLit 2).
Definition es : list (lelem * nat) :=
  [ (LComment (s2t ";name demo"), 1%nat);
    (LDir (s2t "ORG") (etoks spell org) None, 1%nat);
    (LInstr (mkTL [LName (s2t "loop")] (s2t "mov") None (etoks spell (NName 11)) (Some (Some 64%N, etoks spell (NName 11))) None), 2%nat);
    (LInstr (mkTL [] (s2t "Add.aB") (Some 35%N) (etoks spell (NLit 4)) (Some (None, etoks spell (NBin OSub (NName 11) (NLit 1))))
                  (Some (s2t "; step"))), 1%nat);
    (LInstr (mkTL [LName (s2t "tgt"); LColon; LNl] (s2t "JMP") None (etoks spell (NBin OSub (NName 10) (NName 1))) None None), 1%nat) ].
Definition endl : endline := mkEnd [LName (s2t "last")] (s2t "end") [] None 1.
Definition source : text :=
  s2t ";name demo" ++ [10%N] ++ s2t "ORG last-2" ++ [10%N] ++ s2t "loop mov tgt, @tgt" ++ [10; 10]%N ++ s2t "  Add.aB #4,tgt - 1 ; step" ++ [10%N]
  ++ s2t "tgt:" ++ [10%N] ++ s2t "   JMP loop-CORESIZE" ++ [10%N] ++ s2t "last end" ++ [10%N].
Definition cfg94 := mkCfg 2 8000 8000 80000 8000 8000 100 100.
Definition code : list instr :=
  [mkI MOV mI 2 DIRECT 2 B_INDIRECT; mkI ADD mAB 4 IMMEDIATE 0 DIRECT; mkI JMP mB 7998 DIRECT 0 DIRECT].

Example hypotheses_hold :
  (validate cfg94 = true) /\ spell_ok spell (flat_map il_labels ils ++ [12%N]) /\ renders_doc spell (Some org) ils es /\ shape_ok es /\
  line_ends_ok es (Some endl) /\ renders_tail spell cfg94 None [12%N] (length ils) (Some endl) /\ nok org /\
  (meaning (mconf_of cfg94) (mkProg (map IInstr ils) (Some org) None None None [12%N]) = MOk code 1) /\
  (lex_ascii source = Some (doc_tokens 0%nat es (Some endl))).
Proof.
  split; [reflexivity|]. split.
  { constructor.
    - repeat split; reflexivity.
    - intros id Hid. cbn in Hid. destruct Hid as [<-|[<-|[<-|[]]]]; (split; [reflexivity|]); cbn; intros H;
        repeat (destruct H as [H|H]; [discriminate H|]); exact H.
    - intros a b Ha Hb. cbn in Ha, Hb. destruct Ha as [<-|[<-|[<-|[]]]], Hb as [<-|[<-|[<-|[]]]]; try reflexivity; intros H; discriminate H.
    - cbn. repeat constructor; cbn; intuition discriminate.
    - intros id. unfold spell. repeat (destruct (_ =? _)%N); discriminate. }
  split.
  { apply RDcomment; [reflexivity|]. apply (RDorg spell org); [reflexivity|cbn; lia|]. apply RDinstr.
    - repeat split; reflexivity.
    - apply RDinstr.
      + split; [reflexivity|]. split; [|repeat split; cbn; lia].
        exists (s2t "Add"), (s2t "aB"). repeat split; try reflexivity; cbn; intuition discriminate.
      + apply RDinstr; [repeat split; try reflexivity; cbn; lia|apply RDnil]. }
  split; [repeat constructor|]. split; [repeat constructor|].
  split; [split; [repeat split; reflexivity|split; [exact I|right; cbn; lia]]|].
  split; [cbn; lia|]. split; vm_compute; reflexivity.
Qed.
Example conclusion : compile_warrior cfg94 source = COk code 1 (mkPM (s2t "demo") [] []).
Proof.
  destruct hypotheses_hold as [H1 [H2 [H3 [H4 [H5 [H6 [H7 [H8 H9]]]]]]]].
  exact (C03_labelled_tokens_partial cfg94 spell (Some org) None [12%N] ils es (Some endl) 0%nat None None code 1%Z source H1 H2 H3 H4 H5 H6 H7 H8 H9).
Qed.
End C03Example.

(* proved, end to end, WITH EQU DEFINITIONS: C03_full_statement for programs of labelled instructions, EQU definitions
   (anywhere among the lines, used before or after their definition, referring to each other to any depth) and an ORG
   line, in every layout in which each line is followed by at least one line end.

   The reference reads an operand by substituting names pass by pass - an EQU name by its text as written, a label by
   its offset, a predefined name by its value - and evaluates the resulting token list (Meaning.value_at); textual
   substitution changes the tree (`gap equ 3+1`, `gap*2` is `3+1*2`, not 8).  The compiler resolves the EQU values
   among themselves first (whatever the order), substitutes with that table and evaluates with expr.go's evaluator.
   C03Equ shows that both arrive at the same token list, C07Inverse that both evaluators give it the same value,
   C03EquCompile.graph_ranked that the cycle check lets definitions pass that refer to each other along a rank
   (`ranked`: no definition refers to itself, directly or through others).  `bodies_known`: every name in an EQU
   body is predefined, an EQU name or a label (the parser refuses a text that mentions an undefined name, used or not). *)
Theorem C03_programs_with_equ_partial :
  forall cfg spell org (its : list Prog.item) es lead nm au code start rkN lexemes tail,
    validate cfg = true ->
    spell_ok spell (flat_map il_labels (instrs its) ++ map fst (equs its)) ->
    renders_doc2 spell org its es -> shape2_ok es -> Forall (fun xk => (1 <= snd xk)%nat) es ->
    ranked spell (equs its) rkN ->
    bodies_known cfg its ->
    meaning (mconf_of cfg) (mkProg its org None nm au []) = MOk code start ->
    Forall (fun x => is_space_a x = true) tail -> tail <> [] -> items_ok lexemes tail ->
    flat_map item_toks lexemes ++ newlines tail ++ [tEOF] = ldoc_toks lead es ->
    compile_warrior cfg (flat_map item_text lexemes ++ tail) = COk code start (dmeta (mkPM [] [] []) es).
Proof. intros cfg spell org its es lead nm au code start rkN lexemes tail. exact (program2_text spell cfg org its es lead nm au code start rkN lexemes tail). Qed.
Print Assumptions C03_programs_with_equ_partial.

Theorem C03_programs_with_equ_tokens_partial :
  forall cfg spell org (its : list Prog.item) es lead nm au code start inp rkN,
    validate cfg = true ->
    spell_ok spell (flat_map il_labels (instrs its) ++ map fst (equs its)) ->
    renders_doc2 spell org its es -> shape2_ok es -> Forall (fun xk => (1 <= snd xk)%nat) es ->
    ranked spell (equs its) rkN ->
    bodies_known cfg its ->
    meaning (mconf_of cfg) (mkProg its org None nm au []) = MOk code start ->
    lex_ascii inp = Some (ldoc_toks lead es) ->
    compile_warrior cfg inp = COk code start (dmeta (mkPM [] [] []) es).
Proof. intros cfg spell org its es lead nm au code start inp rkN. exact (program2_tokens spell cfg org its es lead nm au code start inp rkN). Qed.
Print Assumptions C03_programs_with_equ_tokens_partial.

(* the hypotheses are satisfiable: `step` is used before `gap`, on which it depends, is defined; substitution is textual
   (step = 3+1*2 = 5); ORG uses a label *)
Module C03EquExample.
Definition spell (id : N) : text :=
  if (id =? 1)%N then s2t "CORESIZE" else if (id =? 2)%N then s2t "MAXLENGTH" else if (id =? 3)%N then s2t "MAXPROCESSES"
  else if (id =? 4)%N then s2t "MINDISTANCE" else if (id =? 10)%N then s2t "start" else if (id =? 11)%N then s2t "bomb"
  else if (id =? 20)%N then s2t "step" else s2t "gap".
Definition e_step : nexpr := NBin OMul (NName 21) (NLit 2).
Definition e_gap : nexpr := NBin OAdd (NLit 3) (NLit 1).
Definition e_org : nexpr := NBin OSub (NName 11) (NLit 1).
Definition its : list Prog.item :=
  [ IEqu 20 e_step; IEqu 21 e_gap;
    IInstr (mkIL [10%N] MOV None (mkOp None (NName 11)) (Some (mkOp (Some B_INDIRECT) (NName 20))));
    IInstr (mkIL [] ADD None (mkOp (Some IMMEDIATE) (NName 21)) (Some (mkOp None (NName 10))));
    IInstr (mkIL [11%N] DAT None (mkOp (Some IMMEDIATE) (NLit 0)) (Some (mkOp (Some IMMEDIATE) (NBin OSub (NName 20) (NLit 1))))) ].
Definition es : list (lelem * nat) :=
  [ (LEqu [LName (s2t "step")] (s2t "equ") (etoks spell e_step) None, 1%nat);
    (LEqu [LName (s2t "gap"); LColon] (s2t "EQU") (etoks spell e_gap) (Some (s2t "; the gap")), 1%nat);
    (LDir (s2t "org") (etoks spell e_org) None, 1%nat);
    (LInstr (mkTL [LName (s2t "start")] (s2t "mov") None (etoks spell (NName 11)) (Some (Some 64%N, etoks spell (NName 20))) None), 2%nat);
    (LInstr (mkTL [] (s2t "add") (Some 35%N) (etoks spell (NName 21)) (Some (None, etoks spell (NName 10))) None), 1%nat);
    (LInstr (mkTL [LName (s2t "bomb")] (s2t "dat") (Some 35%N) (etoks spell (NLit 0))
                  (Some (Some 35%N, etoks spell (NBin OSub (NName 20) (NLit 1)))) None), 1%nat) ].
Definition source : text :=
  s2t "step equ gap*2" ++ [10%N] ++ s2t "gap: EQU 3+1 ; the gap" ++ [10%N] ++ s2t " org bomb-1" ++ [10%N]
  ++ s2t "start mov bomb, @step" ++ [10; 10]%N ++ s2t " add #gap, start" ++ [10%N] ++ s2t "bomb dat #0, #step-1" ++ [10%N].
Definition cfg94 := mkCfg 2 8000 8000 80000 8000 8000 100 100.
Definition code : list instr :=
  [mkI MOV mI 2 DIRECT 5 B_INDIRECT; mkI ADD mAB 4 IMMEDIATE 7999 DIRECT; mkI DAT mF 0 IMMEDIATE 4 IMMEDIATE].
Definition rkN (id : N) : nat := if (id =? 20)%N then 1%nat else 0%nat.

Example hypotheses_hold :
  (validate cfg94 = true) /\ spell_ok spell (flat_map il_labels (instrs its) ++ map fst (equs its)) /\
  renders_doc2 spell (Some e_org) its es /\ shape2_ok es /\ Forall (fun xk => (1 <= snd xk)%nat) es /\
  ranked spell (equs its) rkN /\ bodies_known cfg94 its /\
  (meaning (mconf_of cfg94) (mkProg its (Some e_org) None None None []) = MOk code 1) /\
  (lex_ascii source = Some (ldoc_toks 0%nat es)).
Proof.
  split; [reflexivity|]. split.
  { constructor.
    - repeat split; reflexivity.
    - intros id Hid. cbn in Hid. destruct Hid as [<-|[<-|[<-|[<-|[]]]]]; (split; [reflexivity|]); cbn; intros H;
        repeat (destruct H as [H|H]; [discriminate H|]); exact H.
    - intros a b Ha Hb. cbn in Ha, Hb. destruct Ha as [<-|[<-|[<-|[<-|[]]]]], Hb as [<-|[<-|[<-|[<-|[]]]]]; try reflexivity; intros H; discriminate H.
    - cbn. repeat constructor; cbn; intuition discriminate.
    - intros id. unfold spell. repeat (destruct (_ =? _)%N); discriminate. }
  split.
  { apply R2equ; [reflexivity|reflexivity|repeat constructor; cbn; lia|].
    apply R2equ; [reflexivity|reflexivity|repeat constructor; cbn; lia|].
    apply (R2org spell e_org); [reflexivity|repeat constructor; cbn; lia|].
    apply R2instr; [repeat split; reflexivity|]. apply R2instr; [repeat split; reflexivity|].
    apply R2instr; [repeat split; try reflexivity; cbn; lia|apply R2nil]. }
  split; [repeat constructor|]. split; [repeat constructor|]. split.
  { intros n e Hin x Hx n' e' Hin' Hs. cbn in Hin, Hin'.
    destruct Hin as [Hin|[Hin|[]]]; inversion Hin; subst n e; cbn in Hx.
    - destruct Hx as [<-|[]]. destruct Hin' as [Hin'|[Hin'|[]]]; inversion Hin'; subst n' e'; [discriminate Hs|cbn; lia].
    - destruct Hx. }
  split.
  { unfold bodies_known. cbn [equs its]. constructor; [constructor; [right; left; cbn; discriminate|constructor]|constructor; [constructor|constructor]]. }
  split; vm_compute; reflexivity.
Qed.
Example conclusion : compile_warrior cfg94 source = COk code 1 (mkPM [] [] []).
Proof.
  destruct hypotheses_hold as [H1 [H2 [H3 [H4 [H5 [H6 [H7 [H8 H9]]]]]]]].
  exact (C03_programs_with_equ_tokens_partial cfg94 spell (Some e_org) its es 0%nat None None code 1%Z source rkN H1 H2 H3 H4 H5 H6 H7 H8 H9).
Qed.
End C03EquExample.

(* ... AND ;assert LINES: the two theorems above cover them as well - a document may hold, anywhere among its lines,
   comment lines `;assert<text>` whose text the lexer turns into the tokens of a condition (C03EquCompile.assert_comment);
   the program (Prog.IAssert items) has a meaning only when every condition has a value other than zero
   (Meaning.assertions), and then the assembler - which evaluates them with the definitions as written, at line 0,
   before it resolves the EQU values (C03Equ.raw_by_passes, C03EquCompile.operand_raw, r2_assertions) - lets it pass.
   The example: the condition uses an EQU name that depends on another one and is substituted textually
   (step-4 = 3+1*2-4 = 1) *)
Module C03AssertExample.
Import C03EquExample.
Definition e_cond : nexpr := NBin OSub (NName 20) (NLit 4).
Definition its' : list Prog.item :=
  [ IEqu 20 e_step; IEqu 21 e_gap; IAssert e_cond;
    IInstr (mkIL [10%N] MOV None (mkOp None (NName 11)) (Some (mkOp (Some B_INDIRECT) (NName 20))));
    IInstr (mkIL [] ADD None (mkOp (Some IMMEDIATE) (NName 21)) (Some (mkOp None (NName 10))));
    IInstr (mkIL [11%N] DAT None (mkOp (Some IMMEDIATE) (NLit 0)) (Some (mkOp (Some IMMEDIATE) (NBin OSub (NName 20) (NLit 1))))) ].
Definition es' : list (lelem * nat) :=
  [ (LEqu [LName (s2t "step")] (s2t "equ") (etoks spell e_step) None, 1%nat);
    (LEqu [LName (s2t "gap"); LColon] (s2t "EQU") (etoks spell e_gap) (Some (s2t "; the gap")), 1%nat);
    (LComment (s2t ";assert step - 4"), 1%nat);
    (LDir (s2t "org") (etoks spell e_org) None, 1%nat);
    (LInstr (mkTL [LName (s2t "start")] (s2t "mov") None (etoks spell (NName 11)) (Some (Some 64%N, etoks spell (NName 20))) None), 2%nat);
    (LInstr (mkTL [] (s2t "add") (Some 35%N) (etoks spell (NName 21)) (Some (None, etoks spell (NName 10))) None), 1%nat);
    (LInstr (mkTL [LName (s2t "bomb")] (s2t "dat") (Some 35%N) (etoks spell (NLit 0))
                  (Some (Some 35%N, etoks spell (NBin OSub (NName 20) (NLit 1)))) None), 1%nat) ].
Definition source' : text :=
  s2t "step equ gap*2" ++ [10%N] ++ s2t "gap: EQU 3+1 ; the gap" ++ [10%N] ++ s2t ";assert step - 4" ++ [10%N] ++ s2t " org bomb-1" ++ [10%N]
  ++ s2t "start mov bomb, @step" ++ [10; 10]%N ++ s2t " add #gap, start" ++ [10%N] ++ s2t "bomb dat #0, #step-1" ++ [10%N].

Example hypotheses_hold' :
  (validate cfg94 = true) /\ spell_ok spell (flat_map il_labels (instrs its') ++ map fst (equs its')) /\
  renders_doc2 spell (Some e_org) its' es' /\ shape2_ok es' /\ Forall (fun xk => (1 <= snd xk)%nat) es' /\
  ranked spell (equs its') rkN /\ bodies_known cfg94 its' /\
  (meaning (mconf_of cfg94) (mkProg its' (Some e_org) None None None []) = MOk code 1) /\
  (lex_ascii source' = Some (ldoc_toks 0%nat es')).
Proof.
  destruct hypotheses_hold as [H1 [H2 [_ [_ [_ [H6 [H7 _]]]]]]].
  split; [exact H1|]. split; [exact H2|]. split.
  { apply R2equ; [reflexivity|reflexivity|repeat constructor; cbn; lia|].
    apply R2equ; [reflexivity|reflexivity|repeat constructor; cbn; lia|].
    apply (R2assert spell (Some e_org) (s2t ";assert step - 4") e_cond).
    { split; [reflexivity|]. split; [vm_compute; reflexivity|repeat constructor; cbn; lia]. }
    apply (R2org spell e_org); [reflexivity|repeat constructor; cbn; lia|].
    apply R2instr; [repeat split; reflexivity|]. apply R2instr; [repeat split; reflexivity|].
    apply R2instr; [repeat split; try reflexivity; cbn; lia|apply R2nil]. }
  split; [repeat constructor|]. split; [repeat constructor|]. split; [exact H6|]. split; [exact H7|].
  split; vm_compute; reflexivity.
Qed.
Example conclusion' : compile_warrior cfg94 source' = COk code 1 (mkPM [] [] []).
Proof.
  destruct hypotheses_hold' as [H1 [H2 [H3 [H4 [H5 [H6 [H7 [H8 H9]]]]]]]].
  exact (C03_programs_with_equ_tokens_partial cfg94 spell (Some e_org) its' es' 0%nat None None code 1%Z source' rkN H1 H2 H3 H4 H5 H6 H7 H8 H9).
Qed.
(* and a condition that is zero leaves the program without a meaning: it must be refused, and is *)
Example zero_condition_refused :
  meaning (mconf_of cfg94) (mkProg [IEqu 21 e_gap; IAssert (NBin OSub (NName 21) (NLit 4)); IInstr (mkIL [] DAT None (mkOp None (NLit 0)) None)] None None None None []) = MReject
  /\ compile_warrior cfg94 (s2t "gap equ 3+1" ++ [10%N] ++ s2t ";assert gap-4" ++ [10%N] ++ s2t "dat 0" ++ [10%N]) = CErr.
Proof. split; vm_compute; reflexivity. Qed.
End C03AssertExample.

(* ... AND WITH FOR BLOCKS: a text whose tokens unroll, block by block (C08Passes.unrolls: k times the first block of
   the stream is written out, with its count taken from the EQU symbols in front of it and the predefined constants),
   to such a document is assembled to what the unrolled program denotes - C03 and C08 together, on the model *)
Theorem C03_programs_with_for_partial :
  forall cfg spell org (its : list Prog.item) es lead nm au code start inp toks k rkN,
    validate cfg = true ->
    spell_ok spell (flat_map il_labels (instrs its) ++ map fst (equs its)) ->
    renders_doc2 spell org its es -> shape2_ok es -> Forall (fun xk => (1 <= snd xk)%nat) es ->
    ranked spell (equs its) rkN ->
    bodies_known cfg its ->
    meaning (mconf_of cfg) (mkProg its org None nm au []) = MOk code start ->
    lex_ascii inp = Some toks -> counts_modelled toks None = true ->
    unrolls cfg k toks (ldoc_toks lead es) -> (k <= max_for_passes)%nat ->
    compile_warrior cfg inp = COk code start (dmeta (mkPM [] [] []) es).
Proof. intros cfg spell. exact (for_program_tokens spell cfg). Qed.
Print Assumptions C03_programs_with_for_partial.

(* ... AND THE SIMPLEST BLOCKS CLOSED: for a FOR block without labels or counter whose body is unlabelled instruction and
   comment lines, the derivation of `unrolls` is constructed for every such text (C08Flat, C03Flat): when the lines in front of
   the block (labels written without colons), the body written out count times (count >= 1, any expression that evaluates
   with the EQU symbols in front of the block) and the lines behind render a program with a meaning, the text with the
   block is assembled to that meaning *)
Theorem C03_programs_with_plain_for_partial :
  forall spell, (forall id, spell id <> []) ->
  forall cfg org (its : list Prog.item) es1 bodyEs es2 lead count n forw rofw skip nm au code start inp toks rkN,
    let es := es1 ++ concat (repeat bodyEs (S n)) ++ es2 in
    validate cfg = true ->
    spell_ok spell (flat_map il_labels (instrs its) ++ map fst (equs its)) ->
    renders_doc2 spell org its es -> shape2_ok es -> Forall (fun xk => (1 <= snd xk)%nat) es ->
    ranked spell (equs its) rkN ->
    bodies_known cfg its ->
    meaning (mconf_of cfg) (mkProg its org None nm au []) = MOk code start ->
    Forall (fun xk => junk_free (fst xk)) es1 -> Forall (fun xk => flat_elem (fst xk)) bodyEs ->
    t_typ forw = tokText -> tok_is_pseudo forw = true -> lower_is (t_val forw) "for" = true -> Forall plain_tok count ->
    t_typ rofw = tokText -> tok_is_pseudo rofw = true -> lower_is (t_val rofw) "for" = false -> lower_is (t_val rofw) "rof" = true ->
    Forall plain_tok skip ->
    (forall syms, front_symbols (doc_plines lead es1) = Some syms ->
       expand_and_evaluate (filter noncomment count) (with_constants cfg syms) = Some (EOk (Z.of_nat (S n)))) ->
    lex_ascii inp = Some toks -> counts_modelled toks None = true ->
    toks = repeat nl_tok lead ++ body es1 ++ (forw :: count ++ [nlt]) ++ body bodyEs ++ rofw :: skip ++ (nlt :: body es2 ++ [tEOF]) ->
    compile_warrior cfg inp = COk code start (dmeta (mkPM [] [] []) es).
Proof. exact flat_for_program. Qed.
Print Assumptions C03_programs_with_plain_for_partial.

Module C03ForExample.
Definition spell := C03EquExample.spell.
Definition e_count : nexpr := NBin OAdd (NName 20) (NLit 1).
Definition l_mov := mkIL [10%N] MOV None (mkOp None (NName 11)) (Some (mkOp (Some B_INDIRECT) (NName 20))).
Definition l_add := mkIL [] ADD None (mkOp (Some IMMEDIATE) (NName 20)) (Some (mkOp None (NName 10))).
Definition l_dat := mkIL [11%N] DAT None (mkOp (Some IMMEDIATE) (NLit 0)) (Some (mkOp (Some IMMEDIATE) (NLit 0))).
Definition its : list Prog.item := [ IEqu 20 (NLit 2); IInstr l_mov; IInstr l_add; IInstr l_add; IInstr l_add; IInstr l_dat ].
Definition es1 : list (lelem * nat) :=
  [ (LEqu [LName (s2t "step")] (s2t "equ") (etoks spell (NLit 2)) None, 1%nat);
    (LInstr (mkTL [LName (s2t "start")] (s2t "mov") None (etoks spell (NName 11)) (Some (Some 64%N, etoks spell (NName 20))) None), 1%nat) ].
Definition bodyEs : list (lelem * nat) :=
  [ (LComment (s2t "; three of these"), 1%nat);
    (LInstr (mkTL [] (s2t "add") (Some 35%N) (etoks spell (NName 20)) (Some (None, etoks spell (NName 10))) None), 1%nat) ].
Definition es2 : list (lelem * nat) :=
  [ (LInstr (mkTL [LName (s2t "bomb")] (s2t "dat") (Some 35%N) (etoks spell (NLit 0)) (Some (Some 35%N, etoks spell (NLit 0))) None), 1%nat) ].
Definition es := es1 ++ concat (repeat bodyEs 3) ++ es2.
Definition source : text :=
  s2t "step equ 2" ++ [10%N] ++ s2t "start mov bomb, @step" ++ [10%N] ++ s2t "  for step+1" ++ [10%N]
  ++ s2t "; three of these" ++ [10%N] ++ s2t "  add #step, start" ++ [10%N] ++ s2t "  rof" ++ [10%N] ++ s2t "bomb dat #0, #0" ++ [10%N].
Definition T := mkT tokText.
Definition toks : list token :=
  repeat nl_tok 0 ++ body es1 ++ (T (s2t "for") :: etoks spell e_count ++ [nlt]) ++ body bodyEs ++ T (s2t "rof") :: [] ++ (nlt :: body es2 ++ [tEOF]).
Definition cfg94 := C03EquExample.cfg94.
Definition code : list instr :=
  [mkI MOV mI 4 DIRECT 2 B_INDIRECT; mkI ADD mAB 2 IMMEDIATE 7999 DIRECT; mkI ADD mAB 2 IMMEDIATE 7998 DIRECT;
   mkI ADD mAB 2 IMMEDIATE 7997 DIRECT; mkI DAT mF 0 IMMEDIATE 0 IMMEDIATE].
Definition rkN (id : N) : nat := 0%nat.

Example conclusion : compile_warrior cfg94 source = COk code 0 (dmeta (mkPM [] [] []) es).
Proof.
  assert (Hne : forall id, spell id <> []) by (intros id; unfold spell, C03EquExample.spell; repeat (destruct (_ =? _)%N); discriminate).
  apply (C03_programs_with_plain_for_partial spell Hne cfg94 None its es1 bodyEs es2 0%nat (etoks spell e_count) 2%nat
           (T (s2t "for")) (T (s2t "rof")) [] None None code 0%Z source toks rkN); try reflexivity.
  - constructor.
    + repeat split; reflexivity.
    + intros id Hid. cbn in Hid. destruct Hid as [<-|[<-|[<-|[]]]]; (split; [reflexivity|]); cbn; intros H;
        repeat (destruct H as [H|H]; [discriminate H|]); exact H.
    + intros a b Ha Hb. cbn in Ha, Hb. destruct Ha as [<-|[<-|[<-|[]]]], Hb as [<-|[<-|[<-|[]]]]; try reflexivity; intros H; discriminate H.
    + cbn. repeat constructor; cbn; intuition discriminate.
    + intros id. unfold spell, C03EquExample.spell. repeat (destruct (_ =? _)%N); discriminate.
  - apply R2equ; [reflexivity|reflexivity|repeat constructor; cbn; lia|].
    apply R2instr; [repeat split; reflexivity|].
    do 3 (apply R2comment; [reflexivity|]; apply R2instr; [repeat split; reflexivity|]).
    apply R2instr; [repeat split; try reflexivity; cbn; lia|apply R2nil].
  - repeat constructor.
  - repeat constructor.
  - intros n e Hin x Hx. cbn in Hin. destruct Hin as [Hin|[]]. inversion Hin; subst n e. destruct Hx.
  - unfold bodies_known. cbn [equs its]. repeat constructor.
  - repeat constructor.
  - repeat constructor.
  - repeat constructor; cbn; discriminate.
  - constructor.
  - intros syms H. vm_compute in H. inversion H; subst syms. vm_compute. reflexivity.
Qed.
End C03ForExample.

(* ... and the comment idiom: a block without labels or counter whose count is not positive, around ANY body (any lines,
   nested blocks included), disappears: the text is assembled to what the lines in front and behind denote *)
Theorem C03_programs_with_comment_block_partial :
  forall spell cfg org (its : list Prog.item) es1 es2 lead count forw rofw skip blk cls v d_at content' nm au code start inp toks rkN,
    let es := es1 ++ es2 in
    validate cfg = true ->
    spell_ok spell (flat_map il_labels (instrs its) ++ map fst (equs its)) ->
    renders_doc2 spell org its es -> shape2_ok es -> Forall (fun xk => (1 <= snd xk)%nat) es ->
    ranked spell (equs its) rkN ->
    bodies_known cfg its ->
    meaning (mconf_of cfg) (mkProg its org None nm au []) = MOk code start ->
    Forall (fun xk => junk_free (fst xk)) es1 ->
    t_typ forw = tokText -> tok_is_pseudo forw = true -> lower_is (t_val forw) "for" = true -> Forall plain_tok count ->
    Forall bline_ok blk -> body_run blk 0 None [] = Some (O, d_at, content') -> Forall (fun vc => is_label (fst vc)) cls ->
    t_typ rofw = tokText -> tok_is_pseudo rofw = true -> lower_is (t_val rofw) "for" = false -> lower_is (t_val rofw) "rof" = true ->
    Forall plain_tok skip ->
    (forall syms, front_symbols (doc_plines lead es1) = Some syms ->
       expand_and_evaluate (filter noncomment count) (with_constants cfg syms) = Some (EOk v)) -> v <= 0 ->
    lex_ascii inp = Some toks -> counts_modelled toks None = true ->
    toks = repeat nl_tok lead ++ body es1 ++ (forw :: count ++ [nlt]) ++ flat_map bl_toks blk ++ lbl_seg cls ++ rofw :: skip ++ (nlt :: body es2 ++ [tEOF]) ->
    compile_warrior cfg inp = COk code start (dmeta (mkPM [] [] []) es).
Proof. exact zero_for_program. Qed.
Print Assumptions C03_programs_with_comment_block_partial.

Module C03CommentExample.
Import C03ForExample.
Definition e_count : nexpr := NBin OSub (NName 20) (NLit 2).
Definition its : list Prog.item := [ IEqu 20 (NLit 2); IInstr l_mov; IInstr l_dat ].
Definition es1 : list (lelem * nat) := [ (LEqu [LName (s2t "step")] (s2t "equ") (etoks spell (NLit 2)) None, 1%nat) ].
Definition es2 : list (lelem * nat) :=
  [ (LInstr (mkTL [LName (s2t "start")] (s2t "mov") None (etoks spell (NName 11)) (Some (Some 64%N, etoks spell (NName 20))) None), 1%nat);
    (LInstr (mkTL [LName (s2t "bomb")] (s2t "dat") (Some 35%N) (etoks spell (NLit 0)) (Some (Some 35%N, etoks spell (NLit 0))) None), 1%nat) ].
Definition blk : list bline :=
  [ mkBL [(s2t "unused", 1%nat)] [T (s2t "dat"); mkT tokNumber [49%N]; mkT tokComma [44%N]; mkT tokNumber [50%N]];
    mkBL [] [T (s2t "for"); mkT tokNumber [51%N]]; mkBL [] [T (s2t "jmp"); T (s2t "nowhere")]; mkBL [] [T (s2t "rof")] ].
Definition source : text :=
  s2t "step equ 2" ++ [10%N] ++ s2t " for step-2" ++ [10%N] ++ s2t "unused: dat 1, 2" ++ [10%N] ++ s2t " for 3" ++ [10%N] ++ s2t " jmp nowhere" ++ [10%N]
  ++ s2t " rof" ++ [10%N] ++ s2t " rof" ++ [10%N] ++ s2t "start mov bomb, @step" ++ [10%N] ++ s2t "bomb dat #0, #0" ++ [10%N].
Definition toks : list token :=
  repeat nl_tok 0 ++ body es1 ++ (T (s2t "for") :: etoks spell e_count ++ [nlt]) ++ flat_map bl_toks blk ++ lbl_seg [] ++ T (s2t "rof") :: [] ++ (nlt :: body es2 ++ [tEOF]).
Definition code : list instr := [mkI MOV mI 1 DIRECT 2 B_INDIRECT; mkI DAT mF 0 IMMEDIATE 0 IMMEDIATE].

Example conclusion : compile_warrior cfg94 source = COk code 0 (dmeta (mkPM [] [] []) (es1 ++ es2)).
Proof.
  eapply (C03_programs_with_comment_block_partial spell cfg94 None its es1 es2 0%nat (etoks spell e_count)
           (T (s2t "for")) (T (s2t "rof")) [] blk [] 0%Z _ _ None None code 0%Z source toks rkN); try reflexivity.
  - constructor.
    + repeat split; reflexivity.
    + intros id Hid. cbn in Hid. destruct Hid as [<-|[<-|[<-|[]]]]; (split; [reflexivity|]); cbn; intros H;
        repeat (destruct H as [H|H]; [discriminate H|]); exact H.
    + intros a b Ha Hb. cbn in Ha, Hb. destruct Ha as [<-|[<-|[<-|[]]]], Hb as [<-|[<-|[<-|[]]]]; try reflexivity; intros H; discriminate H.
    + cbn. repeat constructor; cbn; intuition discriminate.
    + intros id. unfold spell, C03EquExample.spell. repeat (destruct (_ =? _)%N); discriminate.
  - apply R2equ; [reflexivity|reflexivity|repeat constructor; cbn; lia|].
    apply R2instr; [repeat split; reflexivity|].
    apply R2instr; [repeat split; try reflexivity; cbn; lia|apply R2nil].
  - repeat constructor.
  - repeat constructor.
  - intros n e Hin x Hx. cbn in Hin. destruct Hin as [Hin|[]]. inversion Hin; subst n e. destruct Hx.
  - unfold bodies_known. cbn [equs its]. repeat constructor.
  - repeat constructor.
  - repeat constructor; cbn; discriminate.
  - repeat constructor; cbn; discriminate.
  - constructor.
  - constructor.
  - intros syms H. vm_compute in H. inversion H; subst syms. vm_compute. reflexivity.
Qed.
End C03CommentExample.

(* ... and with a COUNTER: `c FOR count` over unlabelled instruction and comment lines whose operands use the counter: when the
   lines in front, the body written out with the counter replaced by 1, 2, ... count in its operand tokens (subst_elem), and
   the lines behind render a program with a meaning, the text with the block is assembled to that meaning *)
Theorem C03_programs_with_counter_for_partial :
  forall spell cfg org (its : list Prog.item) es1 bodyEs es2 lead c count n forw rofw skip nm au code start inp toks rkN,
    let es := es1 ++ concat (map (fun j => map (sek c j) bodyEs) (nseq 1 (S n))) ++ es2 in
    validate cfg = true ->
    spell_ok spell (flat_map il_labels (instrs its) ++ map fst (equs its)) ->
    renders_doc2 spell org its es -> shape2_ok es -> Forall (fun xk => (1 <= snd xk)%nat) es ->
    ranked spell (equs its) rkN ->
    bodies_known cfg its ->
    meaning (mconf_of cfg) (mkProg its org None nm au []) = MOk code start ->
    Forall (fun xk => junk_free (fst xk)) es1 -> Forall (fun xk => flat_elem (fst xk)) bodyEs -> is_label c ->
    t_typ forw = tokText -> tok_is_pseudo forw = true -> lower_is (t_val forw) "for" = true -> Forall plain_tok count ->
    t_typ rofw = tokText -> tok_is_pseudo rofw = true -> lower_is (t_val rofw) "for" = false -> lower_is (t_val rofw) "rof" = true ->
    Forall plain_tok skip ->
    (forall syms, front_symbols (doc_plines lead es1) = Some syms ->
       expand_and_evaluate (filter noncomment count) (with_constants cfg syms) = Some (EOk (Z.of_nat (S n)))) ->
    lex_ascii inp = Some toks -> counts_modelled toks None = true ->
    toks = repeat nl_tok lead ++ body es1 ++ (mkT tokText c :: forw :: count ++ [nlt]) ++ body bodyEs ++ rofw :: skip ++ (nlt :: body es2 ++ [tEOF]) ->
    compile_warrior cfg inp = COk code start (dmeta (mkPM [] [] []) es).
Proof. exact counter_for_program. Qed.
Print Assumptions C03_programs_with_counter_for_partial.

Module C03CounterExample.
Import C03ForExample.
Definition spellc (id : N) : text := if (id =? 30)%N then s2t "i" else spell id.
Definition l_addj (j : Z) := mkIL [] ADD None (mkOp (Some IMMEDIATE) (NLit j)) (Some (mkOp None (NBin OAdd (NName 10) (NLit j)))).
Definition its : list Prog.item := [ IEqu 20 (NLit 2); IInstr l_mov; IInstr (l_addj 1); IInstr (l_addj 2); IInstr (l_addj 3); IInstr l_dat ].
Definition bodyEs : list (lelem * nat) :=
  [ (LInstr (mkTL [] (s2t "add") (Some 35%N) (etoks spellc (NName 30)) (Some (None, etoks spellc (NBin OAdd (NName 10) (NName 30)))) None), 1%nat) ].
Definition source : text :=
  s2t "step equ 2" ++ [10%N] ++ s2t "start mov bomb, @step" ++ [10%N] ++ s2t "i for step+1" ++ [10%N]
  ++ s2t "  add #i, start+i" ++ [10%N] ++ s2t "  rof" ++ [10%N] ++ s2t "bomb dat #0, #0" ++ [10%N].
Definition toks : list token :=
  repeat nl_tok 0 ++ body es1 ++ (T (s2t "i") :: T (s2t "for") :: etoks spell e_count ++ [nlt]) ++ body bodyEs ++ T (s2t "rof") :: [] ++ (nlt :: body es2 ++ [tEOF]).
Definition code : list instr :=
  [mkI MOV mI 4 DIRECT 2 B_INDIRECT; mkI ADD mAB 1 IMMEDIATE 0 DIRECT; mkI ADD mAB 2 IMMEDIATE 0 DIRECT;
   mkI ADD mAB 3 IMMEDIATE 0 DIRECT; mkI DAT mF 0 IMMEDIATE 0 IMMEDIATE].

Example conclusion : compile_warrior cfg94 source =
  COk code 0 (dmeta (mkPM [] [] []) (es1 ++ concat (map (fun j => map (sek (s2t "i") j) bodyEs) (nseq 1 3)) ++ es2)).
Proof.
  apply (C03_programs_with_counter_for_partial spell cfg94 None its es1 bodyEs es2 0%nat (s2t "i") (etoks spell e_count) 2%nat
           (T (s2t "for")) (T (s2t "rof")) [] None None code 0%Z source toks rkN); try reflexivity.
  - constructor.
    + repeat split; reflexivity.
    + intros id Hid. cbn in Hid. destruct Hid as [<-|[<-|[<-|[]]]]; (split; [reflexivity|]); cbn; intros H;
        repeat (destruct H as [H|H]; [discriminate H|]); exact H.
    + intros a b Ha Hb. cbn in Ha, Hb. destruct Ha as [<-|[<-|[<-|[]]]], Hb as [<-|[<-|[<-|[]]]]; try reflexivity; intros H; discriminate H.
    + cbn. repeat constructor; cbn; intuition discriminate.
    + intros id. unfold spell, C03EquExample.spell. repeat (destruct (_ =? _)%N); discriminate.
  - apply R2equ; [reflexivity|reflexivity|repeat constructor; cbn; lia|].
    apply R2instr; [repeat split; reflexivity|].
    do 3 (apply R2instr; [repeat split; try reflexivity; cbn; lia|]).
    apply R2instr; [repeat split; try reflexivity; cbn; lia|apply R2nil].
  - repeat constructor.
  - repeat constructor.
  - intros n e Hin x Hx. cbn in Hin. destruct Hin as [Hin|[]]. inversion Hin; subst n e. destruct Hx.
  - unfold bodies_known. cbn [equs its]. repeat constructor.
  - repeat constructor.
  - repeat constructor.
  - split; reflexivity.
  - repeat constructor; cbn; discriminate.
  - constructor.
  - intros syms H. vm_compute in H. inversion H; subst syms. vm_compute. reflexivity.
Qed.
End C03CounterExample.

(* ... AND ANY NUMBER OF SUCH BLOCKS, one after another (C03Blocks: induction over the blocks; each block with or without a
   counter, count >= 1 evaluated over the EQU symbols in front of it - which by then include those of the written-out earlier
   blocks' lines; not nested, no block labels, bodies of unlabelled instruction and comment lines): when the document with every
   block written out renders a program with a meaning, the text with the blocks is assembled to that meaning *)
Theorem C03_programs_with_blocks_partial :
  forall spell, (forall id, spell id <> []) ->
  forall cfg org (its : list Prog.item) bs last lead nm au code start inp toks rkN,
    let es := blocks_doc bs last in
    validate cfg = true ->
    spell_ok spell (flat_map il_labels (instrs its) ++ map fst (equs its)) ->
    renders_doc2 spell org its es -> shape2_ok es -> Forall (fun xk => (1 <= snd xk)%nat) es ->
    ranked spell (equs its) rkN ->
    bodies_known cfg its ->
    meaning (mconf_of cfg) (mkProg its org None nm au []) = MOk code start ->
    Forall words_ok bs -> counts_ok cfg lead [] bs -> (length bs <= max_for_passes)%nat ->
    lex_ascii inp = Some toks -> counts_modelled toks None = true ->
    toks = repeat nl_tok lead ++ blocks_rest bs last ++ [tEOF] ->
    compile_warrior cfg inp = COk code start (dmeta (mkPM [] [] []) es).
Proof. exact blocks_program. Qed.
Print Assumptions C03_programs_with_blocks_partial.

Module C03BlocksExample.
Import C03ForExample C03CounterExample.
Definition l_jmp := mkIL [] JMP None (mkOp None (NName 10)) None.
Definition its : list Prog.item :=
  [ IEqu 20 (NLit 2); IInstr l_mov; IInstr (l_addj 1); IInstr (l_addj 2); IInstr (l_addj 3); IInstr l_jmp; IInstr l_jmp; IInstr l_dat ].
Definition body2 : list (lelem * nat) :=
  [ (LComment (s2t "; twice"), 1%nat); (LInstr (mkTL [] (s2t "jmp") None (etoks spell (NName 10)) None None), 1%nat) ].
Definition bs : list blk :=
  [ mkBlk es1 (Some (s2t "i")) (T (s2t "for")) (etoks spell e_count) bodyEs (T (s2t "rof")) [] 2;
    mkBlk [] None (T (s2t "for")) (etoks spell (NLit 2)) body2 (T (s2t "rof")) [] 1 ].
Definition source : text :=
  s2t "step equ 2" ++ [10%N] ++ s2t "start mov bomb, @step" ++ [10%N] ++ s2t "i for step+1" ++ [10%N]
  ++ s2t "  add #i, start+i" ++ [10%N] ++ s2t "  rof" ++ [10%N] ++ s2t " for 2" ++ [10%N] ++ s2t "; twice" ++ [10%N]
  ++ s2t "  jmp start" ++ [10%N] ++ s2t " rof" ++ [10%N] ++ s2t "bomb dat #0, #0" ++ [10%N].
Definition code : list instr :=
  [mkI MOV mI 6 DIRECT 2 B_INDIRECT; mkI ADD mAB 1 IMMEDIATE 0 DIRECT; mkI ADD mAB 2 IMMEDIATE 0 DIRECT;
   mkI ADD mAB 3 IMMEDIATE 0 DIRECT; mkI JMP mB 7996 DIRECT 0 DIRECT; mkI JMP mB 7995 DIRECT 0 DIRECT; mkI DAT mF 0 IMMEDIATE 0 IMMEDIATE].

Example conclusion : compile_warrior cfg94 source = COk code 0 (dmeta (mkPM [] [] []) (blocks_doc bs es2)).
Proof.
  assert (Hne : forall id, spell id <> []) by (intros id; unfold spell, C03EquExample.spell; repeat (destruct (_ =? _)%N); discriminate).
  apply (C03_programs_with_blocks_partial spell Hne cfg94 None its bs es2 0%nat None None code 0%Z source
           (repeat nl_tok 0 ++ blocks_rest bs es2 ++ [tEOF]) rkN); try reflexivity.
  - constructor.
    + repeat split; reflexivity.
    + intros id Hid. cbn in Hid. destruct Hid as [<-|[<-|[<-|[]]]]; (split; [reflexivity|]); cbn; intros H;
        repeat (destruct H as [H|H]; [discriminate H|]); exact H.
    + intros a b Ha Hb. cbn in Ha, Hb. destruct Ha as [<-|[<-|[<-|[]]]], Hb as [<-|[<-|[<-|[]]]]; try reflexivity; intros H; discriminate H.
    + cbn. repeat constructor; cbn; intuition discriminate.
    + intros id. unfold spell, C03EquExample.spell. repeat (destruct (_ =? _)%N); discriminate.
  - apply R2equ; [reflexivity|reflexivity|repeat constructor; cbn; lia|].
    apply R2instr; [repeat split; reflexivity|].
    do 3 (apply R2instr; [repeat split; try reflexivity; cbn; lia|]).
    do 2 (apply R2comment; [reflexivity|]; apply R2instr; [repeat split; reflexivity|]).
    apply R2instr; [repeat split; try reflexivity; cbn; lia|apply R2nil].
  - repeat constructor.
  - repeat constructor.
  - intros n e Hin x Hx. cbn in Hin. destruct Hin as [Hin|[]]. inversion Hin; subst n e. destruct Hx.
  - unfold bodies_known. cbn [equs its]. repeat constructor.
  - constructor; [|constructor; [|constructor]]; unfold words_ok; cbn;
      repeat (split; try reflexivity); repeat constructor; cbn; try discriminate.
  - cbn [counts_ok bs b_front b_count b_n]. split; [|split; [|exact I]];
      intros syms H; vm_compute in H; inversion H; subst syms; vm_compute; reflexivity.
  - unfold max_for_passes. cbn. lia.
Qed.
End C03BlocksExample.

(* ... THE SAME WITH NO MODEL-SIDE HYPOTHESIS ABOUT THE COUNTS: each count is the rendering of an expression whose REFERENCE value
   (Meaning.value_at over the EQU definitions among the items in front of the block) is the number of copies - that the
   expander's ExpandAndEvaluate over the scanner's symbols gives this value is proved (C08Count.block_count: the scanner reads
   exactly the definitions in front, r2_scan_table; pass-by-pass substitution with the definitions as written and one
   substitution with the resolved table arrive at the same tokens; both evaluators agree on them) *)
Theorem C03_programs_with_blocks_reference_partial :
  forall spell, (forall id, spell id <> []) ->
  forall cfg org (its : list Prog.item) bs last lead nm au code start inp toks rkN,
    let es := blocks_doc bs last in
    validate cfg = true ->
    spell_ok spell (flat_map il_labels (instrs its) ++ map fst (equs its)) ->
    renders_doc2 spell org its es -> shape2_ok es -> Forall (fun xk => (1 <= snd xk)%nat) es ->
    ranked spell (equs its) rkN ->
    bodies_known cfg its ->
    meaning (mconf_of cfg) (mkProg its org None nm au []) = MOk code start ->
    Forall words_ok bs -> counts_ref spell cfg its [] bs -> (length bs <= max_for_passes)%nat ->
    lex_ascii inp = Some toks -> counts_modelled toks None = true ->
    toks = repeat nl_tok lead ++ blocks_rest bs last ++ [tEOF] ->
    compile_warrior cfg inp = COk code start (dmeta (mkPM [] [] []) es).
Proof. exact blocks_program_ref. Qed.
Print Assumptions C03_programs_with_blocks_reference_partial.

Module C03BlocksRefExample.
Import C03ForExample C03CounterExample C03BlocksExample.
Example counts_by_the_reference : counts_ref spell cfg94 its [] bs.
Proof.
  cbn [counts_ref bs b_count b_n b_front]. split; [|split; [|exact I]].
  - exists e_count. split; [reflexivity|]. split; [repeat constructor; cbn; lia|vm_compute; reflexivity].
  - exists (NLit 2). split; [reflexivity|]. split; [repeat constructor; cbn; lia|vm_compute; reflexivity].
Qed.
End C03BlocksRefExample.

(* missing from C03_full_statement: FOR blocks that are nested, carry block labels or have labelled lines in their bodies
   (for these the relation `unrolls` is a hypothesis, C03_programs_with_for_partial; for blocks in sequence without them it
   is constructed, C03_programs_with_blocks_partial), the identification of the written-out document with the rendering of
   Render.unroll (C08), ;assert lines (C07), and EQU definitions together with an END line.  These, and the composition of all of them, are decided on every run by the
   two-stage correspondence: generated abstract programs are rendered under several styles by the extracted
   Render, assembled by gmars and by the extracted model, and compared with the extracted Meaning. *)
