(* C03 — Redcode source assembles to the instructions it denotes.
   Compile.compile_warrior is the literal model of CompileWarrior (lexer, FOR
   expander, parser, compiler; run against gmars on every run), Render.render
   the surface syntax of an abstract program under a style number, and
   Meaning.meaning what the program denotes, computed without gmars. *)
From GM Require Import Base Text Token Lexer Scanner ExprSpec ExprEval Parser Compile Sim Prog Meaning Render AsmSpec
     C03Proof C03Lexer C06Proof C09Proof.
Open Scope Z_scope.

(* the property at full strength, on the model *)
Definition C03_full_statement : Prop :=
  forall s cfg p code start,
    validate cfg = true ->
    meaning (mconf_of cfg) p = MOk code start ->
    exists meta, compile_warrior cfg (render s p) = COk code start meta.

(* proved, at the lexer stage: a text written as any sequence of well-placed lexemes (blank runs, words,
   numbers, symbols, commas, parentheses, colons, comments), closed by white space, is tokenised into exactly
   the tokens of its lexemes in order; a blank run contributes one newline token per line feed and nothing
   else - so the amount and kind of white space between lexemes, and blank lines' contents, do not matter *)
Theorem C03_lexer_partial :
  forall ps tail,
    Forall (fun x => is_space_a x = true) tail -> tail <> [] -> pieces_ok ps tail ->
    lex_ascii (flat_map ptext ps ++ tail) = Some (flat_map ptoks ps ++ newlines tail ++ [tEOF]).
Proof. exact lex_text. Qed.
Print Assumptions C03_lexer_partial.

Theorem C03_spacing_independent_partial :
  forall ps tail ps' tail',
    Forall (fun x => is_space_a x = true) tail -> tail <> [] -> pieces_ok ps tail ->
    Forall (fun x => is_space_a x = true) tail' -> tail' <> [] -> pieces_ok ps' tail' ->
    flat_map ptoks ps = flat_map ptoks ps' -> newlines tail = newlines tail' ->
    lex_ascii (flat_map ptext ps ++ tail) = lex_ascii (flat_map ptext ps' ++ tail').
Proof.
  intros ps tail ps' tail' H1 H2 H3 H4 H5 H6 E1 E2.
  rewrite (lex_text ps tail H1 H2 H3), (lex_text ps' tail' H4 H5 H6), E1, E2. reflexivity.
Qed.
Print Assumptions C03_spacing_independent_partial.

(* proved, at the compile stage (from parsed source lines to instructions): *)

(* omitted modifiers take the dialect's defaults: the '94 table of load.go is the reference table,
   for all 17 x 8 x 8 combinations; the '88 table is the reference table wherever it accepts *)
Theorem C03_default_modifiers_partial :
  (forall o am bm, op_mode_94 o am bm = default_modifier_94 o am bm) /\
  (forall o am bm md, is88mode am = true -> is88mode bm = true ->
     op_mode_88 o am bm = Some md -> implied_modifier_88 o am bm = Some md) /\
  (forall o am bm md, implied_modifier_88 o am bm = Some md -> op_mode_88 o am bm = Some md).
Proof.
  split; [exact defaults_94|]. split.
  - intros o am bm md. apply op_mode_88_legal. right. exact I.
  - intros o am bm md H. apply (implied_88_facts o am bm md H).
Qed.
Print Assumptions C03_default_modifiers_partial.

(* a label used as an operand becomes its offset from the referring instruction, reduced into [0, M) *)
Theorem C03_label_offset_partial :
  forall values labels se l L line m f,
    lab_find l labels = Some L -> sym_find l values = None -> 0 < m <= 2147483648 ->
    exists toks v,
      expand_expression (S (S f)) m (mkC values labels se) line [mkT tokText l] = Some (Some toks) /\
      evaluate_expression toks = EOk v /\
      norm_field v m = Z.to_N ((L - line) mod m).
Proof. exact label_offset. Qed.
Print Assumptions C03_label_offset_partial.

(* EQU names are substituted textually, token by token, wherever they occur in an expression *)
Theorem C03_equ_textual_partial :
  forall m c line a b,
    expand_pass m c line (a ++ b) =
    match expand_pass m c line a, expand_pass m c line b with Some x, Some y => Some (x ++ y) | _, _ => None end /\
    forall k v, sym_find k (c_values c) = Some v -> expand_pass m c line [mkT tokText k] = Some v.
Proof.
  intros m c line a b. split.
  - rewrite !expand_pass_tokenwise. apply expand_all_app.
  - intros k v H. rewrite expand_pass_tokenwise. cbn [expand_all expand_tok t_typ t_val]. rewrite H. rewrite app_nil_r. reflexivity.
Qed.
Print Assumptions C03_equ_textual_partial.

(* mnemonics, modifiers and pseudo-ops are recognised in any letter case *)
Theorem C03_letter_case_partial :
  (forall s k o, opcode_of_text (recase s k (opcode_name o)) = Some o) /\
  (forall s k md, opmode_of_text (recase s k (opmode_name md)) = Some md) /\
  (forall s k kw, is_pseudo_text (recase s k kw) = is_pseudo_text kw).
Proof. split; [exact opcode_any_case|]. split; [exact opmode_any_case|exact pseudo_any_case]. Qed.
Print Assumptions C03_letter_case_partial.

(* the entry point of an accepted program is the value of its ORG / END expression (0 when there is none),
   and the metadata captured by the parser is returned unchanged *)
Theorem C03_entry_point_partial :
  forall cfg lines meta code start meta',
    compile cfg lines meta = COk code start meta' ->
    exists resolved se,
      let c0 := load_symbols cfg lines in
      let c := mkC resolved (c_labels c0) (c_startexpr c0) in
      expand_expression (expand_fuel c) (Z.of_N (c_size cfg)) c 0 (c_startexpr c0) = Some (Some se) /\
      evaluate_expression se = EOk start /\ meta' = meta.
Proof. exact entry_point. Qed.
Print Assumptions C03_entry_point_partial.

(* missing: the symbol-scanner and parser stages (blank and comment lines, colon suffixes, label spelling,
   EQU placement) and the composition into C03_full_statement.  These are decided on every
   run by the two-stage correspondence: generated abstract programs are rendered under several styles by the
   extracted Render, assembled by gmars and by the extracted model, and compared with the extracted Meaning. *)
