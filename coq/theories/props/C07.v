(* C07 — operand expressions evaluate as integer arithmetic.
   ExprEval.evaluate_expression is the literal model of expr.go evaluateExpression
   (combineSigns, flipDoubleNegatives, then go/types.Eval modelled by the
   precedence-climbing evaluator of ExprSpec on the fragment {literals, + - * / %,
   unary signs, parentheses}, then the 32-bit range check); it is run against gmars
   on every run (hook kind 22 and whole programs).  ExprSpec.expr / denote is the
   mathematical meaning: exact integers, usual precedence, left associativity,
   division and remainder truncating toward zero, any run of unary signs. *)
From GM Require Import Base Text Token Lexer Scanner ExprSpec ExprEval Parser Compile Sim
     C07Parser C07Signs C07Model C07Proof C07Inverse Prog Meaning AsmSpec C03Compile C03Parse C03EquCompile.
Open Scope Z_scope.

(* every expression tree (any nesting, any run of stacked signs, redundant parentheses), written
   out token by token exactly as the tree says: evaluateExpression returns its value when it fits
   32 bits, and an error when a division by zero occurs anywhere or the value does not fit *)
Theorem C07_evaluates :
  forall e, ok e ->
    evaluate_expression (map inj (print e)) =
    match denote e with
    | Some v => if int32_ok v then EOk v else EErr
    | None => EErr
    end.
Proof. exact evaluate_printed. Qed.
Print Assumptions C07_evaluates.

(* what reaches the evaluator after sign folding and double-negative rewriting is again a printed
   tree with the same value and with no "++" or "--" in it *)
Theorem C07_sign_rewriting :
  forall e, ok e ->
    flip_double_negatives (combine_signs (map inj (print e))) = map inj (print (signs_norm e)) /\
    ok (signs_norm e) /\ denote (signs_norm e) = denote e /\ adjacency (print (signs_norm e)) = AdjOk.
Proof.
  intros e Hok. destruct (signs_norm_ok e Hok) as [N1 [N2 N3]].
  split; [rewrite combine_signs_inj, flip_dn_inj, signs_tokens; reflexivity|].
  split; [exact N1|]. split; [exact N2|].
  rewrite <- (app_nil_r (print (signs_norm e))). apply adj_print; [exact N3|reflexivity|exact I].
Qed.
Print Assumptions C07_sign_rewriting.

(* the evaluator itself: usual precedence and left associativity *)
Theorem C07_reference_evaluator : forall e, ok e -> eval_tokens (print e) = denote e.
Proof. exact eval_print. Qed.
Print Assumptions C07_reference_evaluator.

(* the value is then reduced into [0, core size) *)
Theorem C07_reduced_mod : forall v m, 0 < m -> norm_field v m = Z.to_N (v mod m).
Proof. exact norm_field_mod. Qed.
Print Assumptions C07_reduced_mod.

(* the predefined names are the configuration's values *)
Theorem C07_constants :
  forall cfg,
    sym_find (s2t "CORESIZE") (load_constants cfg) = Some [num_tok (c_size cfg)] /\
    sym_find (s2t "MAXLENGTH") (load_constants cfg) = Some [num_tok (c_len cfg)] /\
    sym_find (s2t "MAXPROCESSES") (load_constants cfg) = Some [num_tok (c_procs cfg)] /\
    sym_find (s2t "MINDISTANCE") (load_constants cfg) = Some [num_tok (c_dist cfg)] /\
    forall n, evaluate_expression [num_tok n] = if int32_ok (Z.of_N n) then EOk (Z.of_N n) else EErr.
Proof. intros cfg. destruct (constants_lookup cfg) as [A [B [C D]]]. repeat split; try assumption. exact eval_num. Qed.
Print Assumptions C07_constants.

(* an assertion passes exactly when its expression evaluates to a non-zero value *)
Theorem C07_assert :
  forall m c txt v,
    eval_assert m c txt = Some (EOk v) <->
    exists toks e, lex_ascii txt = Some toks /\
                   expand_expression (expand_fuel c) m c 0 (removelast toks) = Some (Some e) /\
                   evaluate_expression e = EOk v /\ v <> 0.
Proof. exact assert_passes. Qed.
Print Assumptions C07_assert.

(* ... and on whole programs (C03EquCompile): a program of labelled instructions, EQU definitions (any order, any depth),
   ORG and ;assert lines - each a comment `;assert<text>` whose text the lexer turns into the tokens of a condition - is
   REFUSED by the compiler when one of its conditions has the reference value 0 (the first such line, those before it
   being non-zero: C03EquCompile.first_zero, which implies Meaning.assertions = MReject), and - props/C03.v,
   C03_programs_with_equ_partial - ACCEPTED with exactly the code it denotes when every condition has a value other than
   zero.  The conditions are read the reference's way: names substituted textually pass by pass with the definitions as
   written, labels at line 0, then integer arithmetic. *)
Theorem C07_zero_condition_refused :
  forall spell cfg org its es lines meta rkN,
    validate cfg = true -> renders_doc2 spell org its es ->
    spell_ok spell (flat_map il_labels (instrs its) ++ map fst (equs its)) ->
    ranked spell (equs its) rkN ->
    essential lines = elines 0 es ->
    Z.of_nat (length (instrs its)) < Z.of_N (c_size cfg) ->
    first_zero (mconf_of cfg) (equs its) (lab_pairs 0 (instrs its)) its = true ->
    compile cfg lines meta = CErr.
Proof. exact compile_program2_refused. Qed.
Print Assumptions C07_zero_condition_refused.

Theorem C07_zero_condition_is_reject :
  forall cf ev ls its, first_zero cf ev ls its = true -> assertions cf ev ls its = MReject.
Proof. exact first_zero_rejects. Qed.
Print Assumptions C07_zero_condition_is_reject.

Theorem C07_nonzero_conditions_accepted :
  forall spell cfg org its es lines meta nm au code start rkN,
    validate cfg = true -> renders_doc2 spell org its es ->
    spell_ok spell (flat_map il_labels (instrs its) ++ map fst (equs its)) ->
    ranked spell (equs its) rkN ->
    essential lines = elines 0 es ->
    meaning (mconf_of cfg) (mkProg its org None nm au []) = MOk code start ->
    compile cfg lines meta = COk code start meta.
Proof. exact compile_program2. Qed.
Print Assumptions C07_nonzero_conditions_accepted.

(* not only printed trees: EVERY token list the reference evaluator accepts (non-negative number tokens, operators,
   parentheses, sign runs of any length anywhere) is evaluated by expr.go's evaluator to the reference's value -
   in particular the token lists that textual substitution of EQU values produces, which are the printed form of
   no tree the program text shows (C07Inverse: an accepted token list is the printed form of its parse tree) *)
Theorem C07_all_accepted_token_lists :
  forall l v, Forall nonneg_tok l -> eval_tokens l = Some v ->
    evaluate_expression (map inj l) = if int32_ok v then EOk v else EErr.
Proof. exact evaluate_accepted. Qed.
Print Assumptions C07_all_accepted_token_lists.

(* the hypotheses are met by   - - 3 * ( 2 - - 4 ) / - + - 2   whose value is 9 *)
Example C07_example :
  let e := Bin ODiv (Bin OMul (Sgn true (Sgn true (Lit 3))) (Par (Bin OSub (Lit 2) (Sgn true (Lit 4)))))
               (Sgn true (Sgn false (Sgn true (Lit 2)))) in
  ok e /\ denote e = Some 9 /\ evaluate_expression (map inj (print e)) = EOk 9.
Proof. cbv zeta. split; [cbn; lia|]. split; [reflexivity|]. vm_compute. reflexivity. Qed.

(* D33: an ;assert comment that stands between a label and its instruction is kept as a comment line of its own by the
   parser's label states (it used to be consumed without leaving a line, so its condition was never evaluated);
   eval_assertions then treats it like every other ;assert line *)
Theorem C07_assert_in_label_section_kept :
  forall p c, t_typ (p_nt p) = tokComment -> t_val (p_nt p) = c -> has_prefix (s2t ";assert") c = true ->
    exists p', parse_step PLabels p = (p', Some PLabels) /\
               p_lines p' = p_lines p ++ [mkSL (p_line p) 0 lineComment [] [] [] [] [] [] c 0].
Proof.
  intros p c Ht Hv Hp. cbn [parse_step]. rewrite Ht, Hv. eexists. split; [reflexivity|].
  unfold pnext, p_label_comment. cbn [p_eof p_toks]. destruct (p_eof p); [cbn [p_lines]; rewrite Hp; reflexivity|].
  destruct (p_toks p); cbn [p_upd p_lines]; rewrite Hp; reflexivity.
Qed.
Print Assumptions C07_assert_in_label_section_kept.
Example assert_behind_a_label_line :
  compile_warrior (mkCfg 2 8000 8000 80000 8000 8000 100 100) (s2t "lbl" ++ [10%N] ++ s2t ";assert 0" ++ [10%N] ++ s2t "dat 0" ++ [10%N]) = CErr /\
  compile_warrior (mkCfg 2 8000 8000 80000 8000 8000 100 100) (s2t "lbl:" ++ [10%N] ++ s2t ";assert lbl+1" ++ [10%N] ++ s2t "dat 0" ++ [10%N])
    = COk [mkI DAT mF 0 IMMEDIATE 0 DIRECT] 0 (mkPM [] [] []).
Proof. split; vm_compute; reflexivity. Qed.
