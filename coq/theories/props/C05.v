(* C05 — assembling any input terminates cleanly.
   Lexer.lex_sends is the lexer goroutine of lex.go as the list of tokens it sends
   (fuel 2*|input|+4 state functions), ForExpand.for_expand the FOR expander
   goroutine of forexpand.go (sends, "left blocked" flag, what Tokens() returns);
   both are run against gmars on every run (hook kinds 20 / 21 and whole programs,
   with goroutine counts before and after). *)
From GM Require Import Base Text Token Lexer Scanner ExprSpec ExprEval ForExpand Parser Compile Sim
     C05Lexer C05Expander C05Fuel ScanProof ParserFuel EquFuel FrontEnd.
Open Scope N_scope.

(* the property at full strength, on the model: assembling never runs out of fuel (fuel is linear in
   the size of the input after expansion), and neither goroutine is left behind *)
Definition C05_full_statement : Prop :=
  forall cfg inp, compile_warrior cfg inp <> COutOfFuel.

(* proved, part 1: the lexer.  For EVERY input (any runes: invalid UTF-8 replacement runes, NUL, ^Z,
   CR/LF, unterminated last lines) and every classification of runes, the goroutine ends within
   2*|input|+4 state functions and what it sends is ordinary tokens followed by exactly one terminal
   token, so Tokens() receives every send and the goroutine is not left blocked *)
Theorem C05_lexer_ends_partial :
  forall is_space is_letter is_digit inp,
    exists s, lex_sends is_space is_letter is_digit inp = Some s /\ closed_stream s.
Proof. exact lex_sends_closed. Qed.
Print Assumptions C05_lexer_ends_partial.

Theorem C05_lexer_tokens :
  forall inp, exists s, lex_ascii inp = Some s /\ closed_stream s.
Proof. exact lex_ascii_total. Qed.
Print Assumptions C05_lexer_tokens.

(* proved, part 2: the FOR expander.  For EVERY token stream and symbol table, when the pass ends the
   goroutine has sent ordinary tokens followed by at most one terminal token, the last thing it sent:
   it is never left blocked on a send, and what Tokens() returns ends with exactly one terminal token *)
Theorem C05_expander_clean_partial :
  forall toks symbols r,
    for_expand toks symbols = Some (Some r) ->
    fr_stuck r = false /\ okfinal (fr_sends r) /\ closed_stream (fr_tokens r).
Proof. exact for_expand_clean. Qed.
Print Assumptions C05_expander_clean_partial.

(* proved, part 3: on every closed token stream (which is what the lexer delivers, part 1) a pass of the
   expander ends within its 4*|tokens|+8 state functions - a measure argument over the 12 state functions;
   the evaluation of the FOR count ends too (part 5) *)
Theorem C05_expander_ends_partial :
  forall toks symbols, closed_stream toks -> exists r, for_expand toks symbols = Some r.
Proof. intros toks symbols C. apply for_expand_ends; [exact C|]. intros e. apply expand_and_evaluate_total. Qed.
Print Assumptions C05_expander_ends_partial.

(* proved, part 4: the symbol scanner ends within its 3*|tokens|+6 state functions and the parser within its
   4*|tokens|+10 state functions on every closed token stream (potential arguments over the 4 and the 13
   state functions: every state function consumes a token or moves to a state of lower rank) *)
Theorem C05_scanner_parser_end_partial :
  forall toks, closed_stream toks -> scan_input toks <> None /\ parse toks <> None.
Proof. intros toks C. split; [apply scan_input_total|apply parse_total]; exact C. Qed.
Print Assumptions C05_scanner_parser_end_partial.

(* proved, part 5: when the cycle check finds no cycle, the memoised expansion of the EQU values ends within
   its fuel (the walk of the check bounds the recursion of the expansion), so the evaluation of a FOR count
   always ends, for every symbol table *)
Theorem C05_count_evaluation_ends_partial :
  (forall values g, graph_has_cycle g = Some false -> (length g <= length values)%nat ->
                    expand_expressions values g <> None) /\
  (forall e syms, expand_and_evaluate e syms <> None).
Proof. split; [exact expand_expressions_total|exact expand_and_evaluate_total]. Qed.
Print Assumptions C05_count_evaluation_ends_partial.

(* proved, part 6: the front end composed.  For EVERY input text and configuration the lexer ends, every
   scan / expansion pass of the pass driver ends (at most 1000 passes), and the parser ends on what comes
   out: assembling can run out of fuel only inside the compiler proper *)
Theorem C05_front_end_ends_partial :
  forall cfg inp,
    (exists toks, lex_ascii inp = Some toks /\
       exists r, pass_loop cfg (S max_for_passes) toks = Some r /\
       match r with Some toks' => parse toks' <> None | None => True end) /\
    (compile_warrior cfg inp = COutOfFuel -> exists lines meta, compile cfg lines meta = COutOfFuel).
Proof. intros cfg inp. split; [apply front_end_ends|apply compile_warrior_fuel]. Qed.
Print Assumptions C05_front_end_ends_partial.

(* missing: that the fixpoint loop of expandExpression (compile.go) always ends within the fuel the model gives
   it (number of symbols + 3 passes) once the cycle check has passed - the last step to C05_full_statement.
   A model run that exhausts its fuel answers COutOfFuel, which the correspondence reports as a disagreement
   with gmars, so that gap is covered by differential testing only.  Time, memory and the goroutine profile
   are measured on the real code on every run (they are runtime facts the model cannot exhibit). *)
