(* C05 — assembling any input terminates cleanly.
   Lexer.lex_sends is the lexer goroutine of lex.go as the list of tokens it sends
   (fuel 2*|input|+4 state functions), ForExpand.for_expand the FOR expander
   goroutine of forexpand.go (sends, "left blocked" flag, what Tokens() returns);
   both are run against gmars on every run (hook kinds 20 / 21 and whole programs,
   with goroutine counts before and after). *)
From GM Require Import Base Text Token Lexer Scanner ExprSpec ExprEval ForExpand Parser Compile Sim
     C05Lexer C05Expander C05Fuel.
Open Scope N_scope.

(* the property at full strength, on the model: assembling never runs out of fuel (fuel is linear in
   the size of the input after expansion), and neither goroutine is left behind *)
Definition C05_full_statement : Prop :=
  forall cfg inp, compile_warrior cfg inp <> COutOfFuel.

(* proved, part 1: the lexer.  For EVERY input (any runes: invalid UTF-8 replacement runes, NUL, ^Z,
   CR/LF, unterminated last lines) and every classification of runes, the goroutine ends within
   2*|input|+4 state functions and what it sends is ordinary tokens followed by exactly one terminal
   token, so Tokens() receives every send and the goroutine is not left blocked *)
Theorem C05_lexer_ends_partial :
  forall is_space is_letter is_digit inp,
    exists s, lex_sends is_space is_letter is_digit inp = Some s /\ closed_stream s.
Proof. exact lex_sends_closed. Qed.
Print Assumptions C05_lexer_ends_partial.

Theorem C05_lexer_tokens :
  forall inp, exists s, lex_ascii inp = Some s /\ closed_stream s.
Proof. exact lex_ascii_total. Qed.
Print Assumptions C05_lexer_tokens.

(* proved, part 2: the FOR expander.  For EVERY token stream and symbol table, when the pass ends the
   goroutine has sent ordinary tokens followed by at most one terminal token, the last thing it sent:
   it is never left blocked on a send, and what Tokens() returns ends with exactly one terminal token *)
Theorem C05_expander_clean_partial :
  forall toks symbols r,
    for_expand toks symbols = Some (Some r) ->
    fr_stuck r = false /\ okfinal (fr_sends r) /\ closed_stream (fr_tokens r).
Proof. exact for_expand_clean. Qed.
Print Assumptions C05_expander_clean_partial.

(* proved, part 3: on every closed token stream (which is what the lexer delivers, part 1) a pass of the
   expander ends within its 4*|tokens|+8 state functions - a measure argument over the 12 state functions -
   provided the evaluation of FOR counts does not run out of ITS fuel (EQU graph walk and substitution) *)
Theorem C05_expander_ends_partial :
  forall toks symbols,
    closed_stream toks -> (forall e, expand_and_evaluate e symbols <> None) ->
    exists r, for_expand toks symbols = Some r.
Proof. exact for_expand_ends. Qed.
Print Assumptions C05_expander_ends_partial.

(* missing: that the fuel of the EQU graph walk / substitution loops, of the symbol scanner and of the parser
   always suffices (C05_full_statement).  A model run that exhausts its
   fuel answers COutOfFuel, which the correspondence reports as a disagreement with gmars, so the gap is
   covered by differential testing only. *)
