(* C05 — assembling any input terminates cleanly.
   Lexer.lex_sends is the lexer goroutine of lex.go as the list of tokens it sends
   (fuel 2*|input|+4 state functions), ForExpand.for_expand the FOR expander
   goroutine of forexpand.go (sends, "left blocked" flag, what Tokens() returns);
   both are run against gmars on every run (hook kinds 20 / 21 and whole programs,
   with goroutine counts before and after). *)
From GM Require Import Base Text Token Lexer Scanner ExprSpec ExprEval ForExpand Parser Compile Sim
     C05Lexer C05Expander C05Fuel ScanProof ParserFuel EquFuel SubstFuel FrontEnd.
Open Scope N_scope.

(* the property at full strength, on the model: assembling never runs out of fuel (fuel is linear in
   the size of the input after expansion), and neither goroutine is left behind *)
Definition C05_full_statement : Prop :=
  forall cfg inp, compile_warrior cfg inp <> COutOfFuel.

(* proved, part 1: the lexer.  For EVERY input (any runes: invalid UTF-8 replacement runes, NUL, ^Z,
   CR/LF, unterminated last lines) and every classification of runes, the goroutine ends within
   2*|input|+4 state functions and what it sends is ordinary tokens followed by exactly one terminal
   token, so Tokens() receives every send and the goroutine is not left blocked *)
Theorem C05_lexer_ends_partial :
  forall is_space is_letter is_digit inp,
    exists s, lex_sends is_space is_letter is_digit inp = Some s /\ closed_stream s.
Proof. exact lex_sends_closed. Qed.
Print Assumptions C05_lexer_ends_partial.

Theorem C05_lexer_tokens :
  forall inp, exists s, lex_ascii inp = Some s /\ closed_stream s.
Proof. exact lex_ascii_total. Qed.
Print Assumptions C05_lexer_tokens.

(* proved, part 2: the FOR expander.  For EVERY token stream and symbol table, when the pass ends the
   goroutine has sent ordinary tokens followed by at most one terminal token, the last thing it sent:
   it is never left blocked on a send, and what Tokens() returns ends with exactly one terminal token *)
Theorem C05_expander_clean_partial :
  forall toks symbols r,
    for_expand toks symbols = Some (Some r) ->
    fr_stuck r = false /\ okfinal (fr_sends r) /\ closed_stream (fr_tokens r).
Proof. exact for_expand_clean. Qed.
Print Assumptions C05_expander_clean_partial.

(* proved, part 3: on every closed token stream (which is what the lexer delivers, part 1) a pass of the
   expander ends within its 4*|tokens|+8 state functions - a measure argument over the 12 state functions;
   the evaluation of the FOR count ends too (part 5) *)
Theorem C05_expander_ends_partial :
  forall toks symbols, closed_stream toks -> exists r, for_expand toks symbols = Some r.
Proof. intros toks symbols C. apply for_expand_ends; [exact C|]. intros e. apply expand_and_evaluate_total. Qed.
Print Assumptions C05_expander_ends_partial.

(* proved, part 4: the symbol scanner ends within its 3*|tokens|+6 state functions and the parser within its
   4*|tokens|+10 state functions on every closed token stream (potential arguments over the 4 and the 13
   state functions: every state function consumes a token or moves to a state of lower rank) *)
Theorem C05_scanner_parser_end_partial :
  forall toks, closed_stream toks -> scan_input toks <> None /\ parse toks <> None.
Proof. intros toks C. split; [apply scan_input_total|apply parse_total]; exact C. Qed.
Print Assumptions C05_scanner_parser_end_partial.

(* proved, part 5: when the cycle check finds no cycle, the memoised expansion of the EQU values ends within
   its fuel (the walk of the check bounds the recursion of the expansion), so the evaluation of a FOR count
   always ends, for every symbol table *)
Theorem C05_count_evaluation_ends_partial :
  (forall values g, graph_has_cycle g = Some false -> (length g <= length values)%nat ->
                    expand_expressions values g <> None) /\
  (forall e syms, expand_and_evaluate e syms <> None).
Proof. split; [exact expand_expressions_total|exact expand_and_evaluate_total]. Qed.
Print Assumptions C05_count_evaluation_ends_partial.

(* proved, part 6: the front end composed.  For EVERY input text and configuration the lexer ends, every
   scan / expansion pass of the pass driver ends (at most 1000 passes), and the parser ends on what comes
   out: assembling can run out of fuel only inside the compiler proper *)
Theorem C05_front_end_ends_partial :
  forall cfg inp,
    (exists toks, lex_ascii inp = Some toks /\
       exists r, pass_loop cfg (S max_for_passes) toks = Some r /\
       match r with Some toks' => parse toks' <> None | None => True end) /\
    (compile_warrior cfg inp = COutOfFuel -> exists lines meta, compile cfg lines meta = COutOfFuel).
Proof. intros cfg inp. split; [apply front_end_ends|apply compile_warrior_fuel]. Qed.
Print Assumptions C05_front_end_ends_partial.

(* proved, part 7: the compiler proper.  Once the cycle check has passed, every token needs at most
   |graph|+1 substitution passes (the walk of the check bounds the nesting of EQU values: SubstFuel.walk_bounds),
   so the substitute-until-nothing-changes loop of expandExpression ends within the model's |symbols|+3 passes;
   the table expandExpressions returns is free of EQU names, so afterwards two passes settle any expression *)
Theorem C05_substitution_ends_partial :
  (forall m c line l, graph_has_cycle (build_graph (c_values c)) = Some false ->
                      expand_expression (expand_fuel c) m c line l <> None) /\
  (forall m values resolved labels se line l,
     expand_expressions values (build_graph values) = Some (Some resolved) ->
     expand_expression (expand_fuel (mkC resolved labels se)) m (mkC resolved labels se) line l <> None) /\
  (forall cfg lines meta, compile cfg lines meta <> COutOfFuel).
Proof. split; [exact expand_expression_acyclic|]. split; [exact expand_expression_resolved|exact compile_ends]. Qed.
Print Assumptions C05_substitution_ends_partial.

(* the property at full strength on the model: for EVERY input text and EVERY configuration, assembling ends
   within the fuel of every loop of the model - lexer 2n+4, scanner 3n+6, expander 4n+8 per pass and at most
   1000 passes, parser 4n+10 state functions, EQU graph walk, memoised expansion and substitution passes
   bounded by the number of symbols - and returns an error or a warrior (cres has no third outcome besides
   CUnmodelled, which marks expressions outside the modelled fragment of go/types.Eval) *)
Theorem C05_assembling_terminates : C05_full_statement.
Proof. exact compile_warrior_ends. Qed.
Print Assumptions C05_assembling_terminates.

(* not a theorem: wall-clock time, memory and the goroutine profile are facts about the Go runtime; they are
   measured on the real code on every run (worker deadline, RSS limit, goroutine count before and after).
   Textual EQU substitution is exponential in nesting depth in the size of the *substituted* text; the bound
   above counts passes, not tokens (see DESIGN.md, C05). *)
