(* C17 — the command-line tool reports the battles it was asked to run.
   Cli.v is the literal model of cmd/gmars/main.go (run against the binary built
   from /repo on every run); CliSpec.v is the documented flag table and the
   reference battle; math/rand is a parameter (the list of positions drawn). *)
From GM Require Import Base Text Sim Mars Compile Cli CliSpec C02Proof C17Proof.
Open Scope N_scope.

(* the flags -s -p -c -l -8 give exactly the documented configuration *)
Theorem C17_flags_config :
  forall f, fl_preset f = 0 ->
    (0 <= fl_s f < 18446744073709551616)%Z -> (0 <= fl_p f < 18446744073709551616)%Z ->
    (0 <= fl_c f < 18446744073709551616)%Z -> (0 <= fl_l f < 18446744073709551616)%Z ->
    doc_config f = Some (cli_config f).
Proof. exact flags_config. Qed.
Print Assumptions C17_flags_config.

(* a preset is the documented one, whatever the other flags say *)
Theorem C17_presets :
  (forall k, 1 <= k <= 6 -> k <> 5 -> preset_config k = doc_preset k) /\
  match preset_config 5, doc_preset 5 with
  | Some a, Some b =>
      c_mode a = c_mode b /\ c_size a = c_size b /\ c_procs a = c_procs b /\ c_cycles a = c_cycles b /\
      c_len a = c_len b /\ c_dist a = c_dist b /\ 2 * c_size a - 1 <= c_rl a /\ 2 * c_size a - 1 <= c_wl a
  | _, _ => False
  end.
Proof. split; [exact preset_config_documented|exact preset_nop256]. Qed.
Print Assumptions C17_presets.

(* whatever positions are drawn: ties are the same for both, every round is counted at most
   once and exactly as a win for one side, a tie for both, or (both dead) for nobody *)
Theorem C17_conservation :
  forall cfg w1 w2 positions t n t',
    tally_ok n t -> cli_rounds cfg w1 w2 positions t = Some t' ->
    tally_ok (n + Z.of_nat (length positions)) t'.
Proof. exact rounds_conserved. Qed.
Print Assumptions C17_conservation.

(* one round of the tool is the reference battle at that placement *)
Theorem C17_round_is_reference :
  forall cfg w1 w2 pos,
    round_guards cfg -> warrior_ok cfg w1 -> warrior_ok cfg w2 -> (0 <= pos < 18446744073709551616)%Z ->
    validate cfg = true ->
    cli_round cfg w1 (Some w2) pos = Some (ref_outcome cfg w1 (Some w2) pos).
Proof. exact cli_round_is_reference. Qed.
Print Assumptions C17_round_is_reference.

(* with -F the two printed lines are the reference outcome times the number of rounds *)
Theorem C17_fixed_output :
  forall cfg w1 w2 f,
    round_guards cfg -> warrior_ok cfg w1 -> warrior_ok cfg w2 -> (0 <= fl_F f < 18446744073709551616)%Z ->
    validate cfg = true -> (0 <= fl_r f)%Z ->
    match cli_rounds cfg w1 (Some w2) (fixed_positions f) (mkTa 0 0 0 0) with
    | Some t => cli_output true t = tally_lines true (fl_r f) (ref_outcome cfg w1 (Some w2) (fl_F f))
    | None => False
    end.
Proof. exact fixed_output. Qed.
Print Assumptions C17_fixed_output.
