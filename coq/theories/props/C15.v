(* C15 — reports tell listeners about every change, at valid addresses.
   Exec.exec / Sim.run_cycle return the report stream in order; Recorder.rec_fold
   is the literal model of StateRecorder.Report; all three are run against gmars
   on every run of the check. *)
From GM Require Import Base Exec Sim Recorder Reports InvSim C15Proof C15Recorder.
Open Scope N_scope.

(* one task, for every limits: every cell that changes is named by a write /
   increment / decrement report of this task; every report carries an address
   below M and this warrior's index; a task-termination report (at the task's
   own address) is emitted exactly when no successor is queued *)
Theorem C15_task_reports :
  forall M rl wl wi, 0 < M -> forall c pc, pc < M ->
    let '(c', pushes, reps) := exec M rl wl wi c pc in
    (forall a, get c' a <> get c a -> In a (chg reps)) /\
    Forall (rep_ok M wi) reps /\
    (pushes = [] <-> exists r, In r reps /\ r_type r = WarriorTaskTerminate) /\
    (forall r, In r reps -> r_type r = WarriorTaskTerminate -> r_addr r = pc).
Proof. exact exec_reports. Qed.
Print Assumptions C15_task_reports.

(* a whole RunCycle from any state satisfying the invariant: every report other
   than CycleStart/CycleEnd has an address below M and the index of an existing
   warrior, and every cell changed by the cycle is named by a change report *)
Theorem C15_cycle_reports :
  forall s, Inv s ->
    match run_cycle s with
    | Panic => False
    | Ok (s', _, reps) =>
        Forall (fun r => r_type r = CycleStart \/ r_type r = CycleEnd \/
                         rep_valid (s_m s) (length (s_ws s)) r) reps /\
        (forall a, get (s_mem s') a <> get (s_mem s) a -> In a (chg reps))
    end.
Proof. exact run_cycle_reports. Qed.
Print Assumptions C15_cycle_reports.

(* the recorder never indexes out of range on such a stream and shows, for every
   address, the kind and owner of the last report that touched it (empty after a reset) *)
Theorem C15_recorder_last_touch :
  forall M lens reads evs, 0 < M -> Forall (rep_wf M lens) evs ->
    exists r, rec_fold M lens reads rec_empty evs = Some r /\
      forall a, a < M -> rec_get r a = last_touch M lens reads evs a.
Proof. exact recorder_from_empty. Qed.
Print Assumptions C15_recorder_last_touch.
