(* Prog.v — abstract Redcode programs (what a source text denotes is computed
   from these, never from gmars): expressions over literals and names,
   instructions with optional labels / modifier / modes / second operand, EQU
   definitions, FOR blocks, ORG / END, metadata.  Also the wire decoding used by
   the harness.  Definitions only. *)
From GM Require Export Base Text ExprSpec.
Open Scope Z_scope.

Inductive nexpr :=
| NLit (n : Z)
| NName (id : N)                    (* label, EQU name, FOR counter or predefined constant *)
| NPar (e : nexpr)
| NSgn (minus : bool) (e : nexpr)
| NBin (o : bop) (a b : nexpr).

(* predefined names: ids 1..4 *)
Definition ID_CORESIZE : N := 1.  Definition ID_MAXLENGTH : N := 2.
Definition ID_MAXPROCESSES : N := 3.  Definition ID_MINDISTANCE : N := 4.

Record operand := mkOp { o_mode : option amode; o_expr : nexpr }.
Record iline := mkIL {
  il_labels : list N; il_op : opcode; il_mod : option opmode; il_a : operand; il_b : option operand }.

Inductive item :=
| IInstr (l : iline)
| IEqu (name : N) (e : nexpr)
| IFor (labels : list N) (counter : N) (count : nexpr) (body : list item)
| IAssert (e : nexpr).                (* a ;assert comment line *)

Record prog := mkProg {
  pr_items : list item; pr_org : option nexpr; pr_end : option nexpr;
  pr_name : option text; pr_author : option text;
  pr_end_labels : list N }.             (* labels written on the END line: the address just past the code *)

(* ---------- wire format (prefix encoding) ---------- *)
Definition bop_of (n : Z) : bop :=
  match n with 0 => OAdd | 1 => OSub | 2 => OMul | 3 => ODiv | _ => OMod end.

Fixpoint rd_nexpr (f : nat) (l : list Z) : option (nexpr * list Z) :=
  match f with
  | O => None
  | S f' =>
    match l with
    | 0 :: n :: t => Some (NLit n, t)
    | 1 :: id :: t => Some (NName (Z.to_N id), t)
    | 2 :: t => match rd_nexpr f' t with Some (e, t') => Some (NPar e, t') | None => None end
    | 3 :: m :: t => match rd_nexpr f' t with Some (e, t') => Some (NSgn (m =? 1) e, t') | None => None end
    | 4 :: o :: t => match rd_nexpr f' t with
                     | Some (a, t1) => match rd_nexpr f' t1 with
                                       | Some (b, t2) => Some (NBin (bop_of o) a b, t2)
                                       | None => None end
                     | None => None end
    | _ => None
    end
  end.

Definition rd_ids (l : list Z) : option (list N * list Z) :=
  match l with
  | n :: t => let k := Z.to_nat n in
              if (length t <? k)%nat then None else Some (map Z.to_N (firstn k t), skipn k t)
  | [] => None
  end.
Definition rd_optmode (l : list Z) : option (option amode * list Z) :=
  match l with
  | x :: t => if x <? 0 then Some (None, t) else
              match amode_of (Z.to_N x) with Some m => Some (Some m, t) | None => None end
  | [] => None
  end.
Definition rd_operand (f : nat) (l : list Z) : option (operand * list Z) :=
  match rd_optmode l with
  | Some (m, t) => match rd_nexpr f t with Some (e, t') => Some (mkOp m e, t') | None => None end
  | None => None
  end.

Fixpoint rd_items (f : nat) (n : nat) (l : list Z) : option (list item * list Z) :=
  match f with
  | O => None
  | S f' =>
    match n with
    | O => Some ([], l)
    | S n' =>
      let one :=
          match l with
          | 0 :: t =>            (* instruction: labels op mod a hasb [b] *)
            match rd_ids t with
            | Some (labs, o :: md :: t1) =>
              match opcode_of (Z.to_N o), rd_operand f' t1 with
              | Some op, Some (a, hasb :: t2) =>
                let mo := if md <? 0 then None else opmode_of (Z.to_N md) in
                if hasb =? 1 then
                  match rd_operand f' t2 with
                  | Some (b, t3) => Some (IInstr (mkIL labs op mo a (Some b)), t3)
                  | None => None end
                else Some (IInstr (mkIL labs op mo a None), t2)
              | _, _ => None
              end
            | _ => None
            end
          | 1 :: id :: t => match rd_nexpr f' t with Some (e, t') => Some (IEqu (Z.to_N id) e, t') | None => None end
          | 3 :: t => match rd_nexpr f' t with Some (e, t') => Some (IAssert e, t') | None => None end
          | 2 :: t =>            (* for: labels counter count nbody body *)
            match rd_ids t with
            | Some (labs, c :: t1) =>
              match rd_nexpr f' t1 with
              | Some (cnt, nb :: t2) =>
                match rd_items f' (Z.to_nat nb) t2 with
                | Some (body, t3) => Some (IFor labs (Z.to_N c) cnt body, t3)
                | None => None end
              | _ => None end
            | _ => None end
          | _ => None
          end in
      match one with
      | Some (it, t) => match rd_items f' n' t with
                        | Some (its, t') => Some (it :: its, t')
                        | None => None end
      | None => None
      end
    end
  end.

Definition rd_optexpr (f : nat) (l : list Z) : option (option nexpr * list Z) :=
  match l with
  | 0 :: t => Some (None, t)
  | 1 :: t => match rd_nexpr f t with Some (e, t') => Some (Some e, t') | None => None end
  | _ => None
  end.
Definition rd_opttext (l : list Z) : option (option text * list Z) :=
  match l with
  | x :: t => if x <? 0 then Some (None, t)
              else let k := Z.to_nat x in Some (Some (map Z.to_N (firstn k t)), skipn k t)
  | [] => None
  end.

(* [nitems; items...; org; end; name; author] optionally followed by [-7; nendlabels; ids...] *)
Definition rd_prog (l : list Z) : option (prog * list Z) :=
  let f := S (length l) in
  match l with
  | n :: t =>
    match rd_items f (Z.to_nat n) t with
    | Some (its, t1) =>
      match rd_optexpr f t1 with
      | Some (org, t2) =>
        match rd_optexpr f t2 with
        | Some (en, t3) =>
          match rd_opttext t3 with
          | Some (nm, t4) =>
            match rd_opttext t4 with
            | Some (au, t5) =>
              (* optional tail: the labels of the END line *)
              match t5 with
              | (-7) :: t5' => match rd_ids t5' with
                               | Some (els, t6) => Some (mkProg its org en nm au els, t6)
                               | None => None end
              | _ => Some (mkProg its org en nm au [], t5)
              end
            | None => None end
          | None => None end
        | None => None end
      | None => None end
    | None => None end
  | [] => None
  end.
