(* ExprSpec.v — operand expressions: the token alphabet, the reference
   evaluator (usual precedence, left associativity, exact integers, / and %
   truncating toward zero, any run of unary signs), and abstract syntax with its
   denotation and printer.  Definitions only. *)
From Coq Require Export List ZArith Bool Lia.
Export ListNotations.
Open Scope Z_scope.

Inductive bop := OAdd | OSub | OMul | ODiv | OMod.
(* expression tokens after names have been substituted *)
Inductive etok := ENum (n : Z) | EOp (o : bop) | ELp | ERp.

Definition prec (o : bop) : nat := match o with OAdd | OSub => 4 | _ => 5 end.

Definition apply_op (o : bop) (x y : Z) : option Z :=
  match o with
  | OAdd => Some (x + y)
  | OSub => Some (x - y)
  | OMul => Some (x * y)
  | ODiv => if y =? 0 then None else Some (Z.quot x y)
  | OMod => if y =? 0 then None else Some (Z.rem x y)
  end.

(* ---------- reference evaluator: precedence climbing, as in go/parser ----------
   Values are option Z: None is "a division by zero happened somewhere inside";
   it propagates, so that syntax errors (the parser returning None) and
   arithmetic errors stay apart. *)
Definition val := option Z.
Definition vneg (x : val) : val := match x with Some v => Some (- v) | None => None end.
Definition vapply (o : bop) (x y : val) : val :=
  match x, y with Some a, Some b => apply_op o a b | _, _ => None end.

(* unary f l : a run of signs then an operand;  binary f p l : a binary expression
   whose operators all have precedence >= p;  binloop continues one. *)
Fixpoint unary (f : nat) (l : list etok) : option (val * list etok) :=
  match f with
  | O => None
  | S f' =>
    match l with
    | ENum n :: r => Some (Some n, r)
    | EOp OAdd :: r => unary f' r
    | EOp OSub :: r => match unary f' r with Some (v, r') => Some (vneg v, r') | None => None end
    | ELp :: r =>
      match binary f' 1 r with
      | Some (v, ERp :: r') => Some (v, r')
      | _ => None
      end
    | _ => None
    end
  end
with binary (f : nat) (p : nat) (l : list etok) : option (val * list etok) :=
  match f with
  | O => None
  | S f' =>
    match unary f' l with
    | Some (x, r) => binloop f' p x r
    | None => None
    end
  end
with binloop (f : nat) (p : nat) (x : val) (l : list etok) : option (val * list etok) :=
  match f with
  | O => None
  | S f' =>
    match l with
    | EOp o :: r =>
      if (p <=? prec o)%nat then
        match binary f' (S (prec o)) r with
        | Some (y, r') => binloop f' p (vapply o x y) r'
        | None => None
        end
      else Some (x, l)
    | _ => Some (x, l)
    end
  end.

(* the whole token list is one expression; fuel 4*|l|+8 always suffices *)
Definition eval_tokens (l : list etok) : option Z :=
  match binary (4 * length l + 8) 1 l with
  | Some (Some v, []) => Some v
  | _ => None
  end.

(* ---------- abstract syntax ---------- *)
Inductive expr :=
| Lit (n : Z)                     (* a non-negative literal *)
| Par (e : expr)                  (* ( e ) *)
| Sgn (minus : bool) (e : expr)   (* one unary sign in front of e *)
| Bin (o : bop) (a b : expr).

Fixpoint denote (e : expr) : option Z :=
  match e with
  | Lit n => Some n
  | Par e => denote e
  | Sgn m e => match denote e with Some v => Some (if m then - v else v) | None => None end
  | Bin o a b => match denote a, denote b with
                 | Some x, Some y => apply_op o x y
                 | _, _ => None
                 end
  end.

(* printing inserts nothing: a term is printed exactly as written *)
Fixpoint print (e : expr) : list etok :=
  match e with
  | Lit n => [ENum n]
  | Par e => ELp :: print e ++ [ERp]
  | Sgn m e => EOp (if m then OSub else OAdd) :: print e
  | Bin o a b => print a ++ EOp o :: print b
  end.

(* binding strength of a term as written *)
Definition level (e : expr) : nat :=
  match e with Bin o _ _ => prec o | _ => 6 end.

(* "parenthesised enough": the printed text parses back to this tree *)
Fixpoint ok (e : expr) : Prop :=
  match e with
  | Lit n => 0 <= n
  | Par e => ok e
  | Sgn _ e => ok e /\ (6 <= level e)%nat
  | Bin o a b => ok a /\ ok b /\ (prec o <= level a)%nat /\ (prec o < level b)%nat
  end.
