(* Emi94.v — the reference: one task of an ICWS'94 MARS, written from the
   draft standard's reference emulator (EMI94) extended with the A-number
   indirect modes * { }.  Plain arithmetic on N, one generic operand
   evaluation used for A then B, modifiers as lists of field pairs.
   Shares only the datatypes (Base.v) with the model.  Definitions only. *)
From GM Require Export Base.
Open Scope N_scope.

Inductive fld := FA | FB.
Definition fget (f : fld) (i : instr) : N := match f with FA => i_a i | FB => i_b i end.
Definition fset (f : fld) (i : instr) (v : N) : instr :=
  match f with FA => setA i v | FB => setB i v end.

Definition mode_field (md : amode) : option fld :=
  match md with
  | A_INDIRECT | A_DECREMENT | A_INCREMENT => Some FA
  | B_INDIRECT | B_DECREMENT | B_INCREMENT => Some FB
  | DIRECT | IMMEDIATE => None
  end.
Definition predec (md : amode) : bool :=
  match md with A_DECREMENT | B_DECREMENT => true | _ => false end.
Definition postinc (md : amode) : bool :=
  match md with A_INCREMENT | B_INCREMENT => true | _ => false end.

(* (field of the A-instruction, field of the B-instruction) pairs a modifier selects *)
Definition pairs (md : opmode) : list (fld * fld) :=
  match md with
  | mA => [(FA, FA)] | mB => [(FB, FB)] | mAB => [(FA, FB)] | mBA => [(FB, FA)]
  | mF | mI => [(FA, FA); (FB, FB)]
  | mX => [(FA, FB); (FB, FA)]
  end.
(* fields of the B-instruction tested by JMZ / JMN / DJN *)
Definition tfields (md : opmode) : list fld :=
  match md with
  | mA | mBA => [FA] | mB | mAB => [FB] | mF | mX | mI => [FA; FB]
  end.

(* folding a pointer p into the limit L around a core of size M *)
Definition fold (M p L : N) : N :=
  let r := p mod L in if L / 2 <? r then r + (M - L) else r.

Section Emi94.
Variable M : N.
(* how read and write pointers are folded: (fun p => fold M p R) and
   (fun p => fold M p W) for limits R, W; (fun p => p mod M) when limits are ignored *)
Variables foldR foldW : N -> N.

Definition addr (pc x : N) : N := (pc + x) mod M.

(* operand evaluation: core after side effects, read pointer, write pointer,
   copy of the instruction the read pointer designates *)
Definition eval_operand_g (c : core) (pc : N) (md : amode) (num : N) : core * N * N * instr :=
  match mode_field md with
  | None =>
      match md with
      | IMMEDIATE => (c, 0, 0, get c pc)
      | _ => let rp := foldR num in (c, rp, foldW num, get c (addr pc rp))
      end
  | Some f =>
      let rp0 := foldR num in
      let wp0 := foldW num in
      let tgt := addr pc wp0 in
      let c1 := if predec md
                then upd c tgt (fun i => fset f i ((fget f i + M - 1) mod M)) else c in
      let rp := foldR (rp0 + fget f (get c1 (addr pc rp0))) in
      let wp := foldW (wp0 + fget f (get c1 tgt)) in
      let ir := get c1 (addr pc rp) in
      let c2 := if postinc md
                then upd c1 tgt (fun i => fset f i ((fget f i + 1) mod M)) else c1 in
      (c2, rp, wp, ir)
  end.

(* write, for each selected pair (s,d) whose value is defined, field d of cell w *)
Definition write_pairs (val : fld -> fld -> option N) (ps : list (fld * fld))
           (c : core) (w : N) : core :=
  fold_left (fun c sd => match val (fst sd) (snd sd) with
                         | Some v => upd c w (fun i => fset (snd sd) i v)
                         | None => c end) ps c.

Definition all_pairs (p : fld -> fld -> bool) (ps : list (fld * fld)) : bool :=
  forallb (fun sd => p (fst sd) (snd sd)) ps.

(* core after the task, and the successor tasks in queueing order *)
Definition step_core_g (c : core) (pc : N) : core * list N :=
  let IR := get c pc in
  let '(c1, rpa, _, ira) := eval_operand_g c pc (i_am IR) (i_a IR) in
  let '(c2, rpb, wpb, irb) := eval_operand_g c1 pc (i_bm IR) (i_b IR) in
  let w := addr pc wpb in
  let jmp := addr pc rpa in
  let nxt := (pc + 1) mod M in
  let skp := (pc + 2) mod M in
  let md := i_md IR in
  let arith g := write_pairs (fun s d => Some (g (fget d irb) (fget s ira))) (pairs md) c2 w in
  let divl g :=
      (write_pairs (fun s d => if fget s ira =? 0 then None
                               else Some (g (fget d irb) (fget s ira))) (pairs md) c2 w,
       if all_pairs (fun s _ => negb (fget s ira =? 0)) (pairs md) then [nxt] else []) in
  match i_op IR with
  | DAT => (c2, [])
  | MOV => (match md with
            | mI => set c2 w ira
            | _ => write_pairs (fun s _ => Some (fget s ira)) (pairs md) c2 w
            end, [nxt])
  | ADD => (arith (fun b a => (b + a) mod M), [nxt])
  | SUB => (arith (fun b a => (b + M - a) mod M), [nxt])
  | MUL => (arith (fun b a => (b * a) mod M), [nxt])
  | DIV => divl N.div
  | MOD => divl N.modulo
  | JMP => (c2, [jmp])
  | JMZ => (c2, [if forallb (fun f => fget f irb =? 0) (tfields md) then jmp else nxt])
  | JMN => (c2, [if existsb (fun f => negb (fget f irb =? 0)) (tfields md) then jmp else nxt])
  | DJN => (fold_left (fun c f => upd c w (fun i => fset f i ((fget f i + M - 1) mod M)))
                      (tfields md) c2,
            [if existsb (fun f => negb ((fget f irb + M - 1) mod M =? 0)) (tfields md)
             then jmp else nxt])
  | CMP | SEQ =>
      (c2, [if match md with
               | mI => instr_eqb ira irb
               | _ => all_pairs (fun s d => fget s ira =? fget d irb) (pairs md)
               end then skp else nxt])
  | SNE =>
      (c2, [if match md with
               | mI => instr_eqb ira irb
               | _ => all_pairs (fun s d => fget s ira =? fget d irb) (pairs md)
               end then nxt else skp])
  | SLT => (c2, [if all_pairs (fun s d => fget s ira <? fget d irb) (pairs md)
                 then skp else nxt])
  | SPL => (c2, [nxt; jmp])
  | NOP => (c2, [nxt])
  end.
End Emi94.

(* the step under read limit R and write limit W *)
Definition eval_operand (M R W : N) := eval_operand_g M (fun p => fold M p R) (fun p => fold M p W).
Definition step_core (M R W : N) := step_core_g M (fun p => fold M p R) (fun p => fold M p W).
(* the step with limits ignored: every pointer is simply reduced modulo M *)
Definition step_core_unlimited (M : N) := step_core_g M (fun p => p mod M) (fun p => p mod M).

(* bounded first-in-first-out queue: append while fewer than P tasks *)
Definition enq (P : N) (q : list N) (xs : list N) : list N :=
  fold_left (fun q x => if N.of_nat (length q) <? P then q ++ [x] else q) xs q.

Definition step (M R W P : N) (c : core) (pc : N) (q : list N) : core * list N :=
  let '(c', succs) := step_core M R W c pc in (c', enq P q succs).

(* cores are compared cell for cell on [0, M) *)
Definition core_eq (M : N) (c c' : core) : Prop := forall a, a < M -> get c a = get c' a.
Definition core_wf (M : N) (c : core) : Prop :=
  forall a, a < M -> i_a (get c a) < M /\ i_b (get c a) < M.
