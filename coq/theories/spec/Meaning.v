(* Meaning.v — what a FOR-free abstract program denotes: instruction list, entry
   point, metadata.  Labels are offsets from the referring instruction, EQU
   names are substituted textually (token for token, recursively), predefined
   names are the configuration's values, omitted modes / modifiers / operands
   take the dialect's defaults, fields are reduced into [0, M).  Computed from
   the abstract program alone.  Definitions only. *)
From GM Require Export Prog.
Open Scope Z_scope.

Record mconf := mkMConf { mf_legacy : bool; mf_M : Z; mf_len : Z; mf_procs : Z; mf_dist : Z }.

Inductive ntok := TE (t : etok) | TN (id : N).
Fixpoint nprint (e : nexpr) : list ntok :=
  match e with
  | NLit n => [TE (ENum n)]
  | NName id => [TN id]
  | NPar e => TE ELp :: nprint e ++ [TE ERp]
  | NSgn m e => TE (EOp (if m then OSub else OAdd)) :: nprint e
  | NBin o a b => nprint a ++ TE (EOp o) :: nprint b
  end.

Definition env := list (N * nexpr).            (* EQU definitions, in program order *)
Definition labels := list (N * Z).             (* label -> address *)
Fixpoint env_find (id : N) (e : env) : option nexpr :=
  match e with [] => None | (k, v) :: t => if (k =? id)%N then Some v else env_find id t end.
Fixpoint lab_find' (id : N) (l : labels) : option Z :=
  match l with [] => None | (k, v) :: t => if (k =? id)%N then Some v else lab_find' id t end.

Definition num_toks (v : Z) : list ntok :=
  if v <? 0 then [TE (EOp OSub); TE (ENum (- v))] else [TE (ENum v)].

Definition predefined_value (cf : mconf) (id : N) : option Z :=
  if (id =? ID_CORESIZE)%N then Some (mf_M cf)
  else if (id =? ID_MAXLENGTH)%N then Some (mf_len cf)
  else if (id =? ID_MAXPROCESSES)%N then Some (mf_procs cf)
  else if (id =? ID_MINDISTANCE)%N then Some (mf_dist cf)
  else None.

(* one textual substitution pass at instruction index i; None = unknown name *)
Definition subst_pass (cf : mconf) (ev : env) (ls : labels) (i : Z) (l : list ntok) : option (list ntok) :=
  fold_left (fun acc t =>
               match acc with
               | None => None
               | Some out =>
                 match t with
                 | TE _ => Some (out ++ [t])
                 | TN id =>
                   match predefined_value cf id with
                   | Some v => Some (out ++ num_toks v)
                   | None =>
                     match env_find id ev with
                     | Some d => Some (out ++ nprint d)
                     | None => match lab_find' id ls with
                               | Some a => Some (out ++ num_toks (a - i))
                               | None => None
                               end
                     end
                   end
                 end
               end) l (Some []).
Fixpoint subst_all (f : nat) (cf : mconf) (ev : env) (ls : labels) (i : Z) (l : list ntok) : option (list etok) :=
  match f with
  | O => None
  | S f' =>
    if forallb (fun t => match t with TE _ => true | TN _ => false end) l
    then Some (flat_map (fun t => match t with TE e => [e] | TN _ => [] end) l)
    else match subst_pass cf ev ls i l with
         | Some l' => subst_all f' cf ev ls i l'
         | None => None
         end
  end.

Inductive mval := MV (v : Z) | MErr | MAny.    (* MAny: outside the 32-bit range the property covers *)
Definition in_int32 (v : Z) : bool := (-2147483648 <=? v) && (v <=? 2147483647).
Definition value_at (cf : mconf) (ev : env) (ls : labels) (i : Z) (e : nexpr) : mval :=
  match subst_all (S (S (length ev))) cf ev ls i (nprint e) with
  | None => MErr
  | Some toks => match eval_tokens toks with
                 | Some v => if in_int32 v then MV v else MAny
                 | None => MErr
                 end
  end.
Definition field_of (cf : mconf) (v : Z) : N := Z.to_N (v mod mf_M cf).

(* ---------- defaults of the two dialects ---------- *)
Definition imm (m : amode) : bool := match m with IMMEDIATE => true | _ => false end.
(* ICWS'94: the modifier an instruction gets when none is written *)
Definition default_modifier_94 (o : opcode) (am bm : amode) : opmode :=
  match o with
  | DAT => mF
  | MOV | SEQ | SNE | CMP => if imm am then mAB else if imm bm then mB else mI
  | ADD | SUB | MUL | DIV | MOD => if imm am then mAB else if imm bm then mB else mF
  | SLT => if imm am then mAB else mB
  | JMP | JMZ | JMN | DJN | SPL | NOP => mB
  end.
(* ICWS'88: the modifier implied by the operands; None = not a legal '88 instruction *)
Definition is88mode (m : amode) : bool :=
  match m with IMMEDIATE | DIRECT | B_INDIRECT | B_DECREMENT => true | _ => false end.
Definition implied_modifier_88 (o : opcode) (am bm : amode) : option opmode :=
  if negb (is88mode am && is88mode bm) then None else
  match o with
  | DAT => match am, bm with
           | (IMMEDIATE | B_DECREMENT), (IMMEDIATE | B_DECREMENT) => Some mF
           | _, _ => None end
  | MOV | CMP => if imm bm then None else Some (if imm am then mAB else mI)
  | ADD | SUB => if imm bm then None else Some (if imm am then mAB else mF)
  | SLT => Some (if imm am then mAB else mB)          (* #B tolerated, as on the '88 hills *)
  | JMP | JMZ | JMN | DJN | SPL => if imm am then None else Some mB
  | _ => None
  end.

Inductive minstr := MI (i : instr) | MIErr | MIAny.

Definition instr_meaning (cf : mconf) (ev : env) (ls : labels) (i : Z) (l : iline) : minstr :=
  let dflt := if mf_legacy cf then match il_op l with DAT => IMMEDIATE | _ => DIRECT end else DIRECT in
  let am := match o_mode (il_a l) with Some m => m | None => dflt end in
  let bm := match il_b l with
            | Some b => match o_mode b with Some m => m | None => dflt end
            | None => dflt end in
  let md := if mf_legacy cf then
              match il_mod l with
              | Some _ => None                         (* '88 has no written modifiers *)
              | None => implied_modifier_88 (il_op l) am bm
              end
            else Some (match il_mod l with Some m => m | None => default_modifier_94 (il_op l) am bm end) in
  match md with
  | None => MIErr
  | Some md =>
    match value_at cf ev ls i (o_expr (il_a l)) with
    | MErr => MIErr
    | MAny => MIAny
    | MV av =>
      match il_b l with
      | None =>
        match il_op l with
        | DAT => MI (mkI DAT md 0 IMMEDIATE (field_of cf av) am)
        | o => MI (mkI o md (field_of cf av) am 0 bm)
        end
      | Some b =>
        match value_at cf ev ls i (o_expr b) with
        | MErr => MIErr
        | MAny => MIAny
        | MV bv => MI (mkI (il_op l) md (field_of cf av) am (field_of cf bv) bm)
        end
      end
    end
  end.

(* addresses of labels and the EQU environment of a FOR-free item list *)
Fixpoint collect (its : list item) (addr : Z) (ev : env) (ls : labels) (ins : list iline)
  : env * labels * list iline * Z :=
  match its with
  | [] => (ev, ls, ins, addr)
  | IInstr l :: t => collect t (addr + 1) ev (ls ++ map (fun id => (id, addr)) (il_labels l)) (ins ++ [l])
  | IEqu n e :: t => collect t addr (ev ++ [(n, e)]) ls ins
  | IFor _ _ _ _ :: t => collect t addr ev ls ins       (* FOR-free programs only *)
  | IAssert _ :: t => collect t addr ev ls ins
  end.

Inductive mres :=
| MOk (code : list instr) (start : Z)
| MReject               (* the program must be refused *)
| MUnconstrained.       (* outside what the property quantifies over *)

Fixpoint meaning_code (cf : mconf) (ev : env) (ls : labels) (i : Z) (ins : list iline) (acc : list instr) : mres :=
  match ins with
  | [] => MOk acc 0
  | l :: t => match instr_meaning cf ev ls i l with
              | MI x => meaning_code cf ev ls (i + 1) t (acc ++ [x])
              | MIErr => MReject
              | MIAny => MUnconstrained
              end
  end.

(* a program is rejected exactly when one of its assertions evaluates to zero (or cannot be evaluated) *)
Fixpoint assertions (cf : mconf) (ev : env) (ls : labels) (its : list item) : mres :=
  match its with
  | [] => MOk [] 0
  | IAssert e :: t => match value_at cf ev ls 0 e with
                      | MV v => if v =? 0 then MReject else assertions cf ev ls t
                      | MErr => MReject
                      | MAny => MUnconstrained
                      end
  | _ :: t => assertions cf ev ls t
  end.

Definition meaning (cf : mconf) (p : prog) : mres :=
  let '(ev, ls0, ins, n) := collect (pr_items p) 0 [] [] [] in
  (* labels on the END line stand for the address just past the last instruction *)
  let ls := ls0 ++ map (fun id => (id, n)) (pr_end_labels p) in
  match assertions cf ev ls (pr_items p) with
  | MReject => MReject
  | MUnconstrained => MUnconstrained
  | MOk _ _ =>
  match meaning_code cf ev ls 0 ins [] with
  | MOk code _ =>
    if mf_len cf <? Z.of_nat (length code) then MReject else
    let start_of e := match value_at cf ev ls 0 e with
                      | MV v => if (v <? 0) || (negb (v =? 0) && (Z.of_nat (length code) <=? v)) then MReject
                                else MOk code v
                      | MErr => MReject
                      | MAny => MUnconstrained
                      end in
    match pr_org p, pr_end p with
    | Some e, None => start_of e
    | None, Some e => start_of e
    | None, None => MOk code 0
    | Some _, Some _ => MUnconstrained     (* ORG together with END <expr>: not decided by the property *)
    end
  | r => r
  end
  end.
