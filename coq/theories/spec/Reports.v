(* Reports.v — what the state recorder must show: for every address the kind and
   owner of the last operation that touched it (empty, owner -1, when nothing did
   since the last reset).  Definitions only. *)
From GM Require Export Exec.
Open Scope N_scope.

(* does report rp touch address a, and how *)
Definition touch (M : N) (lens : list nat) (reads : bool) (rp : report) (a : N) : option (N * Z) :=
  let at_addr st := if r_addr rp =? a then Some (st, r_wi rp) else None in
  match r_type rp with
  | SimReset => Some (0, (-1)%Z)
  | WarriorSpawn =>
      let len := nth (Z.to_nat (r_wi rp)) lens O in
      if existsb (fun i => (r_addr rp + N.of_nat i) mod M =? a) (seq 0 len)
      then Some (2, r_wi rp) else None
  | WarriorTaskTerminate => at_addr 6
  | WarriorTaskPop => at_addr 1
  | WarriorWrite => at_addr 2
  | WarriorRead => if reads then at_addr 5 else None
  | WarriorIncrement => at_addr 3
  | WarriorDecrement => at_addr 4
  | _ => None
  end.

Definition last_touch (M : N) (lens : list nat) (reads : bool) (evs : list report) (a : N) : N * Z :=
  fold_left (fun acc rp => match touch M lens reads rp a with Some x => x | None => acc end)
            evs (0, (-1)%Z).

(* a stream the simulator can produce: addresses below M, spawn reports for existing warriors *)
Definition rep_wf (M : N) (lens : list nat) (rp : report) : Prop :=
  r_addr rp < M /\ (r_type rp = WarriorSpawn -> (0 <= r_wi rp < Z.of_nat (length lens))%Z).
