(* Rotate.v — the relation "c' is c rotated by k cells" and the address shift. *)
From GM Require Export Emi94.
Open Scope N_scope.

Definition shift (M k x : N) : N := (x + k) mod M.
Definition rot_rel (M k : N) (c c' : core) : Prop :=
  forall a, a < M -> get c' (shift M k a) = get c a.
