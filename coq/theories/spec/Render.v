(* Render.v — surface syntax: an abstract program and a style (a number from
   which every layout decision is derived) give the source text; unrolling of
   FOR blocks.  The harness feeds exactly these texts to gmars, and the
   theorems about rendering are about these functions.  Definitions only. *)
From GM Require Export Meaning Token.
Open Scope N_scope.

(* a small hash for layout decisions: pick s k n is in [0, n) *)
Definition pick (s k n : N) : N :=
  (((s + 1) * 2654435761 + (k + 7) * 40503 + (s * k) mod 65521) mod 4294967296 / 97) mod n.

Definition name_prefixes : list text := [s2t "x"; s2t "lbl_"; s2t "Zq"; s2t "_t"; s2t "loop"].
Definition upper_c (c : N) : N := if is_lower_a c then c - 32 else c.
(* ids from 200 on are spelt like id - 200 but in upper case: a different name (names are case-sensitive) *)
Definition name_of (s : N) (id : N) : text :=
  if id =? ID_CORESIZE then s2t "CORESIZE" else if id =? ID_MAXLENGTH then s2t "MAXLENGTH"
  else if id =? ID_MAXPROCESSES then s2t "MAXPROCESSES" else if id =? ID_MINDISTANCE then s2t "MINDISTANCE"
  else if 200 <=? id then map upper_c (nth (N.to_nat (pick s 0 5)) name_prefixes (s2t "x") ++ dec_of_N (id - 200))
  else nth (N.to_nat (pick s 0 5)) name_prefixes (s2t "x") ++ dec_of_N id.

Definition recase (s k : N) (t : text) : text :=
  match pick s k 3 with
  | 0 => lower t
  | 1 => t
  | _ => snd (fold_left (fun (st : N * text) c =>
                           let '(j, acc) := st in
                           (j + 1, acc ++ [if pick s (k + j) 2 =? 0 then lower_c c else c])) t (0, []))
  end.

Definition gap (s k : N) : text :=
  match pick s k 4 with 0 => [32] | 1 => [9] | 2 => [32; 32] | _ => [32; 9; 32] end.
Definition optgap (s k : N) : text :=
  match pick s k 3 with 0 => [] | 1 => [32] | _ => [9] end.

Definition bop_char (o : bop) : N :=
  match o with OAdd => 43 | OSub => 45 | OMul => 42 | ODiv => 47 | OMod => 37 end.

Fixpoint render_expr (s k : N) (e : nexpr) : text :=
  match e with
  | NLit n => dec_of_N (Z.to_N n)
  | NName id => name_of s id
  | NPar e => [40] ++ optgap s (k + 1) ++ render_expr s (k + 2) e ++ optgap s (k + 3) ++ [41]
  | NSgn m e => [if m then 45 else 43] ++ optgap s (k + 1) ++ render_expr s (k + 2) e
  | NBin o a b => render_expr s (2 * k + 5) a ++ optgap s (k + 1) ++ [bop_char o] ++ optgap s (k + 2)
                  ++ render_expr s (2 * k + 6) b
  end.

Definition render_operand (s k : N) (o : operand) : text :=
  (match o_mode o with Some m => [amode_char m] ++ optgap s k | None => [] end)
  ++ render_expr s (k + 1) (o_expr o).

Definition render_labels (s k : N) (ls : list N) : text :=
  flat_map (fun id => name_of s id
                      ++ (if pick s (k + id) 3 =? 0 then [58] else [])
                      ++ (if pick s (k + id + 1) 4 =? 0 then [10] else gap s (k + id + 2))) ls.

Definition trailer (s k : N) : text :=
  (match pick s k 4 with
   | 0 => gap s (k + 1) ++ s2t "; c" ++ dec_of_N (pick s (k + 2) 1000)
   | 1 => optgap s (k + 1)
   | _ => [] end) ++ [10]
  ++ (match pick s (k + 3) 6 with
      | 0 => [10]
      | 1 => s2t "; note " ++ dec_of_N (pick s (k + 4) 1000) ++ [10]
      | _ => [] end).

Definition mnemonic (o : opcode) : text := opcode_name o.

Fixpoint render_items (f : nat) (s k : N) (its : list item) : text :=
  match f with
  | O => []
  | S f' =>
    match its with
    | [] => []
    | IInstr l :: t =>
      render_labels s k (il_labels l)
      ++ (match il_labels l with [] => optgap s (k + 1) | _ => [] end)
      ++ recase s (k + 2) (mnemonic (il_op l))
      ++ (match il_mod l with Some md => [46] ++ recase s (k + 3) (opmode_name md) | None => [] end)
      ++ gap s (k + 4) ++ render_operand s (k + 5) (il_a l)
      ++ (match il_b l with
          | Some b => optgap s (k + 6) ++ [44] ++ optgap s (k + 7) ++ render_operand s (k + 8) b
          | None => [] end)
      ++ trailer s (k + 9)
      ++ render_items f' s (k + 20) t
    | IEqu n e :: t =>
      name_of s n ++ (if pick s (k + 5) 3 =? 0 then [58] else []) ++ gap s (k + 1) ++ recase s (k + 2) (s2t "EQU") ++ gap s (k + 3) ++ render_expr s (k + 4) e
      ++ trailer s (k + 9) ++ render_items f' s (k + 20) t
    | IAssert e :: t =>
      s2t ";assert " ++ render_expr s (k + 4) e ++ [10] ++ render_items f' s (k + 20) t
    | IFor ls c cnt body :: t =>
      flat_map (fun id => name_of s id ++ (if pick s (k + id + 3) 3 =? 0 then [58] else []) ++ gap s (k + id)) ls
      ++ name_of s c ++ gap s (k + 1) ++ recase s (k + 2) (s2t "FOR") ++ gap s (k + 3) ++ render_expr s (k + 4) cnt ++ [10]
      ++ render_items f' s (k + 20) body
      ++ optgap s (k + 5) ++ recase s (k + 6) (s2t "ROF") ++ [10]
      ++ render_items f' s (k + 40) t
    end
  end.

Fixpoint item_size (it : item) : nat :=
  match it with
  | IFor _ _ _ b => S (S ((fix go (l : list item) : nat :=
                             match l with [] => O | x :: t => (item_size x + go t)%nat end) b))
  | _ => 1%nat
  end.
Definition items_size (its : list item) : nat :=
  S (S (fold_right (fun x acc => (item_size x + acc)%nat) O its)).

(* a missing final newline is a layout variation too *)
Definition strip_final_nl (t : text) : text :=
  match rev t with 10 :: r => rev r | _ => t end.

(* what the strategy lines of a style amount to: the text after ";strategy" and one more character, line by line;
   a line with nothing after the keyword, or with another spelling of it, adds nothing *)
Definition strategy_meta (s : N) : text :=
  match pick s 21 4 with
  | 0 => s2t "bomb the core, then clear it" ++ [10] ++ s2t "x" ++ [10]
  | 1 => s2t " second line" ++ [10]
  | _ => []
  end.

Definition render (s : N) (p : prog) : text :=
  (if pick s 17 5 =? 0 then strip_final_nl else fun t => t)
  ((match pr_name p with Some n => s2t ";name " ++ n ++ [10] | None => [] end)
  ++ (match pr_author p with Some n => s2t ";author " ++ n ++ [10] | None => [] end)
  (* strategy lines are metadata too: in some styles a few of them, one empty, one short *)
  ++ (match pick s 21 4 with
      | 0 => s2t ";strategy bomb the core, then clear it" ++ [10] ++ s2t ";strategy" ++ [10] ++ s2t ";strategy x" ++ [10]
      | 1 => s2t ";Strategy not the lower-case keyword" ++ [10] ++ s2t ";strategy  second line" ++ [10]
      | _ => [] end)
  ++ (match pr_org p with
      | Some e => optgap s 1 ++ recase s 2 (s2t "ORG") ++ gap s 3 ++ render_expr s 4 e ++ trailer s 5
      | None => [] end)
  ++ render_items (items_size (pr_items p)) s 100 (pr_items p)
  ++ render_labels s 18 (pr_end_labels p)
  ++ (match pr_end p with
      | Some e => optgap s 11 ++ recase s 12 (s2t "END") ++ gap s 13 ++ render_expr s 14 e ++ [10]
      | None => if (pick s 15 2 =? 0) || negb (match pr_end_labels p with [] => true | _ => false end)
                then recase s 16 (s2t "END") ++ [10] else [] end)).

(* ---------- unrolling FOR blocks ---------- *)
Fixpoint subst_counter (c : N) (i : Z) (e : nexpr) : nexpr :=
  match e with
  | NLit n => NLit n
  | NName id => if id =? c then NLit i else NName id
  | NPar e => NPar (subst_counter c i e)
  | NSgn m e => NSgn m (subst_counter c i e)
  | NBin o a b => NBin o (subst_counter c i a) (subst_counter c i b)
  end.
Definition subst_operand (c : N) (i : Z) (o : operand) : operand := mkOp (o_mode o) (subst_counter c i (o_expr o)).
Fixpoint subst_item (f : nat) (c : N) (i : Z) (it : item) : item :=
  match f with
  | O => it
  | S f' =>
    match it with
    | IInstr l => IInstr (mkIL (il_labels l) (il_op l) (il_mod l) (subst_operand c i (il_a l))
                               (match il_b l with Some b => Some (subst_operand c i b) | None => None end))
    | IEqu n e => IEqu n (subst_counter c i e)
    | IAssert e => IAssert (subst_counter c i e)
    | IFor ls c' cnt body => IFor ls c' (subst_counter c i cnt) (map (subst_item f' c i) body)
    end
  end.

(* attach pending block labels to the next instruction of the stream; None when
   there is no instruction after them (such a program denotes nothing definite) *)
Fixpoint attach (pending : list N) (its : list item) : option (list item) :=
  match pending with
  | [] => Some its
  | _ =>
    match its with
    | [] => None
    | IInstr l :: t => Some (IInstr (mkIL (pending ++ il_labels l) (il_op l) (il_mod l) (il_a l) (il_b l)) :: t)
    | x :: t => match attach pending t with Some r => Some (x :: r) | None => None end
    end
  end.

Fixpoint repeat_items (n : nat) (i : Z) (f : nat) (c : N) (body : list item) : list item :=
  match n with
  | O => []
  | S n' => map (subst_item f c i) body ++ repeat_items n' (i + 1)%Z f c body
  end.

(* counts are evaluated with the EQU definitions that precede the block *)
Fixpoint unroll (f : nat) (cf : mconf) (ev : env) (its : list item) : option (list item) :=
  match f with
  | O => None
  | S f' =>
    match its with
    | [] => Some []
    | IInstr l :: t => match unroll f' cf ev t with Some r => Some (IInstr l :: r) | None => None end
    | IEqu n e :: t => match unroll f' cf (ev ++ [(n, e)]) t with Some r => Some (IEqu n e :: r) | None => None end
    | IAssert e :: t => match unroll f' cf ev t with Some r => Some (IAssert e :: r) | None => None end
    | IFor ls c cnt body :: t =>
      match value_at cf ev [] 0 cnt with
      | MV n =>
        (* the stream after the block start: the instances, then the rest; labels go to its first instruction *)
        let inst := repeat_items (Z.to_nat n) 1 (items_size body) c body in
        match unroll f' cf ev (inst ++ t) with
        | Some r =>
          match ls with
          | [] => Some r
          | _ =>
            (* block labels are the labels of the first instruction the block emits; when it emits
               none (count zero, or no instruction in the body) the property does not say what they are *)
            match unroll f' cf ev inst with
            | Some ri => if existsb (fun it => match it with IInstr _ => true | _ => false end) ri
                         then attach ls r else None
            | None => None
            end
          end
        | None => None
        end
      | _ => None
      end
    end
  end.

Definition unroll_prog (cf : mconf) (fuel : nat) (p : prog) : option prog :=
  match unroll fuel cf [] (pr_items p) with
  | Some its => Some (mkProg its (pr_org p) (pr_end p) (pr_name p) (pr_author p) (pr_end_labels p))
  | None => None
  end.
