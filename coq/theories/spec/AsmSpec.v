(* AsmSpec.v — the reference side of the assembler case kinds: renders abstract
   programs / warriors to the text gmars is given, states what must come back,
   and checks gmars' own outputs against the structural predicates.
   Definitions only. *)
From GM Require Export LoadPrint AsmCodec.
Open Scope Z_scope.

Definition mconf_of (c : config) : mconf :=
  mkMConf (c_mode c =? 0)%N (Z.of_N (c_size c)) (Z.of_N (c_len c)) (Z.of_N (c_procs c)) (Z.of_N (c_dist c)).

Definition enc_mres (r : mres) : list Z :=
  match r with
  | MOk code start => [62; 0; start; Z.of_nat (length code)] ++ flat_map enc_instr code
  | MReject => [62; 1]
  | MUnconstrained => [62; 5]
  end.

Fixpoint has_for (its : list item) : bool :=
  match its with
  | [] => false
  | IFor _ _ _ _ :: _ => true
  | _ :: t => has_for t
  end.

(* kind 30: [cfg(8); style; prog...] *)
Definition spec_prog (l : list Z) : list (list Z) :=
  match rd_cfg l with
  | Some (cfg, style :: t) =>
    match rd_prog t with
    | Some (p, _) =>
      let cf := mconf_of cfg in
      let s := Z.to_N style in
      let txt := [60 :: of_text (render s p)] in
      if has_for (pr_items p) then
        match unroll_prog cf 4000 p with
        | Some q => txt ++ [61 :: of_text (render (s + 1) q)] ++ [enc_mres (meaning cf q)]
        | None => txt ++ [[62; 5]]
        end
      else txt ++ [enc_mres (meaning cf p)]
           ++ [63 :: of_text (match pr_name p with Some n => n | None => [] end)]
           ++ [64 :: of_text (match pr_author p with Some n => n | None => [] end)]
           ++ [67 :: of_text (strategy_meta s)]
    | None => [[0]]
    end
  | _ => [[0]]
  end.

(* kind 32: [cfg(8); style; start; n; code...] *)
Definition spec_loadprint (l : list Z) : list (list Z) :=
  match rd_cfg l with
  | Some (cfg, style :: start :: n :: t) =>
    match rd_many rd_instr (Z.to_nat n) t with
    | Some (code, _) =>
      [60 :: of_text (loadprint (Z.to_N style) (c_mode cfg =? 0)%N (c_size cfg) code start);
       (* the canonical layout itself (the text C09_assembler_reads_canonical_partial speaks about) *)
       61 :: of_text (canon_print (c_mode cfg =? 0)%N (Z.odd style) (c_size cfg) code start);
       [62; 0; start; Z.of_nat (length code)] ++ flat_map enc_instr code]
    | None => [[0]]
    end
  | _ => [[0]]
  end.

Definition spec_asm (l : list Z) : list (list Z) :=
  match l with
  | 30 :: t => spec_prog t
  | 32 :: t => spec_loadprint t
  | _ => [[0]]
  end.

(* ---------- structural predicates on what gmars returned ---------- *)
Definition legal88 (i : instr) : bool :=
  match implied_modifier_88 (i_op i) (i_am i) (i_bm i) with
  | Some md => opmode_eqb md (i_md i)
  | None => false
  end.

(* decode [71; start; n; code...] *)
Definition rd_result (r : list Z) : option (Z * list instr) :=
  match r with
  | 71 :: start :: n :: t =>
    match rd_many rd_instr (Z.to_nat n) t with
    | Some (code, []) => Some (start, code)
    | _ => None
    end
  | _ => None
  end.

Definition wf_result (cfg : config) (check_len : bool) (start : Z) (code : list instr) : list Z :=
  let M := c_size cfg in
  (if forallb (fun i => (i_a i <? M)%N && (i_b i <? M)%N) code then [] else [50])
  ++ (if (0 <=? start) && ((start <? Z.of_nat (length code)) || ((start =? 0) && (Z.of_nat (length code) =? 0)))
      then [] else [51])
  ++ (if check_len && (c_len cfg <? N.of_nat (length code))%N then [52] else [])
  ++ (if (c_mode cfg =? 0)%N && negb (forallb legal88 code) then [53] else []).

Definition find_tag (t : Z) (rs : list (list Z)) : option (list Z) :=
  match filter (fun r => match r with x :: _ => x =? t | [] => false end) rs with r :: _ => Some r | [] => None end.

(* kind 10 / 11: an accepted result must be well-formed *)
Definition mon_accept (check_len : bool) (l : list Z) (impl : list (list Z)) : list (list Z) :=
  match rd_cfg l with
  | Some (cfg, _) =>
    match find_tag 71 impl with
    | Some r => match rd_result r with
                | Some (start, code) => map (fun c => [c]) (wf_result cfg check_len start code)
                | None => [[54]]     (* an opcode / modifier / mode outside the data model *)
                end
    | None => []
    end
  | None => []
  end.

(* kind 11: nothing is skipped silently — every non-blank, non-comment line before
   the end marker is one instruction or one directive *)
Inductive lkind := KSkip | KEnd | KDirective | KInstr.
Definition line_fields (raw : text) : list text := fields (commas_to_spaces (before_semicolon (lower raw))).
Definition line_kind (legacy : bool) (raw : text) : lkind :=
  match raw with
  | [] => KSkip
  | 59%N :: _ => KSkip
  | _ =>
    match line_fields raw with
    | [] => (* blank - nothing but white space in front of the remark - or not: a line of commas is not a blank line, it
               bears something the reader has to turn into an instruction or refuse *)
            match fields (before_semicolon (lower raw)) with [] => KSkip | _ => KInstr end
    | [w] => if text_eqb w (s2t "end") then KEnd else if text_eqb w (s2t "org") then KDirective else KInstr
    | [w; _] => if text_eqb w (s2t "end") then (if legacy then KEnd else KDirective)
                else if text_eqb w (s2t "org") then KDirective else KInstr
    | w :: _ => if text_eqb w (s2t "org") || text_eqb w (s2t "end") then KDirective else KInstr
    end
  end.
(* instruction-bearing lines before the end marker *)
Fixpoint count_instr (legacy : bool) (ls : list text) : nat :=
  match ls with
  | [] => O
  | l :: t => match line_kind legacy l with
              | KEnd => O
              | KInstr => S (count_instr legacy t)
              | _ => count_instr legacy t
              end
  end.
Definition mon_no_skip (l : list Z) (impl : list (list Z)) : list (list Z) :=
  match rd_cfg l with
  | Some (cfg, t) =>
    match find_tag 71 impl with
    | Some (_ :: _ :: n :: _) =>
      let k := count_instr (c_mode cfg =? 0)%N (read_lines (to_text t) []) in
      if Z.of_nat k =? n then [] else [[55; Z.of_nat k; n]]
    | _ => []
    end
  | None => []
  end.

(* kind 12: the listing gmars printed denotes the warrior *)
Definition mon_listing (l : list Z) (impl : list (list Z)) : list (list Z) :=
  match l with
  | md :: M :: start :: n :: t =>
    match rd_many rd_instr (Z.to_nat n) t, find_tag 75 impl with
    | Some (code, _), Some (_ :: bytes) =>
      match read_listing (md =? 0) (Z.to_N M) (to_text bytes) with
      | Some (code', start') =>
        if list_eqb instr_eqb code code' && ((start' =? start) || (Z.of_nat (length code) =? 0)) then [] else [[58]]
      | None => [[59]]
      end
    | _, _ => [[59]]
    end
  | _ => []
  end.

Definition mon_asm (l : list Z) (impl : list (list Z)) : list (list Z) :=
  match l with
  | 10 :: t => mon_accept true t impl
  | 11 :: t => mon_accept false t impl ++ mon_no_skip t impl
  | 12 :: t => mon_listing t impl
  | _ => []
  end.
