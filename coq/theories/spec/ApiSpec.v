(* ApiSpec.v — the documented state machine of the simulator API (C13) over the
   reference scheduler, and the monitor that checks an implementation history
   against it.  Calls that cannot apply (unknown index, already running
   warrior, stepping or running a finished, empty or never-started battle,
   next task of a warrior without tasks) must return an error or do nothing;
   all others must change the observable state as Mars says.
   Definitions only. *)
From GM Require Export SpecCodec.
Open Scope Z_scope.

Definition a_index (s : mars) (i : Z) : option nat :=
  if (i <? 0) || (Z.of_nat (length (m_ws s)) <=? i) then None else Some (Z.to_nat i).

(* can the battle be stepped? *)
Definition a_can_run (cfg : mcfg) (s : mars) : bool :=
  negb (m_finished cfg s) && (0 <? m_living s)%nat.

Inductive expect :=
| EApplied (s' : mars) (res : list Z)     (* must succeed with this result and this state *)
| ENoop (res_ok : list (list Z)).         (* must return an error, or one of these results; state unchanged *)

Definition a_expect (cfg : mcfg) (ds : list wdata) (s : mars) (o : aop) : option expect :=
  match o with
  | OAdd k =>
    match nth_error ds k with
    | None => None
    | Some d => Some (EApplied (mkM (m_core s) (m_ws s ++ [mkMW (wd_code d) (wd_start d) MAdded []]) (m_cycles s)) [])
    end
  | OSpawn i off =>
    match a_index s i with
    | None => Some (ENoop [])
    | Some k => match m_spawn cfg s k off with
                | None => Some (ENoop [])
                | Some s' => Some (EApplied s' [])
                end
    end
  | OCycle =>
    if a_can_run cfg s then
      let s' := m_cycle cfg s in
      Some (EApplied s' [if (m_cycles s' =? m_cycles s)%N then 1 else Z.of_nat (m_living s')])
    else Some (ENoop [[0]; [Z.of_nat (m_living s)]])
  | ORun =>
    if a_can_run cfg s then
      let s' := m_until_done cfg (S (N.to_nat (mc_C cfg))) s in
      Some (EApplied s' (map (fun w => if m_alive w then 1 else 0) (m_ws s')))
    else Some (ENoop [map (fun w => if m_alive w then 1 else 0) (m_ws s)])
  | OReset =>
    Some (EApplied (mkM empty_core (map (fun w => mkMW (mw_code w) (mw_start w) MAdded []) (m_ws s)) 0%N) [])
  | OGetW i =>
    match a_index s i with
    | None => Some (ENoop [])
    | Some _ => Some (EApplied s [])
    end
  | OGetMem a => Some (EApplied s (enc_instr (get (m_core s) (a mod mc_M cfg)%N)))
  | OAlive h =>
    match nth_error (m_ws s) h with
    | None => None
    | Some w => Some (EApplied s [if m_alive w then 1 else 0])
    end
  | OQueue h =>
    match nth_error (m_ws s) h with
    | None => None
    | Some w => match mw_st w with
                | MAdded => None      (* not compared between Reset and re-spawn *)
                | _ => Some (EApplied s (Z.of_nat (length (mw_q w)) :: map Z.of_N (mw_q w)))
                end
    end
  | ONextPC h =>
    match nth_error (m_ws s) h with
    | None => None
    | Some w => match mw_st w, mw_q w with
                | MAlive, pc :: _ => Some (EApplied s [Z.of_N pc])
                | MAdded, _ => Some (ENoop [])      (* never started / reset: must not panic *)
                | _, _ => Some (ENoop [])
                end
    end
  | OLength h =>
    match nth_error (m_ws s) h with
    | None => None
    | Some w => Some (EApplied s [Z.of_nat (length (mw_code w))])
    end
  end.

Definition zlist_eqb := list_eqb Z.eqb.

(* does the harness' observable record match the reference state? *)
Fixpoint obs_queues (ws : list mwar) (r : list Z) : option (list Z) :=
  match ws with
  | [] => Some r
  | w :: t =>
    match r with
    | n :: r1 =>
      let q := firstn (Z.to_nat n) r1 in
      let r2 := skipn (Z.to_nat n) r1 in
      if (Z.of_nat (length q) =? n) &&
         (match mw_st w with
          | MAdded => true
          | _ => zlist_eqb q (map Z.of_N (mw_q w))
          end)
      then obs_queues t r2 else None
    | [] => None
    end
  end.
Definition obs_match (M : N) (s : mars) (r : list Z) : bool :=
  let n := length (m_ws s) in
  let hd := [31; Z.of_N (m_cycles s); Z.of_nat (m_living s); Z.of_nat n]
            ++ map (fun w => if m_alive w then 1 else 0) (m_ws s) in
  zlist_eqb (firstn (length hd) r) hd &&
  match obs_queues (m_ws s) (skipn (length hd) r) with
  | Some [sum] => sum =? m_sum M s
  | _ => false
  end.

(* verdict codes *)
Definition V_PANIC := 1.   Definition V_HANG := 2.   Definition V_RESULT := 3.
Definition V_STATE := 4.   Definition V_SHAPE := 5.  Definition V_NOOP_CHANGED := 6.

Fixpoint mon_api_loop (cfg : mcfg) (ds : list wdata) (s : mars) (ops : list aop)
         (recs : list (list Z)) (k : Z) : list (list Z) :=
  match ops with
  | [] => [[0; k]]
  | o :: t =>
    match recs with
    | [30; 2] :: _ => [[V_PANIC; k]]
    | (99 :: _) :: _ => [[V_HANG; k]]
    | (98 :: _) :: _ => [[V_PANIC; k]]
    | (30 :: st :: res) :: obs :: recs' =>
      match a_expect cfg ds s o with
      | None => (* not constrained (no such handle / stale window): state must be unchanged *)
        if obs_match (mc_M cfg) s obs then mon_api_loop cfg ds s t recs' (k + 1)
        else [[V_NOOP_CHANGED; k]]
      | Some (EApplied s' r) =>
        if negb ((st =? 0) && zlist_eqb res r) then [[V_RESULT; k; st]]
        else if obs_match (mc_M cfg) s' obs then mon_api_loop cfg ds s' t recs' (k + 1)
        else [[V_STATE; k]]
      | Some (ENoop oks) =>
        if negb ((st =? 1) || ((st =? 0) && (match oks with [] => true | _ => existsb (zlist_eqb res) oks end)))
        then [[V_RESULT; k; st]]
        else if obs_match (mc_M cfg) s obs then mon_api_loop cfg ds s t recs' (k + 1)
        else [[V_NOOP_CHANGED; k]]
      end
    | _ => [[V_SHAPE; k]]
    end
  end.

Definition mon_api (l : list Z) (impl : list (list Z)) : list (list Z) :=
  match rd_acase l with
  | None => [[0; 0]]
  | Some (ac, _) =>
    match impl with
    | [1; 0] :: _ => [[0; 0]]     (* configuration refused: nothing to check here *)
    | [1; 1] :: recs =>
      mon_api_loop (mcfg_of (ac_cfg ac)) (ac_data ac) (mkM empty_core [] 0%N) (ac_ops ac) recs 0
    | _ => [[V_SHAPE; -1]]
    end
  end.

Definition mon_case (l : list Z) (impl : list (list Z)) : list (list Z) :=
  match l with
  | 2 :: t => mon_api t impl
  | _ => [[0; 0]]
  end.
