(* SpecCodec.v — runs the reference (Mars over Emi94) on a case of the harness
   protocol and prints the same observables as Codec.v does for the model.
   The harness compares these with what the implementation did: this is the
   property monitor.  Definitions only. *)
From GM Require Export Mars Codec.
Open Scope Z_scope.

Definition mcfg_of (c : config) : mcfg := mkMC (c_size c) (c_rl c) (c_wl c) (c_procs c) (c_cycles c).

Definition m_dump (M : N) (s : mars) : list Z :=
  flat_map (fun a => enc_instr (get (m_core s) a)) (nseq M).
Definition m_sum (M : N) (s : mars) : Z :=
  fold_left (fun h v => (h * 31 + v + 1) mod sum_p) (m_dump M s) 0.
Definition m_observe (M : N) (withsum : bool) (s : mars) : list Z :=
  [Z.of_N (m_cycles s); Z.of_nat (m_living s); Z.of_nat (length (m_ws s))]
  ++ map (fun w => if m_alive w then 1 else 0) (m_ws s)
  ++ flat_map (fun w => Z.of_nat (length (mw_q w)) :: map Z.of_N (mw_q w)) (m_ws s)
  ++ [if withsum then m_sum M s else 0].

Fixpoint m_spawn_all (cfg : mcfg) (s : mars) (i : nat) (ws : list bwarrior) (out : list (list Z))
  : mars * list (list Z) :=
  match ws with
  | [] => (s, out)
  | w :: t =>
    match m_spawn cfg s i (bw_off w) with
    | None => m_spawn_all cfg s (S i) t (out ++ [[2; Z.of_nat i; 1]])
    | Some s' => m_spawn_all cfg s' (S i) t (out ++ [[2; Z.of_nat i; 0]])
    end
  end.

Fixpoint m_step_loop (cfg : mcfg) (fl : Z) (k : nat) (s : mars) (out : list (list Z))
  : mars * list (list Z) :=
  match k with
  | O => (s, out)
  | S k' =>
    if m_finished cfg s then (s, out)
    else
      let s' := m_cycle cfg s in
      let ret := if (m_cycles s' =? m_cycles s)%N then 1 else Z.of_nat (m_living s') in
      m_step_loop cfg fl k' s' (out ++ [[3; ret] ++ m_observe (mc_M cfg) (flag fl 2) s']
                                    ++ (if flag fl 4 then [[11] ++ m_dump (mc_M cfg) s'] else []))
  end.

Definition m_stepped (cfg : mcfg) (bc : bcase) (s : mars) (out : list (list Z)) : list (list Z) :=
  let fl := bc_flags bc in
  let '(s1, out1) := m_step_loop cfg fl (bc_maxsteps bc) s out in
  out1 ++ [[5] ++ m_observe (mc_M cfg) (flag fl 2) s1]
       ++ (if flag fl 3 then [[6] ++ m_dump (mc_M cfg) s1] else []).

Definition spec_battle (l : list Z) : list (list Z) :=
  match rd_bcase l with
  | None => [[0]]
  | Some (bc, _) =>
    let cfg := mcfg_of (bc_cfg bc) in
    let fl := bc_flags bc in
    let s0 := mkM empty_core (map (fun w => mkMW (bw_code w) (bw_start w) MAdded []) (bc_ws bc)) 0%N in
    let '(s, out) := m_spawn_all cfg s0 0 (bc_ws bc) [] in
    let out1 := m_stepped cfg bc s out in
    (* a battle after Reset and re-spawn is the battle on a fresh simulator *)
    let out2 := if flag fl 6 then out1 ++ m_stepped cfg bc s ([[12]] ++ out) else out1 in
    if flag fl 1 then
      match m_ws s with
      | [] => out2 ++ [[7; 1]]
      | _ =>
        let s2 := m_until_done cfg (S (N.to_nat (mc_C cfg))) s in
        out2 ++ [[7; 0] ++ map (fun w => if m_alive w then 1 else 0) (m_ws s2)]
             ++ [[8] ++ m_observe (mc_M cfg) (flag fl 2) s2]
             ++ (if flag fl 3 then [[10] ++ m_dump (mc_M cfg) s2] else [])
      end
    else out2
  end.

Definition spec_case (l : list Z) : list (list Z) :=
  match l with
  | 1 :: t => spec_battle t
  | _ => [[0]]
  end.
