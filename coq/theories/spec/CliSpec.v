(* CliSpec.v — what the gmars command must print (C17): the configuration the
   documented flag table describes, the reference battle at the given placement,
   the tally.  Definitions only. *)
From GM Require Export AsmSpec Mars SpecCodec Cli.
Open Scope Z_scope.

(* README: | name | mode | core | length | processes | cycles |.  The README lists no read/write
   limits: a preset describes a standard battle, i.e. limits equal to the core size (limits above
   the core size, as nop256 has in config.go, are the same thing); distance as in config.go *)
Definition doc_preset (k : N) : option config :=
  match k with
  | 1%N => Some (mkCfg 0 8000 8000 80000 8000 8000 100 100)      (* 88 *)
  | 2%N => Some (mkCfg 0 8192 8000 100000 8192 8192 300 100)     (* icws *)
  | 3%N => Some (mkCfg 2 8000 8000 80000 8000 8000 100 100)      (* nop94 *)
  | 4%N => Some (mkCfg 1 800 800 8000 800 800 20 20)             (* noptiny *)
  | 5%N => Some (mkCfg 1 256 60 2560 256 256 10 10)              (* nop256 *)
  | 6%N => Some (mkCfg 1 80 80 800 80 80 5 5)                    (* nopnano *)
  | _ => None
  end.
Definition doc_config (f : flags) : option config :=
  match fl_preset f with
  | 0%N => if (fl_s f <? 0) || (fl_p f <? 0) || (fl_c f <? 0) || (fl_l f <? 0) then None
           else Some (mkCfg (if fl_88 f then 0 else 2) (Z.to_N (fl_s f)) (Z.to_N (fl_p f)) (Z.to_N (fl_c f))
                            (Z.to_N (fl_s f)) (Z.to_N (fl_s f)) (Z.to_N (fl_l f)) (Z.to_N (fl_l f)))
  | k => doc_preset k
  end.

(* one battle of the reference: alive flags of warrior 1 and 2 *)
Definition ref_outcome (cfg : config) (w1 : list instr * Z) (w2 : option (list instr * Z)) (pos2 : Z) : bool * bool :=
  let mc := mcfg_of cfg in
  let ws := mkMW (fst w1) (snd w1) MAdded [] ::
            match w2 with Some w => [mkMW (fst w) (snd w) MAdded []] | None => [] end in
  let s0 := mkM empty_core ws 0%N in
  let s1 := match m_spawn mc s0 0 0%N with Some s => s | None => s0 end in
  let s2 := match w2 with
            | Some _ => match m_spawn mc s1 1 (Z.to_N pos2) with Some s => s | None => s1 end
            | None => s1 end in
  let s3 := m_until_done mc (S (N.to_nat (mc_C mc))) s2 in
  let al i := match nth_error (m_ws s3) i with Some w => m_alive w | None => false end in
  (al O, al 1%nat).

Definition tally_lines (two : bool) (rounds : Z) (r : bool * bool) : text :=
  let '(a1, a2) := r in
  let n := rounds in
  if two then
    dec_of_Z (if a1 && negb a2 then n else 0) ++ [32%N] ++ dec_of_Z (if a1 && a2 then n else 0) ++ [10%N]
    ++ dec_of_Z (if a2 && negb a1 then n else 0) ++ [32%N] ++ dec_of_Z (if a2 && a1 then n else 0) ++ [10%N]
  else dec_of_Z (if a1 then n else 0) ++ [32%N] ++ dec_of_Z 0 ++ [10%N].

Definition rd_flags (l : list Z) : option (flags * list Z) :=
  match l with
  | u88 :: s :: p :: c :: ln :: F :: r :: pre :: t =>
      Some (mkFl (u88 =? 1) s p c ln F r (Z.to_N pre), t)
  | _ => None
  end.

(* kind 34: [flags(8); nprogs; style1; prog1...; style2; prog2...]
   -> [60 text1] [61 text2]? [65 exit] [66 stdout...] or [62 5] when not constrained *)
Definition spec_cli (l : list Z) : list (list Z) :=
  match rd_flags l with
  | Some (f, np :: st1 :: t) =>
    match rd_prog t with
    | Some (p1, t1) =>
      let second := if np =? 2 then
                      match t1 with
                      | st2 :: t2 => match rd_prog t2 with Some (p2, _) => Some (Some (st2, p2)) | None => None end
                      | [] => None end
                    else Some None in
      match second, doc_config f with
      | Some sec, Some cfg =>
        let cf := mconf_of cfg in
        let txt1 := [60 :: of_text (render (Z.to_N st1) p1)] in
        let txt2 := match sec with Some (st2, p2) => [61 :: of_text (render (Z.to_N st2) p2)] | None => [] end in
        let m1 := meaning cf p1 in
        let m2 := match sec with Some (_, p2) => Some (meaning cf p2) | None => None end in
        if negb (validate cfg) then txt1 ++ txt2 ++ [[65; 1]]
        else
        match m1, m2 with
        | MOk c1 s1, None =>
            txt1 ++ [[65; 0]; 66 :: of_text (tally_lines false (fl_r f) (ref_outcome cfg (c1, s1) None 0))]
        | MOk c1 s1, Some (MOk c2 s2) =>
            if fl_F f =? 0 then txt1 ++ txt2 ++ [[65; 0]; [67; fl_r f]]       (* random placement: conservation only *)
            else txt1 ++ txt2 ++ [[65; 0]; 66 :: of_text (tally_lines true (fl_r f)
                                                     (ref_outcome cfg (c1, s1) (Some (c2, s2)) (fl_F f)))]
        | MReject, _ => txt1 ++ txt2 ++ [[65; 1]]
        | _, Some MReject => txt1 ++ txt2 ++ [[65; 1]]
        | _, _ => txt1 ++ txt2 ++ [[62; 5]]
        end
      | Some _, None => [[62; 5]]
      | None, _ => [[0]]
      end
    | None => [[0]]
    end
  | _ => [[0]]
  end.

(* kind 13 monitor: over any number of rounds each round is counted exactly once,
   as a win for one side or a tie for both *)
Fixpoint parse_nums (s : text) (cur : option N) (acc : list Z) : list Z :=
  match s with
  | [] => match cur with Some v => acc ++ [Z.of_N v] | None => acc end
  | c :: r => if is_digit_a c
              then parse_nums r (Some (match cur with Some v => v * 10 + (c - 48) | None => c - 48 end)%N) acc
              else parse_nums r None (match cur with Some v => acc ++ [Z.of_N v] | None => acc end)
  end.
Definition mon_cli (l : list Z) (impl : list (list Z)) : list (list Z) :=
  match l with
  | _ :: _ :: _ :: _ :: _ :: _ :: r :: _ :: nf :: _ =>
    match find_tag 90 impl with
    | Some (_ :: e :: out) =>
      if negb (e =? 0) then []
      else
        match parse_nums (to_text out) None [] with
        | [w1; t1; w2; t2] =>
          if nf =? 2 then
            if (t1 =? t2) && (w1 + w2 + t1 <=? r) && (0 <=? w1) && (0 <=? w2) && (0 <=? t1) then [] else [[60; w1; t1; w2; t2]]
          else [[61]]
        | [w1; t1] => if (nf =? 1) && (w1 + t1 <=? r) && (t1 =? 0) then [] else [[60; w1; t1]]
        | _ => [[61]]
        end
    | _ => []
    end
  | _ => []
  end.
