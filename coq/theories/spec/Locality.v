(* Locality.v — circular distance on the core and the "near the program
   counter" predicates used by C11.  Definitions only. *)
From GM Require Export Emi94.
Open Scope N_scope.

(* distance between two addresses a, b < M around the circular core *)
Definition cdistN (M a b : N) : N := N.min ((a + M - b) mod M) ((b + M - a) mod M).

(* an offset x is within d of 0 on the circle *)
Definition nearp (M d x : N) : Prop := x < M /\ (x <= d \/ M - x <= d).
