(* LoadPrint.v — the canonical load-file layout of a warrior (one fully explicit
   instruction per line plus the entry-point directive) under layout
   perturbations, and the reader of pMARS load listings.  Definitions only. *)
From GM Require Export Render.
Open Scope N_scope.

(* a field printed unsigned, or signed when it lies in the upper half *)
Definition field_text (s k : N) (m a : N) : text :=
  if (pick s k 2 =? 0) && (m / 2 <? a) then 45 :: dec_of_N (m - a) else dec_of_N a.

(* a trailing remark; it may itself contain semicolons *)
Definition lp_comment (s k : N) : text :=
  59 :: match pick s k 3 with
        | 0 => s2t " c"
        | 1 => s2t " was: DJN.F $ -1, { 338 ; changed"
        | _ => s2t "; section ;;"
        end.

Definition lp_line (s k : N) (legacy : bool) (m : N) (i : instr) : text :=
  optgap s k
  ++ recase s (k + 1) (opcode_name (i_op i))
  ++ (if legacy then [] else [46] ++ recase s (k + 2) (opmode_name (i_md i)))
  ++ gap s (k + 3) ++ [amode_char (i_am i)] ++ gap s (k + 4) ++ field_text s (k + 5) m (i_a i)
  ++ optgap s (k + 6) ++ [44] ++ gap s (k + 7) ++ [amode_char (i_bm i)] ++ gap s (k + 8) ++ field_text s (k + 9) m (i_b i)
  ++ (match pick s (k + 10) 5 with 0 => gap s (k + 11) ++ lp_comment s (k + 12) | _ => [] end).

(* line end: LF or CR-LF *)
Definition eol (s k : N) : text := if pick s k 4 =? 0 then [13; 10] else [10].
Definition filler (s k : N) : text :=
  match pick s k 7 with
  | 0 => eol s (k + 1)
  | 1 => s2t "; remark" ++ eol s (k + 1)
  | 2 => s2t ";name some warrior" ++ eol s (k + 1)
  | _ => []
  end.

Fixpoint lp_lines (s k : N) (legacy : bool) (m : N) (code : list instr) : list text :=
  match code with
  | [] => []
  | i :: t => lp_line s k legacy m i :: lp_lines s (k + 20) legacy m t
  end.

(* join lines with line ends and fillers; the very last line end may be missing *)
Fixpoint join_lines (s k : N) (ls : list text) (final_nl : bool) : text :=
  match ls with
  | [] => []
  | [l] => l ++ (if final_nl then eol s k else [])
  | l :: t => l ++ eol s k ++ filler s (k + 3) ++ join_lines s (k + 7) t final_nl
  end.

Definition loadprint (s : N) (legacy : bool) (m : N) (code : list instr) (start : Z) : text :=
  let dirtext := dec_of_N (Z.to_N start) in
  let body := lp_lines s 50 legacy m code in
  let ls := if legacy then body ++ [optgap s 2 ++ recase s 3 (s2t "END") ++ gap s 4 ++ dirtext]
            else (optgap s 2 ++ recase s 3 (s2t "ORG") ++ gap s 4 ++ dirtext) :: body in
  filler s 5 ++ join_lines s 9 ls (negb (pick s 6 5 =? 0)).

(* ---------- reading a pMARS load listing ---------- *)
(* tokens of a line: maximal runs of non-blank characters, commas dropped *)
Fixpoint words (s : text) (cur : text) : list text :=
  match s with
  | [] => match cur with [] => [] | _ => [cur] end
  | c :: r => if is_space_a c || (c =? 44)
              then match cur with [] => words r [] | _ => cur :: words r [] end
              else words r (cur ++ [c])
  end.
Fixpoint split_lines (s : text) (cur : text) : list text :=
  match s with
  | [] => match cur with [] => [] | _ => [cur] end
  | 10 :: r => cur :: split_lines r []
  | c :: r => split_lines r (cur ++ [c])
  end.

Definition opcode_of_name (s : text) : option opcode :=
  find (fun o => text_eqb (opcode_name o) (map upper_c s)) all_opcodes.
Definition opmode_of_name (s : text) : option opmode :=
  find (fun o => text_eqb (opmode_name o) (map upper_c s)) all_opmodes.
Definition amode_of_char (c : N) : option amode :=
  find (fun m => amode_char m =? c) all_amodes.

Definition split_dot (s : text) : text * option text :=
  (fix go (s cur : text) : text * option text :=
     match s with
     | [] => (cur, None)
     | 46 :: r => (cur, Some r)
     | c :: r => go r (cur ++ [c])
     end) s [].

(* one listing line: Some (is_start, instruction); None = not an instruction line *)
Definition read_listing_line (legacy : bool) (m : N) (ws : list text) : option (bool * instr) :=
  let '(is_start, rest) :=
      match ws with
      | w :: r => if text_eqb w (s2t "START") then (true, r) else (false, ws)
      | [] => (false, [])
      end in
  match rest with
  | [opw; [am]; a; [bm]; b] =>
    let '(opn, modn) := split_dot opw in
    match opcode_of_name opn, amode_of_char am, parse_int 64 a, amode_of_char bm, parse_int 64 b with
    | Some o, Some am', Some av, Some bm', Some bv =>
      let md := match modn with
                | Some mtxt => opmode_of_name mtxt
                | None => if legacy then implied_modifier_88 o am' bm' else None
                end in
      match md with
      | Some md' => Some (is_start, mkI o md' (Z.to_N (av mod Z.of_N m)) am' (Z.to_N (bv mod Z.of_N m)) bm')
      | None => None
      end
    | _, _, _, _, _ => None
    end
  | _ => None
  end.

Definition is_directive (ws : list text) : bool :=
  match ws with
  | [d; st] => (text_eqb d (s2t "ORG") || text_eqb d (s2t "END")) && text_eqb st (s2t "START")
  | _ => false
  end.

(* the warrior a listing denotes: None when it is not a well-formed listing *)
Definition read_listing (legacy : bool) (m : N) (s : text) : option (list instr * Z) :=
  let lines := filter (fun ws => match ws with [] => false | _ => true end)
                      (map (fun l => words l []) (split_lines s [])) in
  let body := filter (fun ws => negb (is_directive ws)) lines in
  let parsed := map (read_listing_line legacy m) body in
  if forallb (fun x => match x with Some _ => true | None => false end) parsed then
    let ins := flat_map (fun x => match x with Some y => [y] | None => [] end) parsed in
    let starts := filter (fun k => fst (nth k ins (false, zero_instr))) (seq 0 (length ins)) in
    match starts, ins with
    | [k], _ => Some (map snd ins, Z.of_nat k)
    | [], [] => Some ([], 0%Z)
    | _, _ => None
    end
  else None.

(* ---------- the canonical load-file layout without layout variations ----------
   one fully explicit instruction per line (OP.MOD M A, M B), single blanks, LF line ends, the entry-point
   directive first ('94: ORG) or last ('88: END); fields printed unsigned, or signed when
   they lie in the upper half (sg) *)
Definition canon_field (sg : bool) (m a : N) : text :=
  if sg && (m / 2 <? a) then 45 :: dec_of_N (m - a) else dec_of_N a.
Definition canon_op (legacy : bool) (i : instr) : text :=
  opcode_name (i_op i) ++ (if legacy then [] else 46 :: opmode_name (i_md i)).
Definition canon_line (legacy sg : bool) (m : N) (i : instr) : text :=
  canon_op legacy i ++ [32; amode_char (i_am i); 32] ++ canon_field sg m (i_a i)
  ++ [44; 32; amode_char (i_bm i); 32] ++ canon_field sg m (i_b i) ++ [10].
Definition canon_dir (kw : text) (start : Z) : text := kw ++ [32] ++ dec_of_N (Z.to_N start) ++ [10].
Definition canon_print (legacy sg : bool) (m : N) (code : list instr) (start : Z) : text :=
  if legacy then flat_map (canon_line legacy sg m) code ++ canon_dir (s2t "END") start
  else canon_dir (s2t "ORG") start ++ flat_map (canon_line legacy sg m) code.

(* ---------- the layout of loadprint as a parameter ----------
   loadprint_gen is loadprint with every layout decision (blank runs, letter case, line ends,
   filler lines, signed or unsigned fields, trailing remarks, final newline) taken from a
   record instead of the style number; lay_of s is the record loadprint s uses. *)
Record layout := mkLay {
  ly_gap : N -> text;                      (* a non-empty run of blanks *)
  ly_optgap : N -> text;                   (* a possibly empty run of blanks *)
  ly_case : N -> text -> text;             (* a respelling in another letter case *)
  ly_eolpre : N -> text;                   (* what stands in front of the line feed (a carriage return) *)
  ly_fill : N -> option (option text);     (* between two lines: nothing / a blank line / a comment line *)
  ly_signed : N -> bool;                   (* fields in the upper half printed with a minus sign *)
  ly_comment : N -> option text;           (* a trailing remark *)
  ly_final_nl : bool }.                    (* the last line has its line end *)

Definition gen_field (sg : bool) (m a : N) : text :=
  if sg && (m / 2 <? a) then 45 :: dec_of_N (m - a) else dec_of_N a.
Definition gen_eol (L : layout) (k : N) : text := ly_eolpre L k ++ [10].
Definition gen_fill (L : layout) (k : N) : text :=
  match ly_fill L k with
  | None => []
  | Some None => gen_eol L (k + 1)
  | Some (Some c) => c ++ gen_eol L (k + 1)
  end.
Definition gen_op (L : layout) (k : N) (legacy : bool) (i : instr) : text :=
  ly_case L (k + 1) (opcode_name (i_op i))
  ++ (if legacy then [] else [46] ++ ly_case L (k + 2) (opmode_name (i_md i))).

Definition gen_line (L : layout) (k : N) (legacy : bool) (m : N) (i : instr) : text :=
  ly_optgap L k
  ++ ly_case L (k + 1) (opcode_name (i_op i))
  ++ (if legacy then [] else [46] ++ ly_case L (k + 2) (opmode_name (i_md i)))
  ++ ly_gap L (k + 3) ++ [amode_char (i_am i)] ++ ly_gap L (k + 4) ++ gen_field (ly_signed L (k + 5)) m (i_a i)
  ++ ly_optgap L (k + 6) ++ [44] ++ ly_gap L (k + 7) ++ [amode_char (i_bm i)] ++ ly_gap L (k + 8)
  ++ gen_field (ly_signed L (k + 9)) m (i_b i)
  ++ (match ly_comment L k with Some c => ly_gap L (k + 11) ++ c | None => [] end).

Fixpoint gen_lines (L : layout) (k : N) (legacy : bool) (m : N) (code : list instr) : list text :=
  match code with
  | [] => []
  | i :: t => gen_line L k legacy m i :: gen_lines L (k + 20) legacy m t
  end.

Fixpoint gen_join (L : layout) (k : N) (ls : list text) : text :=
  match ls with
  | [] => []
  | [l] => l ++ (if ly_final_nl L then gen_eol L k else [])
  | l :: t => l ++ gen_eol L k ++ gen_fill L (k + 3) ++ gen_join L (k + 7) t
  end.

Definition gen_dir (L : layout) (kw : text) (start : Z) : text :=
  ly_optgap L 2 ++ ly_case L 3 kw ++ ly_gap L 4 ++ dec_of_N (Z.to_N start).

Definition loadprint_gen (L : layout) (legacy : bool) (m : N) (code : list instr) (start : Z) : text :=
  let body := gen_lines L 50 legacy m code in
  let ls := if legacy then body ++ [gen_dir L (s2t "END") start] else gen_dir L (s2t "ORG") start :: body in
  gen_fill L 5 ++ gen_join L 9 ls.

Definition lay_of (s : N) : layout :=
  mkLay (gap s) (optgap s) (recase s) (fun k => if pick s k 4 =? 0 then [13] else [])
        (fun k => match pick s k 7 with
                  | 0 => Some None
                  | 1 => Some (Some (s2t "; remark"))
                  | 2 => Some (Some (s2t ";name some warrior"))
                  | _ => None end)
        (fun k => pick s k 2 =? 0)
        (fun k => match pick s (k + 10) 5 with 0 => Some (lp_comment s (k + 12)) | _ => None end)
        (negb (pick s 6 5 =? 0)).

Lemma gen_eol_eq s k : gen_eol (lay_of s) k = eol s k.
Proof. unfold gen_eol, eol, lay_of. cbn [ly_eolpre]. destruct (pick s k 4 =? 0); reflexivity. Qed.
Lemma gen_fill_eq s k : gen_fill (lay_of s) k = filler s k.
Proof.
  unfold gen_fill, filler. cbn [lay_of ly_fill]. destruct (pick s k 7) as [|[p|[p|p|]|]]; try reflexivity; rewrite gen_eol_eq; reflexivity.
Qed.
Lemma gen_line_eq s k legacy m i : gen_line (lay_of s) k legacy m i = lp_line s k legacy m i.
Proof.
  unfold gen_line, lp_line, lay_of, gen_field, field_text. cbn [ly_gap ly_optgap ly_case ly_signed ly_comment].
  destruct (pick s (k + 10) 5); reflexivity.
Qed.
Lemma gen_lines_eq s legacy m code : forall k, gen_lines (lay_of s) k legacy m code = lp_lines s k legacy m code.
Proof. induction code as [|i t IH]; intros k; [reflexivity|]. cbn [gen_lines lp_lines]. rewrite gen_line_eq, IH. reflexivity. Qed.
Lemma gen_join_eq s ls : forall k, gen_join (lay_of s) k ls = join_lines s k ls (negb (pick s 6 5 =? 0)).
Proof.
  induction ls as [|l t IH]; intros k; [reflexivity|]. destruct t as [|l2 t2].
  - cbn [gen_join join_lines lay_of ly_final_nl]. rewrite gen_eol_eq. reflexivity.
  - change (gen_join (lay_of s) k (l :: l2 :: t2))
      with (l ++ gen_eol (lay_of s) k ++ gen_fill (lay_of s) (k + 3) ++ gen_join (lay_of s) (k + 7) (l2 :: t2)).
    rewrite IH, gen_eol_eq, gen_fill_eq. reflexivity.
Qed.
(* loadprint is loadprint_gen under the layout its style number denotes *)
Lemma loadprint_as_gen s legacy m code start : loadprint s legacy m code start = loadprint_gen (lay_of s) legacy m code start.
Proof. unfold loadprint, loadprint_gen. rewrite gen_join_eq, gen_lines_eq, gen_fill_eq. reflexivity. Qed.
