(* Monitors.v — executable checkers, written from the property statements, that
   the harness runs on the implementation's own outputs:
     mon_inv     (C04) the invariants after every cycle of a battle
     mon_local   (C11) write / jump locality of a single step
     mon_reports (C15) validity and completeness of the report stream, recorder
     mon_rot     (C12) a shifted battle is the rotated battle
   Verdict records: [code; where...]; [0; _] means nothing to report.
   Definitions only. *)
From GM Require Export ApiSpec AsmSpec CliSpec.
Open Scope Z_scope.

Definition tag_of (r : list Z) : Z := match r with x :: _ => x | [] => (-1) end.

(* split an observable payload: cycle, living, count, count alive flags, count queues (each: length then elements), sum *)
Fixpoint take_queues (n : nat) (r : list Z) : option (list (list Z) * list Z) :=
  match n with
  | O => Some ([], r)
  | S n' =>
    match r with
    | len :: r1 =>
      let q := firstn (Z.to_nat len) r1 in
      if negb (Z.of_nat (length q) =? len) then None
      else match take_queues n' (skipn (Z.to_nat len) r1) with
           | Some (qs, rest) => Some (q :: qs, rest)
           | None => None
           end
    | [] => None
    end
  end.
Record obs := mkObs { o_cycle : Z; o_living : Z; o_count : Z; o_alive : list Z; o_queues : list (list Z) }.
Definition parse_obs (p : list Z) : option obs :=
  match p with
  | cyc :: liv :: cnt :: t =>
    let n := Z.to_nat cnt in
    let al := firstn n t in
    if negb (length al =? n)%nat then None
    else match take_queues n (skipn n t) with
         | Some (qs, [_]) => Some (mkObs cyc liv cnt al qs)
         | _ => None
         end
  | _ => None
  end.

Fixpoint zsum (l : list Z) : Z := match l with [] => 0 | x :: t => x + zsum t end.

(* ---------- C04: invariants ---------- *)
Definition inv_obs (M P C : Z) (nw : Z) (o : obs) : list Z :=
  (if C <? o_cycle o then [11] else [])
  ++ (if negb (o_count o =? nw) then [12] else [])
  ++ (if negb (o_living o =? zsum (o_alive o)) then [13] else [])
  ++ (if existsb (fun q => P <? Z.of_nat (length q)) (o_queues o) then [14] else [])
  ++ (if existsb (fun q => existsb (fun x => (x <? 0) || (M <=? x)) q) (o_queues o) then [15] else [])
  ++ (if existsb (fun aq => negb (Bool.eqb (fst aq =? 1) (0 <? Z.of_nat (length (snd aq)))))
                 (combine (o_alive o) (o_queues o)) then [16] else []).

Fixpoint dump_ok (M : Z) (d : list Z) : bool :=
  match d with
  | [] => true
  | o :: md :: a :: am :: b :: bm :: t =>
      (0 <=? o) && (o <=? 16) && (0 <=? md) && (md <=? 6) && (0 <=? am) && (am <=? 7) &&
      (0 <=? bm) && (bm <=? 7) && (0 <=? a) && (a <? M) && (0 <=? b) && (b <? M) && dump_ok M t
  | _ => false
  end.

Definition inv_rec (M P C nw : Z) (idx : Z) (r : list Z) : list (list Z) :=
  let chk p := match parse_obs p with
               | None => [[18; idx]]
               | Some o => map (fun c => [c; idx]) (inv_obs M P C nw o)
               end in
  match r with
  | 9 :: _ => [[10; idx]]
  | 98 :: _ => [[10; idx]]
  | 99 :: _ => [[10; idx]]
  | [2; _; 2] => [[10; idx]]
  | 3 :: _ :: p => chk p
  | 5 :: p => chk p
  | 8 :: p => chk p
  | 6 :: d => if dump_ok M d then [] else [[17; idx]]
  | 10 :: d => if dump_ok M d then [] else [[17; idx]]
  | 11 :: d => if dump_ok M d then [] else [[17; idx]]
  | _ => []
  end.

Fixpoint inv_recs (M P C nw : Z) (idx : Z) (rs : list (list Z)) : list (list Z) :=
  match rs with
  | [] => []
  | r :: t => inv_rec M P C nw idx r ++ inv_recs M P C nw (idx + 1) t
  end.

Definition mon_inv (bc : bcase) (impl : list (list Z)) : list (list Z) :=
  let c := bc_cfg bc in
  inv_recs (Z.of_N (c_size c)) (Z.of_N (c_procs c)) (Z.of_N (c_cycles c))
           (Z.of_nat (length (bc_ws bc))) 0 impl.

(* ---------- C11: locality of one step ---------- *)
Definition cdist (M a b : Z) : Z := Z.min ((a - b) mod M) ((b - a) mod M).

Fixpoint changed_cells (a : Z) (d0 d1 : list Z) : list Z :=
  match d0, d1 with
  | o :: md :: x :: am :: y :: bm :: t0, o' :: md' :: x' :: am' :: y' :: bm' :: t1 =>
      (if (o =? o') && (md =? md') && (x =? x') && (am =? am') && (y =? y') && (bm =? bm')
       then [] else [a]) ++ changed_cells (a + 1) t0 t1
  | _, _ => []
  end.

Definition find_rec (t : Z) (rs : list (list Z)) : option (list Z) :=
  match filter (fun r => tag_of r =? t) rs with r :: _ => Some r | [] => None end.

Definition mon_local (bc : bcase) (impl : list (list Z)) : list (list Z) :=
  let c := bc_cfg bc in
  let M := Z.of_N (c_size c) in
  let R := Z.of_N (c_rl c) in
  let W := Z.of_N (c_wl c) in
  match bc_ws bc with
  | [w] =>
    if (N.of_nat (length (bw_code w)) =? c_size c)%N && (bw_off w =? 0)%N &&
       (bc_maxsteps bc =? 1)%nat && (R <=? M) && (W <=? M) && (0 <=? bw_start w) && (bw_start w <? M)
    then
      let pc := bw_start w in
      let d0 := flat_map enc_instr (bw_code w) in
      match find_rec 6 impl, find_rec 5 impl with
      | Some (_ :: d1), Some (_ :: p) =>
        match parse_obs p with
        | Some o =>
          map (fun a => [20; a]) (filter (fun a => W / 2 <? cdist M pc a) (changed_cells 0 d0 d1))
          ++ map (fun x => [21; x])
                 (filter (fun x => negb ((x =? (pc + 1) mod M) || (x =? (pc + 2) mod M))
                                   && (R / 2 <? cdist M pc x))
                         (concat (o_queues o)))
        | None => []
        end
      | _, _ => []
      end
    else []
  | _ => []
  end.

(* ---------- C15: reports ---------- *)
Fixpoint quads (l : list Z) : list (Z * Z * Z * Z) :=
  match l with
  | t :: c :: w :: a :: rest => (t, c, w, a) :: quads rest
  | _ => []
  end.
Definition q_t (q : Z * Z * Z * Z) := fst (fst (fst q)).
Definition q_w (q : Z * Z * Z * Z) := snd (fst q).
Definition q_a (q : Z * Z * Z * Z) := snd q.

(* the reports of a cycle split into tasks at each WarriorTaskPop (type 4) *)
Fixpoint split_tasks (rs : list (Z * Z * Z * Z)) (cur : list (Z * Z * Z * Z))
  : list (list (Z * Z * Z * Z)) :=
  match rs with
  | [] => match cur with [] => [] | _ => [cur] end
  | r :: t =>
    if q_t r =? 4
    then match cur with
         | [] => split_tasks t [r]
         | _ => cur :: split_tasks t [r]
         end
    else match cur with
         | [] => split_tasks t []        (* CycleStart etc. before the first task *)
         | _ => split_tasks t (cur ++ [r])
         end
  end.

Definition is_change (t : Z) : bool := (t =? 9) || (t =? 10) || (t =? 11).
Definition has_addr (t : Z) : bool := (3 <=? t) && (t <=? 11).

Definition task_ok (M W : Z) (ev : mev) (seg : list (Z * Z * Z * Z)) : bool :=
  match seg with
  | pop :: rest =>
    (q_w pop =? Z.of_nat (ev_w ev)) && (q_a pop =? Z.of_N (ev_pc ev)) &&
    forallb (fun r => q_w r =? Z.of_nat (ev_w ev)) (filter (fun r => has_addr (q_t r)) rest) &&
    Bool.eqb (existsb (fun r => q_t r =? 6) rest) (ev_succ ev =? 0)%nat &&
    Bool.eqb (existsb (fun r => q_t r =? 7) rest) (ev_died ev) &&
    ((M <? W) ||
     forallb (fun r => negb (is_change (q_t r)) || (cdist M (Z.of_N (ev_pc ev)) (q_a r) <=? W / 2)) rest)
  | [] => false
  end.

Fixpoint tasks_ok (M W : Z) (tr : list mev) (segs : list (list (Z * Z * Z * Z))) : bool :=
  match tr, segs with
  | [], [] => true
  | ev :: tr', seg :: segs' => task_ok M W ev seg && tasks_ok M W tr' segs'
  | _, _ => false
  end.

Fixpoint rep_loop (cfg : mcfg) (nw : Z) (s : mars) (prev : list Z) (recs : list (list Z)) (cyc : Z)
  : list (list Z) :=
  match recs with
  | (3 :: _) :: (4 :: reps) :: (11 :: dump) :: rest =>
    let M := Z.of_N (mc_M cfg) in
    let '(s', tr) := m_cycle_tr cfg s in
    let qs := quads reps in
    let bad_addr := existsb (fun r => has_addr (q_t r) &&
                                      ((q_a r <? 0) || (M <=? q_a r) || (q_w r <? 0) || (nw <=? q_w r))) qs in
    let reported := map q_a (filter (fun r => is_change (q_t r)) qs) in
    let unreported := filter (fun a => negb (existsb (Z.eqb a) reported)) (changed_cells 0 prev dump) in
    (if bad_addr then [[30; cyc]] else [])
    ++ map (fun a => [31; cyc; a]) unreported
    ++ (if tasks_ok M (Z.of_N (mc_W cfg)) tr (split_tasks qs []) then [] else [[32; cyc]])
    ++ rep_loop cfg nw s' dump rest (cyc + 1)
  | _ => []
  end.

(* last-touch fold of an event stream: (state, colour) of address a *)
Definition touch_state (reads : bool) (t : Z) : option Z :=
  match t with
  | 6 => Some 6 | 4 => Some 1 | 9 => Some 2 | 11 => Some 3 | 10 => Some 4
  | 8 => if reads then Some 5 else None          (* reads count only when the recorder is told to record them *)
  | _ => None
  end.
Definition touches (reads : bool) (M : Z) (lens : list Z) (r : Z * Z * Z * Z) (a : Z) : option (Z * Z) :=
  if q_t r =? 3 then
    let len := nth (Z.to_nat (q_w r)) lens 0 in
    if ((a - q_a r) mod M <? len) then Some (2, q_w r) else None
  else match touch_state reads (q_t r) with
       | Some st => if q_a r =? a then Some (st, q_w r) else None
       | None => None
       end.
Definition last_touch (reads : bool) (M : Z) (lens : list Z) (evs : list (Z * Z * Z * Z)) (a : Z) : Z * Z :=
  fold_left (fun acc r => match touches reads M lens r a with Some x => x | None => acc end) evs (0, -1).

Fixpoint pairs2 (l : list Z) : list (Z * Z) :=
  match l with s :: c :: t => (s, c) :: pairs2 t | _ => [] end.

Definition all_reports (impl : list (list Z)) : list (Z * Z * Z * Z) :=
  flat_map (fun r => match r with
                     | 2 :: _ :: 0 :: reps => quads reps
                     | 4 :: reps => quads reps
                     | _ => []
                     end) impl.

Fixpoint before_reset (impl : list (list Z)) : list (list Z) :=
  match impl with
  | [] => []
  | r :: t => match r with 12 :: _ => [] | _ => r :: before_reset t end
  end.

Definition mon_recorder (bc : bcase) (impl0 : list (list Z)) : list (list Z) :=
  let impl := before_reset impl0 in
  match find_rec 13 impl with
  | Some (_ :: d) =>
    let M := Z.of_N (c_size (bc_cfg bc)) in
    let lens := map (fun w => Z.of_nat (length (bw_code w))) (bc_ws bc) in
    let evs := all_reports impl in
    let exp := map (fun a => last_touch (flag (bc_flags bc) 8) M lens evs (Z.of_N a)) (nseq (c_size (bc_cfg bc))) in
    if list_eqb (fun x y => (fst x =? fst y) && (snd x =? snd y)) exp (pairs2 d) then [] else [[35]]
  | _ => []
  end.

Definition mon_reports (bc : bcase) (impl : list (list Z)) : list (list Z) :=
  let fl := bc_flags bc in
  if flag fl 0 && flag fl 4 then
    let cfg := mcfg_of (bc_cfg bc) in
    let s0 := mkM empty_core (map (fun w => mkMW (bw_code w) (bw_start w) MAdded []) (bc_ws bc)) 0%N in
    let '(s, _) := m_spawn_all cfg s0 0 (bc_ws bc) [] in
    let spawn_bad :=
        existsb (fun r => match r with
                          | 2 :: _ :: 0 :: reps =>
                            existsb (fun q => (q_a q <? 0) || (Z.of_N (mc_M cfg) <=? q_a q)) (quads reps)
                          | _ => false end) impl in
    (* a second battle after Reset (record 12) is not followed by this monitor: the first one only *)
    let cyc_recs := filter (fun r => (tag_of r =? 3) || (tag_of r =? 4) || (tag_of r =? 11)) (before_reset impl) in
    (if spawn_bad then [[30; -1]] else [])
    ++ rep_loop cfg (Z.of_nat (length (bc_ws bc))) s (m_dump (mc_M cfg) s) cyc_recs 0
    ++ mon_recorder bc impl
  else [].

(* ---------- C12: rotation ---------- *)
Definition rot_list (M k : Z) (d : list Z) : list Z :=
  let n := Z.to_nat (6 * ((M - k mod M) mod M)) in skipn n d ++ firstn n d.

Definition rot_obs_payload (M k : Z) (p : list Z) : option (list Z) :=
  match parse_obs p with
  | None => None
  | Some o =>
    Some ([o_cycle o; o_living o; o_count o] ++ o_alive o
          ++ flat_map (fun q => Z.of_nat (length q) :: map (fun x => (x + k) mod M) q) (o_queues o)
          ++ [0])
  end.

Definition rot_rec (M k : Z) (r : list Z) : list Z :=
  match r with
  | 3 :: ret :: p => match rot_obs_payload M k p with Some p' => 3 :: ret :: p' | None => r end
  | 5 :: p => match rot_obs_payload M k p with Some p' => 5 :: p' | None => r end
  | 8 :: p => match rot_obs_payload M k p with Some p' => 8 :: p' | None => r end
  | 6 :: d => 6 :: rot_list M k d
  | 10 :: d => 10 :: rot_list M k d
  | 2 :: i :: st :: _ => [2; i; st]
  | _ => r
  end.
Fixpoint split_at_marker (rs : list (list Z)) (acc : list (list Z)) : list (list Z) * list (list Z) :=
  match rs with
  | [] => (acc, [])
  | [50] :: t => (acc, t)
  | r :: t => split_at_marker t (acc ++ [r])
  end.

Fixpoint first_mismatch (idx : Z) (a b : list (list Z)) : list (list Z) :=
  match a, b with
  | [], [] => []
  | x :: a', y :: b' => if zlist_eqb x y then first_mismatch (idx + 1) a' b' else [[40; idx]]
  | _, _ => [[40; idx]]
  end.

Definition mon_rot (l : list Z) (impl : list (list Z)) : list (list Z) :=
  match l with
  | k :: _ :: t =>
    match rd_bcase t with
    | None => []
    | Some (bc, _) =>
      let M := Z.of_N (c_size (bc_cfg bc)) in
      let '(ra, rb) := split_at_marker impl [] in
      first_mismatch 0 (map (rot_rec M k) ra) (map (rot_rec M 0) rb)
    end
  | _ => []
  end.

(* ---------- dispatch ---------- *)
Definition nonempty_or_ok (v : list (list Z)) : list (list Z) :=
  match v with [] => [[0; 0]] | _ => v end.

Definition mon_case_all (l : list Z) (impl : list (list Z)) : list (list Z) :=
  match l with
  | 1 :: t =>
    match rd_bcase t with
    | None => [[0; 0]]
    | Some (bc, _) => nonempty_or_ok (mon_inv bc impl ++ mon_local bc impl ++ mon_reports bc impl)
    end
  | 2 :: t => mon_api t impl
  | 4 :: t => nonempty_or_ok (mon_rot t impl)
  | 13 :: t => nonempty_or_ok (mon_cli t impl)
  | k :: _ => if (10 <=? k) && (k <=? 12) then nonempty_or_ok (mon_asm l impl) else [[0; 0]]
  | _ => [[0; 0]]
  end.

Definition spec_case2 (l : list Z) : list (list Z) :=
  match l with
  | 30 :: _ => spec_asm l
  | 32 :: _ => spec_asm l
  | 34 :: t => spec_cli t
  | _ => spec_case l
  end.
