(* Mars.v — the reference scheduler: the textbook MARS round-robin over
   Emi94.step.  Warriors are "not started", "alive with a task list" or
   "dead"; the battle is finished when a lone warrior is dead, when at most
   one of several is alive, or when the cycle limit is reached.
   Definitions only. *)
From GM Require Export Emi94.
Open Scope N_scope.

Record mcfg := mkMC { mc_M : N; mc_R : N; mc_W : N; mc_P : N; mc_C : N }.

Inductive mst := MAdded | MAlive | MDead.
Record mwar := mkMW { mw_code : list instr; mw_start : Z; mw_st : mst; mw_q : list N }.
Record mars := mkM { m_core : core; m_ws : list mwar; m_cycles : N }.

Definition m_alive (w : mwar) : bool := match mw_st w with MAlive => true | _ => false end.
Definition m_living (s : mars) : nat := length (filter m_alive (m_ws s)).

Definition m_finished (cfg : mcfg) (s : mars) : bool :=
  let n := length (m_ws s) in
  ((n =? 1)%nat && (m_living s =? 0)%nat) || ((1 <? n)%nat && (m_living s <=? 1)%nat)
  || (mc_C cfg <=? m_cycles s) || (n =? 0)%nat.

Fixpoint m_load (M : N) (c : core) (off : N) (code : list instr) : core :=
  match code with
  | [] => c
  | x :: t => m_load M (set c (off mod M) x) (off + 1) t
  end.

Fixpoint replace_nth {A} (l : list A) (i : nat) (x : A) : list A :=
  match l, i with
  | [], _ => []
  | _ :: t, O => x :: t
  | h :: t, S i' => h :: replace_nth t i' x
  end.

(* spawn warrior i at offset off: None when i does not exist or is already alive *)
Definition m_spawn (cfg : mcfg) (s : mars) (i : nat) (off : N) : option mars :=
  match nth_error (m_ws s) i with
  | None => None
  | Some w =>
    if m_alive w then None
    else
      let M := mc_M cfg in
      let entry := Z.to_N ((Z.of_N off + mw_start w) mod Z.of_N M)%Z in
      Some (mkM (m_load M (m_core s) off (mw_code w))
                (replace_nth (m_ws s) i (mkMW (mw_code w) (mw_start w) MAlive (enq (mc_P cfg) [] [entry])))
                (m_cycles s))
  end.

(* one executed task in the trace of a cycle: warrior, program counter,
   number of successor tasks the step produced, whether the warrior died *)
Record mev := mkEv { ev_w : nat; ev_pc : N; ev_succ : nat; ev_died : bool }.

(* the warriors i, i+1, ... of one cycle; stops early (true) when a death leaves
   exactly one of several alive *)
Fixpoint m_cycle_from (cfg : mcfg) (k : nat) (i : nat) (s : mars) (tr : list mev)
  : mars * bool * list mev :=
  match k with
  | O => (s, false, tr)
  | S k' =>
    match nth_error (m_ws s) i with
    | None => (s, false, tr)
    | Some w =>
      match mw_st w, mw_q w with
      | MAlive, pc :: q =>
        let '(c', succs) := step_core (mc_M cfg) (mc_R cfg) (mc_W cfg) (m_core s) pc in
        let q' := enq (mc_P cfg) q succs in
        match q' with
        | [] =>
          let s' := mkM c' (replace_nth (m_ws s) i (mkMW (mw_code w) (mw_start w) MDead [])) (m_cycles s) in
          let tr' := tr ++ [mkEv i pc (length succs) true] in
          if ((1 <? length (m_ws s))%nat && (m_living s' =? 1)%nat)%bool then (s', true, tr')
          else m_cycle_from cfg k' (S i) s' tr'
        | _ =>
          m_cycle_from cfg k' (S i)
            (mkM c' (replace_nth (m_ws s) i (mkMW (mw_code w) (mw_start w) MAlive q')) (m_cycles s))
            (tr ++ [mkEv i pc (length succs) false])
        end
      | _, _ => m_cycle_from cfg k' (S i) s tr
      end
    end
  end.

(* one cycle of an unfinished battle; the cycle is counted unless it was cut short *)
Definition m_cycle_tr (cfg : mcfg) (s : mars) : mars * list mev :=
  let '(s', early, tr) := m_cycle_from cfg (length (m_ws s)) 0 s [] in
  (if early then s' else mkM (m_core s') (m_ws s') (m_cycles s' + 1), tr).
Definition m_cycle (cfg : mcfg) (s : mars) : mars := fst (m_cycle_tr cfg s).

(* iterate until finished; fuel >= cycle limit + 1 always suffices *)
Fixpoint m_until_done (cfg : mcfg) (fuel : nat) (s : mars) : mars :=
  match fuel with
  | O => s
  | S f => if m_finished cfg s then s else m_until_done cfg f (m_cycle cfg s)
  end.
