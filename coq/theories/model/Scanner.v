(* Scanner.v — symbol_scanner.go over a bufTokenReader: the EQU symbols defined
   before the first FOR, and whether a FOR was seen.  Definitions only. *)
From GM Require Export Lexer.
Open Scope N_scope.

(* symbol tables are association lists in insertion order (Go maps; the
   iteration order only ever influences which error message is produced) *)
Definition symtab := list (text * list token).
Fixpoint sym_find (k : text) (m : symtab) : option (list token) :=
  match m with
  | [] => None
  | (k', v) :: t => if text_eqb k k' then Some v else sym_find k t
  end.
Definition sym_has (k : text) (m : symtab) : bool :=
  match sym_find k m with Some _ => true | None => false end.
(* m[k] = v *)
Fixpoint sym_set (k : text) (v : list token) (m : symtab) : symtab :=
  match m with
  | [] => [(k, v)]
  | (k', v') :: t => if text_eqb k k' then (k, v) :: t else (k', v') :: sym_set k v t
  end.

(* the reader shared by scanner, expander and parser: remaining tokens of a bufTokenReader *)
Record reader := mkRd { r_toks : list token; r_next : token; r_eof : bool }.

Definition is_terminal (t : token) : bool :=
  match t_typ t with tokEOF | tokError => true | _ => false end.

(* symbolScanner.next / forExpander.next *)
Definition rnext (r : reader) : reader :=
  if r_eof r then r
  else match r_toks r with
       | [] => mkRd [] (r_next r) true            (* NextToken error: atEOF, nextToken unchanged *)
       | t :: rest => mkRd rest t (is_terminal t)
       end.
Definition reader_init (toks : list token) : reader := rnext (mkRd toks (mkT tokError []) false).

Inductive sstate := SLine | SLabels | SConsumeLine | SEquValue.
Record scan := mkSc {
  sc_rd : reader; sc_labels : list text; sc_for : bool; sc_err : bool; sc_syms : symtab }.

Definition sc_with_rd (s : scan) (r : reader) := mkSc r (sc_labels s) (sc_for s) (sc_err s) (sc_syms s).

(* consume(nextState): next(); nil if the new nextToken is EOF *)
Definition sconsume (s : scan) (nxt : sstate) : scan * option sstate :=
  let s' := sc_with_rd s (rnext (sc_rd s)) in
  match t_typ (r_next (sc_rd s')) with tokEOF => (s', None) | _ => (s', Some nxt) end.

(* the loop of scanEquValue: collect the value (comments skipped) up to newline / EOF / error *)
Fixpoint equ_loop (f : nat) (r : reader) (buf : list token) : reader * list token :=
  match f with
  | O => (r, buf)
  | S f' =>
    match t_typ (r_next r) with
    | tokNewline | tokEOF | tokError => (r, buf)
    | tokComment => equ_loop f' (rnext r) buf
    | _ => equ_loop f' (rnext r) (buf ++ [r_next r])
    end
  end.

(* for each pending label: redefinition is an error, else symbols[label] = value *)
Fixpoint define_all (labels : list text) (v : list token) (m : symtab) : option symtab :=
  match labels with
  | [] => Some m
  | l :: t => if sym_has l m then None else define_all t v (sym_set l v m)
  end.

Definition scan_step (st : sstate) (s : scan) : scan * option sstate :=
  let nt := r_next (sc_rd s) in
  match st with
  | SLine =>
    match t_typ nt with
    | tokText => (mkSc (sc_rd s) [] (sc_for s) (sc_err s) (sc_syms s), Some SLabels)
    | _ => (s, Some SConsumeLine)
    end
  | SLabels =>
    match t_typ nt with
    | tokText =>
      if tok_is_pseudo nt then
        if lower_is (t_val nt) "equ" then sconsume s SEquValue
        else if lower_is (t_val nt) "for" then (mkSc (sc_rd s) (sc_labels s) true (sc_err s) (sc_syms s), None)
        else if lower_is (t_val nt) "end" then (s, None)
        else (s, Some SConsumeLine)
      else if tok_is_op nt then (s, Some SConsumeLine)
      else sconsume (mkSc (sc_rd s) (sc_labels s ++ [t_val nt]) (sc_for s) (sc_err s) (sc_syms s)) SLabels
    | tokComment | tokNewline | tokColon => sconsume s SLabels
    | tokEOF => (s, None)
    | _ => (s, Some SConsumeLine)
    end
  | SConsumeLine =>
    match t_typ nt with
    | tokNewline => sconsume s SLine
    | tokError | tokEOF => (s, None)
    | _ => sconsume s SConsumeLine
    end
  | SEquValue =>
    let '(r', v) := equ_loop (S (length (r_toks (sc_rd s)))) (sc_rd s) [] in
    match define_all (sc_labels s) v (sc_syms s) with
    | None => (mkSc r' (sc_labels s) (sc_for s) true (sc_syms s), None)
    | Some m => sconsume (mkSc r' [] (sc_for s) (sc_err s) m) SLine
    end
  end.

Fixpoint scan_run (f : nat) (st : sstate) (s : scan) : option scan :=
  match f with
  | O => None
  | S f' => match scan_step st s with
            | (s', None) => Some s'
            | (s', Some st') => scan_run f' st' s'
            end
  end.

(* ScanInput: None = out of fuel; Some (Some (symbols, forSeen)) or Some None for the error return *)
Definition scan_input (toks : list token) : option (option (symtab * bool)) :=
  match scan_run (3 * length toks + 6) SLine (mkSc (reader_init toks) [] false false []) with
  | None => None
  | Some s => Some (if sc_err s then None else Some (sc_syms s, sc_for s))
  end.
