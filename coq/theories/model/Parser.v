(* Parser.v — parser.go (with the readMetadata / end-of-input handling of the
   repaired tree): token list -> source lines and metadata.  Definitions only. *)
From GM Require Export ForExpand.
Open Scope N_scope.

Inductive ltype := lineEmpty | lineInstruction | linePseudoOp | lineComment.
Record sline := mkSL {
  sl_line : Z; sl_codeline : Z; sl_typ : ltype; sl_labels : list text; sl_op : text;
  sl_amode : text; sl_a : list token; sl_bmode : text; sl_b : list token;
  sl_comment : text; sl_newlines : Z }.
Definition empty_sline (line : Z) : sline := mkSL line 0 lineEmpty [] [] [] [] [] [] [] 0.

Record pmeta := mkPM { pm_name : text; pm_author : text; pm_strategy : text }.

Record parser := mkP {
  p_toks : list token; p_nt : token; p_eof : bool; p_line : Z; p_codeline : Z; p_err : bool;
  p_cur : sline; p_meta : pmeta; p_end : bool; p_lines : list sline;
  p_syms : list text; p_refs : list text }.

(* strings.TrimSpace on ASCII *)
Fixpoint drop_space (s : text) : text :=
  match s with c :: r => if is_space_a c then drop_space r else s | [] => [] end.
Definition trim_space (s : text) : text := rev (drop_space (rev (drop_space s))).

Fixpoint has_prefix (p s : text) : bool :=
  match p, s with
  | [], _ => true
  | x :: p', y :: s' => (x =? y) && has_prefix p' s'
  | _, [] => false
  end.

Definition read_metadata (m : pmeta) (c : text) : pmeta :=
  if has_prefix (s2t ";name") c then mkPM (trim_space (skipn 5 c)) (pm_author m) (pm_strategy m)
  else if has_prefix (s2t ";author") c then mkPM (pm_name m) (trim_space (skipn 7 c)) (pm_strategy m)
  else if has_prefix (s2t ";strategy") c then
    if (10 <? length c)%nat then mkPM (pm_name m) (pm_author m) (pm_strategy m ++ skipn 10 c ++ [10])
    else m
  else m.

(* record update helpers *)
Definition p_upd (p : parser) (toks : list token) (nt : token) (eof : bool) (line : Z) : parser :=
  mkP toks nt eof line (p_codeline p) (p_err p) (p_cur p) (p_meta p) (p_end p) (p_lines p) (p_syms p) (p_refs p).
Definition p_set_cur (p : parser) (c : sline) : parser :=
  mkP (p_toks p) (p_nt p) (p_eof p) (p_line p) (p_codeline p) (p_err p) c (p_meta p) (p_end p) (p_lines p) (p_syms p) (p_refs p).
Definition p_fail (p : parser) : parser :=
  mkP (p_toks p) (p_nt p) (p_eof p) (p_line p) (p_codeline p) true (p_cur p) (p_meta p) (p_end p) (p_lines p) (p_syms p) (p_refs p).
Definition p_push_line (p : parser) : parser :=
  mkP (p_toks p) (p_nt p) (p_eof p) (p_line p) (p_codeline p) (p_err p) (p_cur p) (p_meta p) (p_end p)
      (p_lines p ++ [p_cur p]) (p_syms p) (p_refs p).
Definition p_set_meta (p : parser) (m : pmeta) : parser :=
  mkP (p_toks p) (p_nt p) (p_eof p) (p_line p) (p_codeline p) (p_err p) (p_cur p) m (p_end p) (p_lines p) (p_syms p) (p_refs p).

(* a comment met between a label and its instruction: an ;assert among them is kept as a comment line of its own, so
   that the compiler evaluates it (other comments only feed the metadata, as before) *)
Definition p_label_comment (p : parser) (c : text) : parser :=
  mkP (p_toks p) (p_nt p) (p_eof p) (p_line p) (p_codeline p) (p_err p) (p_cur p) (read_metadata (p_meta p) c) (p_end p)
      (if has_prefix (s2t ";assert") c then p_lines p ++ [mkSL (p_line p) 0 lineComment [] [] [] [] [] [] c 0] else p_lines p)
      (p_syms p) (p_refs p).

(* next(): the previous nextToken is returned by Go; callers here only need the new state *)
Definition pnext (p : parser) : parser :=
  if p_eof p then p
  else match p_toks p with
       | [] => p_upd p [] (p_nt p) true (p_line p)
       | t :: rest =>
         p_upd p rest t false (match t_typ (p_nt p) with tokNewline => (p_line p + 1)%Z | _ => p_line p end)
       end.

Definition cur_newline (p : parser) : parser :=
  let c := p_cur p in
  p_set_cur p (mkSL (sl_line c) (sl_codeline c) (sl_typ c) (sl_labels c) (sl_op c) (sl_amode c) (sl_a c)
                    (sl_bmode c) (sl_b c) (sl_comment c) (sl_newlines c + 1)).
Definition cur_set (p : parser) (f : sline -> sline) : parser := p_set_cur p (f (p_cur p)).

Inductive pstate :=
  PLine | PEmptyLines | PComment | PLabels | PColon | PPseudoOp | PPseudoExpr | POp
| PModeA | PExprA | PComma | PModeB | PExprB.

(* consumeEmitLine(nextState) *)
Definition consume_emit_line (p : parser) (nxt : pstate) : parser * option pstate :=
  let p1 := pnext p in
  match t_typ (p_nt p1) with
  | tokEOF => (p_push_line p1, None)
  | tokNewline => (pnext (p_push_line (cur_newline p1)), Some nxt)
  | _ => (p_fail p1, None)
  end.

(* the expression-collecting loop shared by parsePseudoExpr / parseExprA / parseExprB *)
Fixpoint expr_loop (f : nat) (p : parser) (acc : list token) (refs : list text) : parser * list token * list text :=
  match f with
  | O => (p, acc, refs)
  | S f' =>
    if tok_is_expr_term (p_nt p) then
      let refs' := match t_typ (p_nt p) with
                   | tokText => if mem_text (t_val (p_nt p)) refs then refs else refs ++ [t_val (p_nt p)]
                   | _ => refs end in
      expr_loop f' (pnext p) (acc ++ [p_nt p]) refs'
    else (p, acc, refs)
  end.
Definition p_set_refs (p : parser) (r : list text) : parser :=
  mkP (p_toks p) (p_nt p) (p_eof p) (p_line p) (p_codeline p) (p_err p) (p_cur p) (p_meta p) (p_end p) (p_lines p) (p_syms p) r.

Definition set_a (c : sline) (a : list token) : sline :=
  mkSL (sl_line c) (sl_codeline c) (sl_typ c) (sl_labels c) (sl_op c) (sl_amode c) a (sl_bmode c) (sl_b c) (sl_comment c) (sl_newlines c).
Definition set_b (c : sline) (b : list token) : sline :=
  mkSL (sl_line c) (sl_codeline c) (sl_typ c) (sl_labels c) (sl_op c) (sl_amode c) (sl_a c) (sl_bmode c) b (sl_comment c) (sl_newlines c).

Definition parse_step (st : pstate) (p : parser) : parser * option pstate :=
  let nt := p_nt p in
  match st with
  | PLine =>
    if p_end p then (p, None)
    else
      let p0 := p_set_cur p (empty_sline (p_line p)) in
      match t_typ nt with
      | tokNewline => (p0, Some PEmptyLines)
      | tokComment =>
        let p1 := p_set_meta p0 (read_metadata (p_meta p0) (t_val nt)) in
        (cur_set p1 (fun c => mkSL (sl_line c) 0 lineComment [] [] [] [] [] [] [] 0), Some PComment)
      | tokText => (p0, Some PLabels)
      | tokEOF => (p0, None)
      | _ => (p_fail p0, None)
      end
  | PEmptyLines =>
    (fix go (f : nat) (p : parser) : parser * option pstate :=
       match f with
       | O => (p, None)
       | S f' => match t_typ (p_nt p) with
                 | tokNewline => go f' (pnext (cur_newline p))
                 | _ => (p_push_line p, Some PLine)
                 end
       end) (S (S (length (p_toks p)))) p
  | PComment =>
    consume_emit_line (cur_set p (fun c => mkSL (sl_line c) (sl_codeline c) (sl_typ c) (sl_labels c) (sl_op c)
                                      (sl_amode c) (sl_a c) (sl_bmode c) (sl_b c) (t_val nt) (sl_newlines c))) PLine
  | PLabels =>
    match t_typ nt with
    | tokNewline => (pnext p, Some PLabels)
    | tokComment => (pnext (p_label_comment p (t_val nt)), Some PLabels)
    | _ =>
      if tok_is_op nt then (p, Some (if tok_is_pseudo nt then PPseudoOp else POp))
      else match t_typ nt with
           | tokColon => (p, Some PColon)
           | _ =>
             let redefined := mem_text (t_val nt) (p_syms p) in
             let p1 := mkP (p_toks p) (p_nt p) (p_eof p) (p_line p) (p_codeline p) (p_err p || redefined)
                           (p_cur p) (p_meta p) (p_end p) (p_lines p)
                           (if redefined then p_syms p else p_syms p ++ [t_val nt]) (p_refs p) in
             let p2 := cur_set p1 (fun c => mkSL (sl_line c) (sl_codeline c) (sl_typ c) (sl_labels c ++ [t_val nt])
                                                 (sl_op c) (sl_amode c) (sl_a c) (sl_bmode c) (sl_b c) (sl_comment c) (sl_newlines c)) in
             let p3 := pnext p2 in
             (* the token just consumed must have been text *)
             match t_typ nt with
             | tokText => (p3, Some PLabels)
             | _ => (p_fail p3, None)
             end
           end
    end
  | PColon =>
    let p1 := (fix go (f : nat) (p : parser) : parser :=
                 match f with
                 | O => p
                 | S f' => match t_typ (p_nt p) with tokColon => go f' (pnext p) | _ => p end
                 end) (S (S (length (p_toks p)))) p in
    let nt1 := p_nt p1 in
    match t_typ nt1 with
    | tokNewline => (pnext p1, Some PColon)
    | tokComment => (pnext (p_label_comment p1 (t_val nt1)), Some PColon)
    | _ =>
      if tok_is_op nt1 then (p1, Some (if tok_is_pseudo nt1 then PPseudoOp else POp))
      else match t_typ nt1 with
           | tokText => (p1, Some PLabels)
           | _ => (p_fail p1, None)
           end
    end
  | PPseudoOp =>
    let p1 := cur_set p (fun c => mkSL (sl_line c) (sl_codeline c) linePseudoOp (sl_labels c) (t_val nt)
                                       (sl_amode c) (sl_a c) (sl_bmode c) (sl_b c) (sl_comment c) (sl_newlines c)) in
    let p2 := mkP (p_toks p1) (p_nt p1) (p_eof p1) (p_line p1) (p_codeline p1) (p_err p1) (p_cur p1) (p_meta p1)
                  (p_end p1 || lower_is (t_val nt) "end") (p_lines p1) (p_syms p1) (p_refs p1) in
    let p3 := pnext p2 in
    let nt3 := p_nt p3 in
    if tok_is_expr_term nt3 then (p3, Some PPseudoExpr)
    else match t_typ nt3 with
         | tokComment => (p3, Some PComment)
         | tokEOF =>
           if tok_no_operands_ok nt then (p_push_line (cur_newline (pnext p3)), None)
           else (p_fail p3, None)
         | tokNewline =>
           if tok_no_operands_ok nt then (p_push_line (cur_newline (pnext p3)), Some PLine)
           else (p_fail p3, None)
         | _ => (p_fail p3, None)
         end
  | PPseudoExpr =>
    let '(p1, acc, refs) := expr_loop (S (S (length (p_toks p)))) p (sl_a (p_cur p)) (p_refs p) in
    let p2 := p_set_refs (cur_set p1 (fun c => set_a c acc)) refs in
    match t_typ (p_nt p2) with
    | tokComment => (p2, Some PComment)
    | tokNewline => (p_push_line (cur_newline (pnext p2)), Some PLine)
    | tokEOF => (p_push_line p2, Some PLine)
    | _ => (p_fail p2, None)
    end
  | POp =>
    let p1 := cur_set p (fun c => mkSL (sl_line c) (p_codeline p) lineInstruction (sl_labels c) (t_val nt)
                                       (sl_amode c) (sl_a c) (sl_bmode c) (sl_b c) (sl_comment c) (sl_newlines c)) in
    let p2 := mkP (p_toks p1) (p_nt p1) (p_eof p1) (p_line p1) (p_codeline p1 + 1)%Z (p_err p1) (p_cur p1) (p_meta p1)
                  (p_end p1) (p_lines p1) (p_syms p1) (p_refs p1) in
    let p3 := pnext p2 in
    let nt3 := p_nt p3 in
    if tok_is_amode nt3 then (p3, Some PModeA)
    else if tok_is_expr_term nt3 && negb (val_is nt3 42) then (p3, Some PExprA)
    else match t_typ nt3 with
         | tokSymbol => if val_is nt3 42 then (p3, Some PModeA) else (p3, Some PExprA)
         | _ => (p_fail p3, None)
         end
  | PModeA =>
    let p1 := pnext (cur_set p (fun c => mkSL (sl_line c) (sl_codeline c) (sl_typ c) (sl_labels c) (sl_op c)
                                         (t_val nt) (sl_a c) (sl_bmode c) (sl_b c) (sl_comment c) (sl_newlines c))) in
    if tok_is_expr_term (p_nt p1) then (p1, Some PExprA) else (p_fail p1, None)
  | PExprA =>
    let '(p1, acc, refs) := expr_loop (S (S (length (p_toks p)))) p (sl_a (p_cur p)) (p_refs p) in
    let p2 := p_set_refs (cur_set p1 (fun c => set_a c acc)) refs in
    match t_typ (p_nt p2) with
    | tokComment => (p2, Some PComment)
    | tokComma => (p2, Some PComma)
    | tokNewline | tokEOF => (p_push_line p2, Some PLine)
    | _ => (p_fail p2, None)
    end
  | PComma =>
    let p1 := pnext p in
    if tok_is_amode (p_nt p1) then (p1, Some PModeB)
    else if tok_is_expr_term (p_nt p1) then (p1, Some PExprB)
    else (p_fail p1, None)
  | PModeB =>
    let p1 := pnext (cur_set p (fun c => mkSL (sl_line c) (sl_codeline c) (sl_typ c) (sl_labels c) (sl_op c)
                                         (sl_amode c) (sl_a c) (t_val nt) (sl_b c) (sl_comment c) (sl_newlines c))) in
    if tok_is_expr_term (p_nt p1) then (p1, Some PExprB) else (p_fail p1, None)
  | PExprB =>
    let '(p1, acc, refs) := expr_loop (S (S (length (p_toks p)))) p (sl_b (p_cur p)) (p_refs p) in
    let p2 := p_set_refs (cur_set p1 (fun c => set_b c acc)) refs in
    match t_typ (p_nt p2) with
    | tokComment => (p2, Some PComment)
    | tokNewline => (pnext (p_push_line (cur_newline p2)), Some PLine)
    | tokEOF => (p_push_line p2, Some PLine)
    | _ => (p_fail p2, None)
    end
  end.

Fixpoint parse_run (f : nat) (st : pstate) (p : parser) : option parser :=
  match f with
  | O => None
  | S f' => match parse_step st p with
            | (p', None) => Some p'
            | (p', Some st') => parse_run f' st' p'
            end
  end.

Definition predefined : list text :=
  [s2t "CORESIZE"; s2t "MAXLENGTH"; s2t "MAXPROCESSES"; s2t "MINDISTANCE"].

(* parse: None = out of fuel; Some None = error; Some (Some (lines, metadata)) *)
Definition parse (toks : list token) : option (option (list sline * pmeta)) :=
  let p0 := pnext (mkP toks (mkT tokError []) false 1 0 false (empty_sline 1) (mkPM [] [] []) false [] predefined []) in
  match parse_run (4 * length toks + 10) PLine p0 with
  | None => None
  | Some p =>
    if p_err p then Some None
    else if forallb (fun r => mem_text r (p_syms p)) (p_refs p) then Some (Some (p_lines p, p_meta p))
    else Some None
  end.
