(* ExprEval.v — expr.go: combineSigns, flipDoubleNegatives, evaluateExpression
   (with go/types.Eval modelled on the fragment {decimal literals, + - * / %,
   unary signs, parentheses} by the reference evaluator of ExprSpec),
   buildReferenceGraph / graphContainsCycle (graph.go), expandExpressions and
   ExpandAndEvaluate.  Definitions only. *)
From GM Require Export Scanner ExprSpec.
Open Scope N_scope.

Definition val_is (t : token) (c : N) : bool := text_eqb (t_val t) [c].
Definition minus_tok := mkT tokSymbol [45].
Definition plus_tok := mkT tokSymbol [43].

(* combineSigns: after a symbol token a run of + / - is swallowed and replaced
   by one '-' when it holds an odd number of '-' *)
Fixpoint swallow (l : list token) (neg : bool) : bool * list token :=
  match l with
  | t :: r => if val_is t 45 then swallow r (negb neg)
              else if val_is t 43 then swallow r neg
              else (neg, l)
  | [] => (neg, [])
  end.
Fixpoint combine (f : nat) (last_sym : bool) (l : list token) : list token :=
  match f with
  | O => []
  | S f' =>
    match l with
    | [] => []
    | t :: r =>
      if last_sym then
        let '(neg, rest) := swallow l false in
        (if neg then [minus_tok] else []) ++
        match rest with
        | [] => []
        | x :: rest' => x :: combine f' (ttype_eqb (t_typ x) tokSymbol) rest'
        end
      else t :: combine f' (ttype_eqb (t_typ t) tokSymbol) r
    end
  end.
Definition combine_signs (l : list token) : list token := combine (S (length l)) false l.

(* flipDoubleNegatives: '-' '-' becomes '+', scanning left to right *)
Fixpoint flip (f : nat) (l : list token) : list token :=
  match f with
  | O => []
  | S f' =>
    match l with
    | a :: b :: r => if val_is a 45 && val_is b 45 then plus_tok :: flip f' r else a :: flip f' (b :: r)
    | _ => l
    end
  end.
Definition flip_double_negatives (l : list token) : list token := flip (S (length l)) l.

Inductive eres := EOk (v : Z) | EErr | EUnmodelled.

(* token -> expression token of the modelled fragment *)
Definition to_etok (t : token) : option etok :=
  match t_typ t with
  | tokNumber => match parse_digits (t_val t) with Some n => Some (ENum (Z.of_N n)) | None => None end
  | tokParenL => Some ELp
  | tokParenR => Some ERp
  | tokSymbol =>
    match t_val t with
    | [43] => Some (EOp OAdd) | [45] => Some (EOp OSub) | [42] => Some (EOp OMul)
    | [47] => Some (EOp ODiv) | [37] => Some (EOp OMod) | _ => None
    end
  | _ => None
  end.
Fixpoint to_etoks (l : list token) : option (list etok) :=
  match l with
  | [] => Some []
  | t :: r => match to_etok t, to_etoks r with
              | Some e, Some er => Some (e :: er)
              | _, _ => None
              end
  end.

(* adjacent tokens that Go's scanner would merge once the texts are concatenated *)
Inductive adj := AdjOk | AdjErr | AdjUnknown.
Fixpoint adjacency (l : list etok) : adj :=
  match l with
  | ENum _ :: ((ENum _ :: _) as r) => AdjUnknown
  | EOp ODiv :: ((EOp ODiv :: _) as r) => AdjUnknown
  | EOp ODiv :: ((EOp OMul :: _) as r) => AdjUnknown
  | EOp OAdd :: ((EOp OAdd :: _) as r) => AdjErr       (* "++" *)
  | EOp OSub :: ((EOp OSub :: _) as r) => AdjErr       (* "--" *)
  | _ :: r => adjacency r
  | [] => AdjOk
  end.

Definition int32_ok (v : Z) : bool := ((-2147483648 <=? v) && (v <=? 2147483647))%Z.

(* types.Eval on the concatenated token texts, then ParseInt(…, 10, 32) *)
Definition go_eval (l : list token) : eres :=
  match to_etoks l with
  | None => EUnmodelled
  | Some el =>
    match adjacency el with
    | AdjUnknown => EUnmodelled
    | AdjErr => EErr
    | AdjOk => match eval_tokens el with
               | Some v => if int32_ok v then EOk v else EErr
               | None => EErr
               end
    end
  end.

Definition evaluate_expression (l : list token) : eres :=
  if existsb (fun t => ttype_eqb (t_typ t) tokText || negb (tok_is_expr_term t)) l then EErr
  else go_eval (flip_double_negatives (combine_signs l)).

(* ---------- graph.go ---------- *)
Definition graph := list (text * list text).
Fixpoint g_find (k : text) (g : graph) : option (list text) :=
  match g with
  | [] => None
  | (k', v) :: t => if text_eqb k k' then Some v else g_find k t
  end.
Definition mem_text (x : text) (l : list text) : bool := existsb (text_eqb x) l.

Definition key_refs (values : symtab) (toks : list token) : list text :=
  fold_left (fun refs t =>
               match t_typ t with
               | tokText => if sym_has (t_val t) values && negb (mem_text (t_val t) refs)
                            then refs ++ [t_val t] else refs
               | _ => refs
               end) toks [].
Definition build_graph (values : symtab) : graph :=
  flat_map (fun kv => match snd kv with
                      | [] => []
                      | toks => [(fst kv, key_refs values toks)]
                      end) values.

(* nodeContainsCycle: depth-first along the current path *)
Fixpoint node_cycle (f : nat) (g : graph) (node : text) (visited : list text) : option bool :=
  match f with
  | O => None
  | S f' =>
    match g_find node g with
    | None => Some false
    | Some refs =>
      (fix go (refs : list text) : option bool :=
         match refs with
         | [] => Some false
         | r :: t =>
           if mem_text r (visited ++ [node]) then Some true
           else match node_cycle f' g r (visited ++ [node]) with
                | None => None
                | Some true => Some true
                | Some false => go t
                end
         end) refs
    end
  end.
Definition graph_has_cycle (g : graph) : option bool :=
  (fix go (ks : graph) : option bool :=
     match ks with
     | [] => Some false
     | (k, _) :: t => match node_cycle (S (S (length g))) g k [] with
                      | None => None
                      | Some true => Some true
                      | Some false => go t
                      end
     end) g.

(* expandValue / expandExpressions: EQU values with the EQU names inside them substituted *)
Definition subst_resolved (resolved : symtab) (value : list token) : list token :=
  flat_map (fun t => match t_typ t with
                     | tokText => match sym_find (t_val t) resolved with
                                  | Some v => v
                                  | None => [t]
                                  end
                     | _ => [t]
                     end) value.
Fixpoint expand_value (f : nat) (values : symtab) (g : graph) (key : text) (resolved : symtab)
  : option (option symtab) :=            (* None = out of fuel; Some None = error *)
  match f with
  | O => None
  | S f' =>
    match sym_find key values with
    | None => Some None
    | Some value =>
      if sym_has key resolved then Some (Some resolved)
      else
        let deps := match g_find key g with Some d => d | None => [] end in
        match (fix go (deps : list text) (res : symtab) : option (option symtab) :=
                 match deps with
                 | [] => Some (Some res)
                 | d :: t => if sym_has d res then go t res
                             else match expand_value f' values g d res with
                                  | Some (Some res') => go t res'
                                  | x => x
                                  end
                 end) deps resolved with
        | Some (Some res) => Some (Some (sym_set key (subst_resolved res value) res))
        | x => x
        end
    end
  end.
Definition expand_expressions (values : symtab) (g : graph) : option (option symtab) :=
  (fix go (ks : symtab) (res : symtab) : option (option symtab) :=
     match ks with
     | [] => Some (Some res)
     | (k, _) :: t => if sym_has k res then go t res
                      else match expand_value (S (S (length values))) values g k res with
                           | Some (Some res') => go t res'
                           | x => x
                           end
     end) values [].

(* ExpandAndEvaluate (the FOR count): None = out of fuel *)
Definition expand_and_evaluate (expr : list token) (symbols : symtab) : option eres :=
  let g := build_graph symbols in
  match graph_has_cycle g with
  | None => None
  | Some true => Some EErr
  | Some false =>
    match expand_expressions symbols g with
    | None => None
    | Some None => Some EErr
    | Some (Some resolved) => Some (evaluate_expression (subst_resolved resolved expr))
    end
  end.
