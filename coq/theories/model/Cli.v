(* Cli.v — cmd/gmars/main.go: flags -> configuration, the round loop (a fresh
   simulator per round, warrior 1 at 0, warrior 2 at the fixed or the supplied
   random position), the tally and the two output lines.  math/rand is a
   parameter: the list of positions drawn.  Definitions only. *)
From GM Require Export Compile Listing.
Open Scope N_scope.

Record flags := mkFl {
  fl_88 : bool; fl_s : Z; fl_p : Z; fl_c : Z; fl_l : Z; fl_F : Z; fl_r : Z; fl_preset : N }.

(* config.go presets: 0 = no preset; 1 "88", 2 "icws", 3 "nop94", 4 "noptiny", 5 "nop256", 6 "nopnano" *)
Definition preset_config (k : N) : option config :=
  match k with
  | 1 => Some (mkCfg 0 8000 8000 80000 8000 8000 100 100)
  | 2 => Some (mkCfg 0 8192 8000 100000 8192 8192 300 100)
  | 3 => Some (mkCfg 2 8000 8000 80000 8000 8000 100 100)
  | 4 => Some (mkCfg 1 800 800 8000 800 800 20 20)
  | 5 => Some (mkCfg 1 256 60 2560 800 800 10 10)
  | 6 => Some (mkCfg 1 80 80 800 80 80 5 5)
  | _ => None
  end.

(* Address(int): negative flag values wrap around *)
Definition cli_config (f : flags) : config :=
  match fl_preset f with
  | 0 => let a := z2u64 in
         mkCfg (if fl_88 f then 0 else 2) (a (fl_s f)) (a (fl_p f)) (a (fl_c f)) (a (fl_s f)) (a (fl_s f))
               (a (fl_l f)) (a (fl_l f))
  | k => match preset_config k with Some c => c | None => mkCfg 2 0 0 0 0 0 0 0 end
  end.

(* one round: result flags of warrior 1 and 2 (None = the run did not return) *)
Definition cli_round (cfg : config) (w1 : list instr * Z) (w2 : option (list instr * Z)) (pos2 : Z)
  : option (bool * bool) :=
  match new_sim cfg with
  | None => None
  | Some s0 =>
    let s1 := add_warrior s0 (fst w1) (snd w1) in
    match spawn_warrior s1 0 0 with
    | Ok (inl (s2, _)) =>
      let s3 := match w2 with
                | None => Some s2
                | Some w => match spawn_warrior (add_warrior s2 (fst w) (snd w)) 1 (z2u64 pos2) with
                            | Ok (inl (s', _)) => Some s'
                            | _ => None
                            end
                end in
      match s3 with
      | None => None
      | Some s =>
        match run (S (S (N.to_nat (s_cycles s)))) s with
        | RunOk s' _ =>
          let al i := match nth_error (s_ws s') i with Some w => alive w | None => false end in
          Some (al O, al 1%nat)
        | _ => None
        end
      end
    | _ => None
    end
  end.

Record tally := mkTa { t_w1win : Z; t_w1tie : Z; t_w2win : Z; t_w2tie : Z }.
Definition tally_round (two : bool) (t : tally) (r : bool * bool) : tally :=
  let '(a1, a2) := r in
  if two then
    mkTa (t_w1win t + (if a1 && negb a2 then 1 else 0)) (t_w1tie t + (if a1 && a2 then 1 else 0))
         (t_w2win t + (if a2 && negb a1 then 1 else 0)) (t_w2tie t + (if a2 && a1 then 1 else 0))
  else mkTa (t_w1win t + (if a1 then 1 else 0)) (t_w1tie t) (t_w2win t) (t_w2tie t).

Fixpoint cli_rounds (cfg : config) (w1 : list instr * Z) (w2 : option (list instr * Z))
         (positions : list Z) (t : tally) : option tally :=
  match positions with
  | [] => Some t
  | p :: rest => match cli_round cfg w1 w2 p with
                 | None => None
                 | Some r => cli_rounds cfg w1 w2 rest
                                        (tally_round (match w2 with Some _ => true | None => false end) t r)
                 end
  end.

Definition cli_output (two : bool) (t : tally) : text :=
  dec_of_Z (t_w1win t) ++ [32] ++ dec_of_Z (t_w1tie t) ++ [10]
  ++ (if two then dec_of_Z (t_w2win t) ++ [32] ++ dec_of_Z (t_w2tie t) ++ [10] else []).

(* the positions of warrior 2 when -F is given: the same every round *)
Definition fixed_positions (f : flags) : list Z := repeat (fl_F f) (Z.to_nat (fl_r f)).

Inductive cli_res := CliOut (exit : Z) (out : text) | CliHang.

(* both files assemble under the configuration, then the rounds are played *)
Definition cli_main (f : flags) (t1 : text) (t2 : option text) (positions : list Z) : cli_res :=
  if (0 <? fl_preset f) && negb (match preset_config (fl_preset f) with Some _ => true | None => false end)
  then CliOut 1 []
  else
  let cfg := cli_config f in
  match compile_warrior cfg t1 with
  | COk c1 s1 _ =>
    let w2r := match t2 with
               | None => Some None
               | Some t => match compile_warrior cfg t with
                           | COk c2 s2 _ => Some (Some (c2, s2))
                           | _ => None
                           end
               end in
    match w2r with
    | None => CliOut 1 []
    | Some w2 =>
      match cli_rounds cfg (c1, s1) w2 positions (mkTa 0 0 0 0) with
      | Some t => CliOut 0 (cli_output (match w2 with Some _ => true | None => false end) t)
      | None => CliHang
      end
    end
  | _ => CliOut 1 []
  end.
