(* Token.v — token.go: token types and the predicates on tokens; asm.go's
   mnemonic tables.  Definitions only. *)
From GM Require Export Base Text.
Open Scope N_scope.
Local Open Scope string_scope.

Inductive ttype :=
  tokError | tokText | tokNumber | tokSymbol | tokComma | tokColon | tokParenL | tokParenR
| tokComment | tokNewline | tokInvalid | tokEOF.
Record token := mkT { t_typ : ttype; t_val : text }.

Definition ttype_num (t : ttype) : N :=
  match t with
  | tokError => 0 | tokText => 1 | tokNumber => 2 | tokSymbol => 3 | tokComma => 4 | tokColon => 5
  | tokParenL => 6 | tokParenR => 7 | tokComment => 8 | tokNewline => 9 | tokInvalid => 10 | tokEOF => 11
  end.
Definition ttype_eqb (a b : ttype) : bool := (ttype_num a =? ttype_num b)%N.

Definition tok_eqb (a b : token) : bool := ttype_eqb (t_typ a) (t_typ b) && text_eqb (t_val a) (t_val b).

(* getOpCode on the lower-cased mnemonic *)
Definition opcode_of_text (s : text) : option opcode :=
  let l := lower s in
  let is (x : string) := text_eqb l (s2t x) in
  if is "dat" then Some DAT else if is "mov" then Some MOV else if is "add" then Some ADD
  else if is "sub" then Some SUB else if is "mul" then Some MUL else if is "div" then Some DIV
  else if is "mod" then Some MOD else if is "jmp" then Some JMP else if is "jmz" then Some JMZ
  else if is "jmn" then Some JMN else if is "djn" then Some DJN else if is "cmp" then Some CMP
  else if is "seq" then Some SEQ else if is "slt" then Some SLT else if is "sne" then Some SNE
  else if is "spl" then Some SPL else if is "nop" then Some NOP else None.
(* getOpCode88 *)
Definition opcode88_of_text (s : text) : option opcode :=
  match opcode_of_text s with
  | Some (MUL | DIV | MOD | SEQ | SNE | NOP) => None
  | x => x
  end.
(* getOpMode *)
Definition opmode_of_text (s : text) : option opmode :=
  let l := lower s in
  let is (x : string) := text_eqb l (s2t x) in
  if is "a" then Some mA else if is "b" then Some mB else if is "ab" then Some mAB
  else if is "ba" then Some mBA else if is "i" then Some mI else if is "f" then Some mF
  else if is "x" then Some mX else None.
(* getAddressMode (case-sensitive single characters) *)
Definition amode_of_text (s : text) : option amode :=
  match s with
  | [35] => Some IMMEDIATE | [36] => Some DIRECT | [42] => Some A_INDIRECT | [64] => Some B_INDIRECT
  | [123] => Some A_DECREMENT | [60] => Some B_DECREMENT | [125] => Some A_INCREMENT
  | [62] => Some B_INCREMENT | _ => None
  end.
Definition amode88_of_text (s : text) : option amode :=
  match amode_of_text s with
  | Some (IMMEDIATE | DIRECT | B_INDIRECT | B_DECREMENT) as x => x
  | _ => None
  end.

Definition is_pseudo_text (s : text) : bool :=
  let l := lower s in
  text_eqb l (s2t "end") || text_eqb l (s2t "equ") || text_eqb l (s2t "org")
  || text_eqb l (s2t "for") || text_eqb l (s2t "rof").
Definition lower_is (s : text) (x : string) : bool := text_eqb (lower s) (s2t x).
Arguments lower_is s x%string.

(* token.IsPseudoOp does not look at the type *)
Definition tok_is_pseudo (t : token) : bool := is_pseudo_text (t_val t).
Definition tok_is_op (t : token) : bool :=
  match t_typ t with
  | tokText =>
    existsb (N.eqb 46) (t_val t)
    || (match opcode_of_text (t_val t) with Some _ => true | None => false end)
    || tok_is_pseudo t
  | _ => false
  end.
Definition tok_is_amode (t : token) : bool :=
  match t_typ t with
  | tokSymbol => match amode_of_text (t_val t) with Some _ => true | None => false end
  | _ => false
  end.
Definition tok_no_operands_ok (t : token) : bool := lower_is (t_val t) "end" || lower_is (t_val t) "rof".
(* IsExpressionTerm: the first test already accepts every symbol *)
Definition tok_is_expr_term (t : token) : bool :=
  match t_typ t with
  | tokSymbol | tokNumber | tokText | tokParenL | tokParenR => true
  | _ => false
  end.

(* asm.go String() methods *)
Definition opcode_name (o : opcode) : text :=
  s2t (match o with
       | DAT => "DAT" | MOV => "MOV" | ADD => "ADD" | SUB => "SUB" | MUL => "MUL" | DIV => "DIV"
       | MOD => "MOD" | CMP => "CMP" | SEQ => "SEQ" | SNE => "SNE" | SLT => "SLT" | JMP => "JMP"
       | JMZ => "JMZ" | JMN => "JMN" | DJN => "DJN" | SPL => "SPL" | NOP => "NOP" end).
Definition opmode_name (m : opmode) : text :=
  s2t (match m with mA => "A" | mB => "B" | mAB => "AB" | mBA => "BA" | mF => "F" | mX => "X" | mI => "I" end).
Definition amode_char (m : amode) : N :=
  match m with
  | IMMEDIATE => 35 | DIRECT => 36 | A_INDIRECT => 42 | B_INDIRECT => 64
  | A_DECREMENT => 123 | B_DECREMENT => 60 | A_INCREMENT => 125 | B_INCREMENT => 62
  end.
