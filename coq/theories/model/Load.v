(* Load.v — load.go of the repaired tree: parseLoadFile94 / parseLoadFile88 as
   functions from the bytes of the file.  Only the code, the entry point and the
   presence of an error are modelled (not the metadata strings).
   Definitions only. *)
From GM Require Export Compile.
Open Scope N_scope.

(* bufio ReadString('\n') until the input ends: the lines, each with its newline
   when it has one; a final line without newline is included *)
Fixpoint read_lines (s : text) (cur : text) : list text :=
  match s with
  | [] => match cur with [] => [] | _ => [cur] end
  | 10 :: r => (cur ++ [10]) :: read_lines r []
  | c :: r => read_lines r (cur ++ [c])
  end.

(* strings.Fields on ASCII white space *)
Fixpoint fields_go (s : text) (cur : text) : list text :=
  match s with
  | [] => match cur with [] => [] | _ => [cur] end
  | c :: r => if is_space_a c
              then match cur with [] => fields_go r [] | _ => cur :: fields_go r [] end
              else fields_go r (cur ++ [c])
  end.
Definition fields (s : text) : list text := fields_go s [].

Fixpoint before_semicolon (s : text) : text :=
  match s with [] => [] | 59 :: _ => [] | c :: r => c :: before_semicolon r end.
Definition has_char (c : N) (s : text) : bool := existsb (N.eqb c) s.
Definition commas_to_spaces (s : text) : text := map (fun c => if c =? 44 then 32 else c) s.

(* asm.go parseAddress *)
Definition parse_address (s : text) (m : N) : option N :=
  match parse_int 64 s with
  | None => None
  | Some v => Some (norm_field v (Z.of_N m))
  end.

Inductive lres := LOk (code : list instr) (start : Z) | LErr.

Record lstate94 := mkLS { ls_code : list instr; ls_start : Z }.

(* one significant line: Some (inl st') continue, Some (inr _) stop (end; with the entry point an
   "end n" line carries), None error *)
Definition line94 (m : N) (st : lstate94) (raw : text) : option (lstate94 + option Z) :=
  match raw with
  | [] => Some (inl st)
  | 59 :: _ => Some (inl st)
  | _ =>
    let low := before_semicolon (lower raw) in
    let fs := fields (commas_to_spaces low) in
    match fs with
    | [] => match fields low with [] => Some (inl st) | _ => None end     (* nothing but commas is not a blank line *)
    | [op; am; a; bm; b] =>
      if negb (has_char 44 low) then None else
      (* getOp94 *)
      let parts := (fix split (s cur : text) : list text :=
                      match s with
                      | [] => [cur]
                      | 46 :: r => cur :: split r []
                      | ch :: r => split r (cur ++ [ch])
                      end) op [] in
      match parts with
      | [o; md] =>
        match opcode_of_text o, opmode_of_text md, amode_of_text am, parse_address a m,
              amode_of_text bm, parse_address b m with
        | Some o', Some md', Some am', Some av, Some bm', Some bv =>
            Some (inl (mkLS (ls_code st ++ [mkI o' md' av am' bv bm']) (ls_start st)))
        | _, _, _, _, _, _ => None
        end
      | _ => None
      end
    | f0 :: rest =>
      match rest with
      | [] => if text_eqb f0 (s2t "end") then Some (inr None)
              else if text_eqb f0 (s2t "org") then None else None
      | [arg] =>
        if text_eqb f0 (s2t "org") then
          match parse_int 32 arg with
          | Some v => if (v <? 0)%Z then None else Some (inl (mkLS (ls_code st) v))
          | None => None
          end
        else None
      | _ => None
      end
    end
  end.

Fixpoint load94_lines (m : N) (st : lstate94) (lines : list text) : option lstate94 :=
  match lines with
  | [] => Some st
  | l :: t => match line94 m st l with
              | None => None
              | Some (inr _) => Some st
              | Some (inl st') => load94_lines m st' t
              end
  end.
Definition parse_load_file_94 (m : N) (s : text) : lres :=
  match load94_lines m (mkLS [] 0) (read_lines s []) with
  | None => LErr
  | Some st => if (Z.of_nat (length (ls_code st)) <=? ls_start st)%Z then LErr
               else LOk (ls_code st) (ls_start st)
  end.

Definition line88 (m : N) (st : lstate94) (raw : text) : option (lstate94 + option Z) :=
  match raw with
  | [] => Some (inl st)
  | 59 :: _ => Some (inl st)
  | _ =>
    let low := before_semicolon (lower raw) in
    let fs := fields (commas_to_spaces low) in
    match fs with
    | [] => match fields low with [] => Some (inl st) | _ => None end     (* nothing but commas is not a blank line *)
    | [op; am; a; bm; b] =>
      if negb (has_char 44 low) then None else
      match opcode88_of_text op, amode88_of_text am, parse_address a m,
            amode88_of_text bm, parse_address b m with
      | Some o', Some am', Some av, Some bm', Some bv =>
        match op_mode_88 o' am' bm' with
        | Some md => Some (inl (mkLS (ls_code st ++ [mkI o' md av am' bv bm']) (ls_start st)))
        | None => None
        end
      | _, _, _, _, _ => None
      end
    | f0 :: rest =>
      let is_end := text_eqb f0 (s2t "end") in
      let is_org := text_eqb f0 (s2t "org") in
      if negb (is_end || is_org) then None
      else match rest with
           | [] => if is_org then None else Some (inr None)
           | [arg] =>
             match parse_int 32 arg with
             | None => None
             | Some v =>
               if ((v <? 0) || (negb is_org && (Z.of_nat (length (ls_code st)) <? v)))%Z%bool then None
               else if is_end then Some (inr (Some v)) (* Start is set, then break *)
               else Some (inl (mkLS (ls_code st) v))
             end
           | _ => None
           end
    end
  end.

Fixpoint load88_lines (m : N) (st : lstate94) (lines : list text) : option lstate94 :=
  match lines with
  | [] => Some st
  | l :: t =>
    match line88 m st l with
    | None => None
    | Some (inr None) => Some st
    | Some (inr (Some v)) => Some (mkLS (ls_code st) v)
    | Some (inl st') => load88_lines m st' t
    end
  end.
Definition parse_load_file_88 (m : N) (s : text) : lres :=
  match load88_lines m (mkLS [] 0) (read_lines s []) with
  | None => LErr
  | Some st =>
    if (negb (ls_start st =? 0) && (Z.of_nat (length (ls_code st)) <=? ls_start st))%Z%bool then LErr
    else LOk (ls_code st) (ls_start st)
  end.

Definition parse_load_file (cfg : config) (s : text) : lres :=
  if c_mode cfg =? 0 then parse_load_file_88 (c_size cfg) s else parse_load_file_94 (c_size cfg) s.
