(* Exec.v — literal model of sim.go: exec, readFold, writeFold and of every
   function in simops.go, plus queue.go's ring buffer.  Every uint64 operation
   of the Go code carries its wrap (add64/sub64/mul64).  Definitions only. *)
From GM Require Export Base.
From Coq Require Import FMapPositive.
Open Scope N_scope.

(* ---------- reports (reporter.go) ---------- *)
Inductive rtype :=
  SimReset | CycleStart | CycleEnd | WarriorSpawn | WarriorTaskPop
| WarriorTaskPush | WarriorTaskTerminate | WarriorTerminate | WarriorRead
| WarriorWrite | WarriorDecrement | WarriorIncrement.
Record report := mkR { r_type : rtype; r_cycle : Z; r_wi : Z; r_addr : N }.
Definition rtype_num (t : rtype) : N :=
  match t with
  | SimReset => 0 | CycleStart => 1 | CycleEnd => 2 | WarriorSpawn => 3
  | WarriorTaskPop => 4 | WarriorTaskPush => 5 | WarriorTaskTerminate => 6
  | WarriorTerminate => 7 | WarriorRead => 8 | WarriorWrite => 9
  | WarriorDecrement => 10 | WarriorIncrement => 11
  end.

(* ---------- queue.go: processQueue ---------- *)
Record rq := mkQ {
  q_arr : PositiveMap.t N; q_size : N; q_len : N; q_start : N; q_end : N }.
Definition arr_get (a : PositiveMap.t N) (i : N) : N :=
  match PositiveMap.find (N.succ_pos i) a with Some v => v | None => 0 end.
Definition arr_set (a : PositiveMap.t N) (i v : N) := PositiveMap.add (N.succ_pos i) v a.
Definition rq_new (size : N) : rq := mkQ (PositiveMap.empty N) size 0 0 0.
Definition rq_push (q : rq) (a : N) : rq :=
  if q_size q <=? q_len q then q
  else mkQ (arr_set (q_arr q) (q_end q) a) (q_size q) (q_len q + 1) (q_start q)
           ((q_end q + 1) mod q_size q).
Definition rq_pop (q : rq) : option (N * rq) :=
  if q_len q =? 0 then None
  else Some (arr_get (q_arr q) (q_start q),
             mkQ (q_arr q) (q_size q) (q_len q - 1) ((q_start q + 1) mod q_size q) (q_end q)).
Definition rq_values (q : rq) : list N :=
  map (fun i => arr_get (q_arr q) ((q_start q + N.of_nat i) mod q_size q))
      (seq 0 (N.to_nat (q_len q))).

(* ---------- exec ---------- *)
Section Exec.
Variables (m rl wl : N).   (* s.m, s.readLimit, s.writeLimit *)
Variable wi : Z.           (* w.index, for the reports *)

Definition rfold (p : N) : N :=
  let res := p mod rl in
  if rl / 2 <? res then add64 res (sub64 m rl) else res.
Definition wfold (p : N) : N :=
  let res := p mod wl in
  if wl / 2 <? res then add64 res (sub64 m wl) else res.

Definition idx (pc p : N) : N := (add64 pc p) mod m.          (* (PC + P) % s.m *)
Definition dec1 (x : N) : N := (sub64 (add64 x m) 1) mod m.   (* (x + s.m - 1) % s.m *)
Definition inc1 (x : N) : N := (add64 x 1) mod m.             (* (x + 1) % s.m *)

Definition rep (t : rtype) (a : N) : report := mkR t 0 wi a.

Inductive ikind := KInd | KDec | KInc.
(* which field an indirect mode goes through, and its side effect *)
Definition mode_class (md : amode) : option (bool * ikind) :=
  match md with
  | DIRECT | IMMEDIATE => None
  | A_INDIRECT => Some (true, KInd) | B_INDIRECT => Some (false, KInd)
  | A_DECREMENT => Some (true, KDec) | B_DECREMENT => Some (false, KDec)
  | A_INCREMENT => Some (true, KInc) | B_INCREMENT => Some (false, KInc)
  end.

(* One operand phase of exec.  isB = false: the "A" block (second-level write
   pointer is NOT computed, the pre-decrement is reported, the post-increment
   is not); isB = true: the "B" block (second-level write pointer through the
   write pointer, pre-decrement not reported, post-increment reported).
   Result: core, read pointer, write pointer, the copied instruction, reports. *)
Definition phase (isB : bool) (c : core) (pc : N) (md : amode) (num : N)
  : core * N * N * instr * list report :=
  match md with
  | IMMEDIATE => (c, 0, 0, get c (idx pc 0), [])
  | _ =>
    let rp0 := rfold num in
    let wp0 := wfold num in
    match mode_class md with
    | None => (c, rp0, wp0, get c (idx pc rp0), [])
    | Some (useA, k) =>
      let f := if useA then i_a else i_b in
      let setf := if useA then setA else setB in
      let c1 := match k with
                | KDec => upd c (idx pc wp0) (fun i => setf i (dec1 (f i)))
                | _ => c end in
      let rdec := match k with
                  | KDec => [rep WarriorDecrement (idx pc wp0)]
                  | _ => [] end in
      let pip := idx pc wp0 in
      let rp := rfold (add64 rp0 (f (get c1 (idx pc rp0)))) in
      let wp := if isB then wfold (add64 wp0 (f (get c1 (idx pc wp0)))) else wp0 in
      let ir := get c1 (idx pc rp) in
      let c2 := match k with
                | KInc => upd c1 pip (fun i => setf i (inc1 (f i)))
                | _ => c1 end in
      let rinc := match k with
                  | KInc => [rep WarriorIncrement pip]
                  | _ => [] end in
      (c2, rp, wp, ir, rdec ++ rinc)
    end
  end.

(* ---------- simops.go ---------- *)
Definition op_mov (md : opmode) (ira : instr) (c : core) (wab : N) : core :=
  match md with
  | mA => upd c wab (fun i => setA i (i_a ira))
  | mB => upd c wab (fun i => setB i (i_b ira))
  | mAB => upd c wab (fun i => setB i (i_a ira))
  | mBA => upd c wab (fun i => setA i (i_b ira))
  | mF => upd (upd c wab (fun i => setA i (i_a ira))) wab (fun i => setB i (i_b ira))
  | mX => upd (upd c wab (fun i => setB i (i_a ira))) wab (fun i => setA i (i_b ira))
  | mI => set c wab ira
  end.

(* add / sub / mul share one switch shape; g irb_field ira_field *)
Definition op_arith (g : N -> N -> N) (md : opmode) (ira irb : instr) (c : core) (wab : N) : core :=
  match md with
  | mA => upd c wab (fun i => setA i (g (i_a irb) (i_a ira)))
  | mB => upd c wab (fun i => setB i (g (i_b irb) (i_b ira)))
  | mAB => upd c wab (fun i => setB i (g (i_b irb) (i_a ira)))
  | mBA => upd c wab (fun i => setA i (g (i_a irb) (i_b ira)))
  | mI | mF =>
      upd (upd c wab (fun i => setA i (g (i_a irb) (i_a ira)))) wab
          (fun i => setB i (g (i_b irb) (i_b ira)))
  | mX =>
      upd (upd c wab (fun i => setA i (g (i_a irb) (i_b ira)))) wab
          (fun i => setB i (g (i_b irb) (i_a ira)))
  end.
Definition g_add (x y : N) : N := (add64 x y) mod m.
Definition g_sub (x y : N) : N := (add64 x (sub64 m y)) mod m.
Definition g_mul (x y : N) : N := (mul64 x y) mod m.

(* div / mod: returns the core and whether the task survives *)
Definition op_divlike (g : N -> N -> N) (md : opmode) (ira irb : instr) (c : core) (wab : N)
  : core * bool :=
  match md with
  | mA => if i_a ira =? 0 then (c, false)
          else (upd c wab (fun i => setA i (g (i_a irb) (i_a ira))), true)
  | mB => if i_b ira =? 0 then (c, false)
          else (upd c wab (fun i => setB i (g (i_b irb) (i_b ira))), true)
  | mAB => if i_a ira =? 0 then (c, false)
           else (upd c wab (fun i => setB i (g (i_b irb) (i_a ira))), true)
  | mBA => if i_b ira =? 0 then (c, false)
           else (upd c wab (fun i => setA i (g (i_a irb) (i_b ira))), true)
  | mF | mI =>
      let c1 := if i_a ira =? 0 then c
                else upd c wab (fun i => setA i (g (i_a irb) (i_a ira))) in
      let c2 := if i_b ira =? 0 then c1
                else upd c1 wab (fun i => setB i (g (i_b irb) (i_b ira))) in
      (c2, negb ((i_a ira =? 0) || (i_b ira =? 0)))
  | mX =>
      let c1 := if i_a ira =? 0 then c
                else upd c wab (fun i => setB i (g (i_b irb) (i_a ira))) in
      let c2 := if i_b ira =? 0 then c1
                else upd c1 wab (fun i => setA i (g (i_a irb) (i_b ira))) in
      (c2, negb ((i_a ira =? 0) || (i_b ira =? 0)))
  end.

Definition nz (x : N) : bool := negb (x =? 0).

Definition jmz_jump (md : opmode) (irb : instr) : bool :=
  match md with
  | mA | mBA => i_a irb =? 0
  | mB | mAB => i_b irb =? 0
  | mF | mX | mI => (i_a irb =? 0) && (i_b irb =? 0)
  end.
Definition jmn_jump (md : opmode) (irb : instr) : bool :=
  match md with
  | mA | mBA => nz (i_a irb)
  | mB | mAB => nz (i_b irb)
  | mF | mX | mI => nz (i_a irb) || nz (i_b irb)
  end.
(* djn: the cell at WAB is decremented modulo m, the copy IRB with a plain
   uint64 "-= 1", and the copy is tested *)
Definition op_djn (md : opmode) (irb : instr) (c : core) (wab : N) : core * bool :=
  match md with
  | mA | mBA =>
      (upd c wab (fun i => setA i (dec1 (i_a i))), nz (sub64 (i_a irb) 1))
  | mB | mAB =>
      (upd c wab (fun i => setB i (dec1 (i_b i))), nz (sub64 (i_b irb) 1))
  | mF | mX | mI =>
      (upd (upd c wab (fun i => setA i (dec1 (i_a i)))) wab (fun i => setB i (dec1 (i_b i))),
       nz (sub64 (i_b irb) 1) || nz (sub64 (i_a irb) 1))
  end.

Definition instr_same (x y : instr) : bool :=
  opcode_eqb (i_op x) (i_op y) && opmode_eqb (i_md x) (i_md y) &&
  amode_eqb (i_am x) (i_am y) && (i_a x =? i_a y) &&
  amode_eqb (i_bm x) (i_bm y) && (i_b x =? i_b y).
Definition cmp_skip (md : opmode) (ira irb : instr) : bool :=
  match md with
  | mA => i_a ira =? i_a irb
  | mB => i_b ira =? i_b irb
  | mAB => i_a ira =? i_b irb
  | mBA => i_b ira =? i_a irb
  | mF => (i_a ira =? i_a irb) && (i_b ira =? i_b irb)
  | mX => (i_a ira =? i_b irb) && (i_b ira =? i_a irb)
  | mI => instr_same ira irb
  end.
Definition sne_skip (md : opmode) (ira irb : instr) : bool :=
  match md with
  | mA => negb (i_a ira =? i_a irb)
  | mB => negb (i_b ira =? i_b irb)
  | mAB => negb (i_a ira =? i_b irb)
  | mBA => negb (i_b ira =? i_a irb)
  | mF => negb (i_a ira =? i_a irb) || negb (i_b ira =? i_b irb)
  | mX => negb (i_a ira =? i_b irb) || negb (i_b ira =? i_a irb)
  | mI => negb (opcode_eqb (i_op ira) (i_op irb)) || negb (opmode_eqb (i_md ira) (i_md irb))
          || negb (amode_eqb (i_am ira) (i_am irb)) || negb (i_a ira =? i_a irb)
          || negb (amode_eqb (i_bm ira) (i_bm irb)) || negb (i_b ira =? i_b irb)
  end.
Definition slt_skip (md : opmode) (ira irb : instr) : bool :=
  match md with
  | mA => i_a ira <? i_a irb
  | mB => i_b ira <? i_b irb
  | mAB => i_a ira <? i_b irb
  | mBA => i_b ira <? i_a irb
  | mF | mI => (i_a ira <? i_a irb) && (i_b ira <? i_b irb)
  | mX => (i_a ira <? i_b irb) && (i_b ira <? i_a irb)
  end.

(* exec: new core, the Push calls in order, the reports in order *)
Definition exec (c : core) (pc : N) : core * list N * list report :=
  let IR := get c pc in
  let '(c1, rpa, _, ira, repA) := phase false c pc (i_am IR) (i_a IR) in
  let '(c2, rpb, wpb, irb, repB) := phase true c1 pc (i_bm IR) (i_b IR) in
  let wab := idx pc wpb in
  let rab := idx pc rpa in
  let nxt := (add64 pc 1) mod m in
  let skp := (add64 pc 2) mod m in
  let pre := repA ++ repB in
  let md := i_md IR in
  match i_op IR with
  | DAT => (c2, [], pre ++ [rep WarriorTaskTerminate pc])
  | MOV => (op_mov md ira c2 wab, [nxt],
            pre ++ [rep WarriorTaskPush nxt; rep WarriorWrite wab])
  | ADD => (op_arith g_add md ira irb c2 wab, [nxt],
            pre ++ [rep WarriorTaskPush nxt; rep WarriorWrite wab])
  | SUB => (op_arith g_sub md ira irb c2 wab, [nxt],
            pre ++ [rep WarriorTaskPush nxt; rep WarriorWrite wab])
  | MUL => (op_arith g_mul md ira irb c2 wab, [nxt],
            pre ++ [rep WarriorTaskPush nxt; rep WarriorWrite wab])
  | DIV => let '(c3, alive) := op_divlike N.div md ira irb c2 wab in
           if alive then (c3, [nxt], pre ++ [rep WarriorTaskPush nxt; rep WarriorWrite wab])
           else (c3, [], pre ++ [rep WarriorTaskTerminate pc; rep WarriorWrite wab])
  | MOD => let '(c3, alive) := op_divlike N.modulo md ira irb c2 wab in
           if alive then (c3, [nxt], pre ++ [rep WarriorTaskPush nxt; rep WarriorWrite wab])
           else (c3, [], pre ++ [rep WarriorTaskTerminate pc; rep WarriorWrite wab])
  | JMP => (c2, [rab], pre)
  | JMZ => (c2, [if jmz_jump md irb then rab else nxt], pre)
  | JMN => let t := if jmn_jump md irb then rab else nxt in
           (c2, [t], pre ++ [rep WarriorTaskPush t])
  | DJN => let '(c3, j) := op_djn md irb c2 wab in
           let t := if j then rab else nxt in
           (c3, [t], pre ++ [rep WarriorTaskPush t; rep WarriorDecrement wab])
  | CMP | SEQ =>
      let t := if cmp_skip md ira irb then skp else nxt in
      (c2, [t], pre ++ [rep WarriorTaskPush t; rep WarriorRead (idx pc rpa);
                         rep WarriorRead (idx pc rpb)])
  | SLT =>
      let t := if slt_skip md ira irb then skp else nxt in
      (c2, [t], pre ++ [rep WarriorTaskPush t; rep WarriorRead (idx pc rpa);
                         rep WarriorRead (idx pc rpb)])
  | SNE =>
      let t := if sne_skip md ira irb then skp else nxt in
      (c2, [t], pre ++ [rep WarriorTaskPush t; rep WarriorRead (idx pc rpa);
                         rep WarriorRead (idx pc rpb)])
  | SPL => (c2, [nxt; rab], pre)
  | NOP => (c2, [nxt], pre)
  end.

(* one task: exec, then the Push calls on the warrior's ring buffer *)
Definition step (c : core) (pc : N) (q : rq) : core * rq :=
  let '(c', pushes, _) := exec c pc in (c', fold_left rq_push pushes q).
End Exec.
