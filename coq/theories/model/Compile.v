(* Compile.v — compile.go of the repaired tree: loadSymbols, expandExpression,
   evaluateAssertions, assembleLine, compile, and CompileWarrior's pass loop;
   load.go's getOpMode94 / getOpModeAndValidate88.  Definitions only. *)
From GM Require Export Parser Sim.
Open Scope N_scope.

(* ---------- load.go: default modifiers ---------- *)
Definition op_mode_94 (o : opcode) (am bm : amode) : opmode :=
  match o with
  | DAT => mF
  | CMP | MOV | SEQ | SNE =>
      match am, bm with IMMEDIATE, _ => mAB | _, IMMEDIATE => mB | _, _ => mI end
  | SLT => match am with IMMEDIATE => mAB | _ => mB end
  | ADD | SUB | MUL | DIV | MOD =>
      match am, bm with IMMEDIATE, _ => mAB | _, IMMEDIATE => mB | _, _ => mF end
  | JMP | JMN | JMZ | DJN | SPL | NOP => mB
  end.
Definition is_imm (m : amode) : bool := match m with IMMEDIATE => true | _ => false end.
Definition is_predec_b (m : amode) : bool := match m with B_DECREMENT => true | _ => false end.
(* getOpModeAndValidate88: None = rejected *)
Definition op_mode_88 (o : opcode) (am bm : amode) : option opmode :=
  match o with
  | DAT => if (is_imm am || is_predec_b am) && (is_imm bm || is_predec_b bm) then Some mF else None
  | CMP | MOV => if is_imm bm then None else Some (if is_imm am then mAB else mI)
  | SLT => Some (if is_imm am then mAB else mB)
  | ADD | SUB => if is_imm bm then None else Some (if is_imm am then mAB else mF)
  | JMP | JMN | JMZ | DJN | SPL => if is_imm am then None else Some mB
  | _ => None
  end.

(* ---------- the compiler ---------- *)
Definition labtab := list (text * Z).
Fixpoint lab_find (k : text) (m : labtab) : option Z :=
  match m with
  | [] => None
  | (k', v) :: t => if text_eqb k k' then Some v else lab_find k t
  end.
Fixpoint lab_set (k : text) (v : Z) (m : labtab) : labtab :=
  match m with
  | [] => [(k, v)]
  | (k', v') :: t => if text_eqb k k' then (k, v) :: t else (k', v') :: lab_set k v t
  end.

Definition num_tok (n : N) : token := mkT tokNumber (dec_of_N n).

Record comp := mkC { c_values : symtab; c_labels : labtab; c_startexpr : list token }.

Definition load_constants (cfg : config) : symtab :=
  [(s2t "CORESIZE", [num_tok (c_size cfg)]); (s2t "MAXLENGTH", [num_tok (c_len cfg)]);
   (s2t "MAXPROCESSES", [num_tok (c_procs cfg)]); (s2t "MINDISTANCE", [num_tok (c_dist cfg)])].

Definition load_symbols (cfg : config) (lines : list sline) : comp :=
  fst (fold_left
    (fun (st : comp * Z) (ln : sline) =>
       let '(c, cur) := st in
       match sl_typ ln with
       | linePseudoOp =>
         if lower_is (sl_op ln) "equ"
         then (mkC (fold_left (fun m l => sym_set l (sl_a ln) m) (sl_labels ln) (c_values c)) (c_labels c) (c_startexpr c), cur)
         else if lower_is (sl_op ln) "org" then (mkC (c_values c) (c_labels c) (sl_a ln), cur)
         else if lower_is (sl_op ln) "end"
         then (mkC (c_values c)
                   (fold_left (fun m l => lab_set l cur m) (sl_labels ln) (c_labels c))
                   (match sl_a ln with [] => c_startexpr c | a => a end), cur)
         else (c, cur)
       | lineInstruction =>
         (mkC (c_values c) (fold_left (fun m l => lab_set l (sl_codeline ln) m) (sl_labels ln) (c_labels c))
              (c_startexpr c), (cur + 1)%Z)
       | _ => (c, cur)
       end)
    lines (mkC (load_constants cfg) [] [num_tok 0], 0%Z)).

Definition toks_eqb (a b : list token) : bool := list_eqb tok_eqb a b.

(* one substitution pass of expandExpression: None = unresolved symbol *)
Definition expand_pass (m : Z) (c : comp) (line : Z) (input : list token) : option (list token) :=
  fold_left (fun acc t =>
               match acc with
               | None => None
               | Some out =>
                 match t_typ t with
                 | tokText =>
                   match sym_find (t_val t) (c_values c) with
                   | Some v => Some (out ++ v)
                   | None =>
                     match lab_find (t_val t) (c_labels c) with
                     | Some lab =>
                       let v := Z.rem (lab - line) m in
                       if (v <? 0)%Z then Some (out ++ [minus_tok; num_tok (Z.to_N (- v))])
                       else Some (out ++ [num_tok (Z.to_N v)])
                     | None => None
                     end
                   end
                 | _ => Some (out ++ [t])
                 end
               end) input (Some []).
(* expandExpression: repeat until nothing changes.  None = out of fuel *)
Fixpoint expand_expression (f : nat) (m : Z) (c : comp) (line : Z) (input : list token)
  : option (option (list token)) :=
  match f with
  | O => None
  | S f' =>
    match expand_pass m c line input with
    | None => Some None
    | Some out => if toks_eqb input out then Some (Some out) else expand_expression f' m c line out
    end
  end.
Definition expand_fuel (c : comp) : nat := S (S (S (length (c_values c)))).

Inductive cres :=
| COk (code : list instr) (start : Z) (meta : pmeta)
| CErr | CUnmodelled | COutOfFuel.

(* evaluateAssertion on the text after ";assert": lexed, expanded at line 0, must be non-zero *)
Definition eval_assert (m : Z) (c : comp) (txt : text) : option eres :=
  match lex_ascii txt with
  | None => None
  | Some toks =>
    match expand_expression (expand_fuel c) m c 0 (removelast toks) with
    | None => None
    | Some None => Some EErr
    | Some (Some e) => match evaluate_expression e with
                       | EOk v => Some (if (v =? 0)%Z then EErr else EOk v)
                       | x => Some x
                       end
    end
  end.
Fixpoint eval_assertions (m : Z) (c : comp) (lines : list sline) : option eres :=
  match lines with
  | [] => Some (EOk 1)
  | ln :: t =>
    match sl_typ ln with
    | lineComment =>
      if has_prefix (s2t ";assert") (sl_comment ln) then
        match eval_assert m c (skipn 7 (sl_comment ln)) with
        | Some (EOk _) => eval_assertions m c t
        | x => x
        end
      else eval_assertions m c t
    | _ => eval_assertions m c t
    end
  end.

Definition norm_field (v : Z) (m : Z) : N :=
  let r := Z.rem v m in Z.to_N (if (r <? 0)%Z then Z.rem (m + r) m else r).

Inductive ares := AOk (i : instr) | AErr | AUnmodelled | AFuel.

Definition assemble_line (cfg : config) (c : comp) (ln : sline) : ares :=
  let m := Z.of_N (c_size cfg) in
  let legacy := c_mode cfg =? 0 in
  let is_dat := lower_is (sl_op ln) "dat" in
  let dflt := if legacy && is_dat then IMMEDIATE else DIRECT in
  let mode_of (s : text) := match s with [] => Some dflt | _ => amode_of_text s end in
  match mode_of (sl_amode ln), mode_of (sl_bmode ln) with
  | Some am, Some bm =>
    let opm :=
        if legacy then
          (* only the four '88 modes may be written *)
          if negb ((match sl_amode ln with [] => true | s => match amode88_of_text s with Some _ => true | None => false end end)
                   && (match sl_bmode ln with [] => true | s => match amode88_of_text s with Some _ => true | None => false end end))
          then None else
          match opcode88_of_text (sl_op ln) with
          | None => None
          | Some o => match op_mode_88 o am bm with Some md => Some (o, md) | None => None end
          end
        else
          (* getOp94: exactly one '.', opcode before it, modifier after it *)
          let parts := (fix split (s cur : text) : list text :=
                          match s with
                          | [] => [cur]
                          | 46 :: r => cur :: split r []
                          | ch :: r => split r (cur ++ [ch])
                          end) (sl_op ln) [] in
          match parts with
          | [o; md] =>
            match opcode_of_text o, opmode_of_text md with
            | Some o', Some md' => Some (o', md')
            | _, _ => match opcode_of_text (sl_op ln) with
                      | Some o' => Some (o', op_mode_94 o' am bm)
                      | None => None
                      end
            end
          | _ => match opcode_of_text (sl_op ln) with
                 | Some o' => Some (o', op_mode_94 o' am bm)
                 | None => None
                 end
          end in
    match opm with
    | None => AErr
    | Some (o, md) =>
      let ev (e : list token) : ares + Z :=
          match expand_expression (expand_fuel c) m c (sl_codeline ln) e with
          | None => inl AFuel
          | Some None => inl AErr
          | Some (Some x) => match evaluate_expression x with
                             | EOk v => inr v
                             | EErr => inl AErr
                             | EUnmodelled => inl AUnmodelled
                             end
          end in
      match ev (sl_a ln) with
      | inl e => e
      | inr av =>
        match sl_b ln with
        | [] =>
          match o with
          | DAT => AOk (mkI o md 0 IMMEDIATE (norm_field av m) am)
          | _ => AOk (mkI o md (norm_field av m) am 0 bm)
          end
        | be => match ev be with
                | inl e => e
                | inr bv => AOk (mkI o md (norm_field av m) am (norm_field bv m) bm)
                end
        end
      end
    end
  | _, _ => AErr
  end.

Fixpoint assemble_all (cfg : config) (c : comp) (lines : list sline) (acc : list instr) : ares + list instr :=
  match lines with
  | [] => inr acc
  | ln :: t =>
    match sl_typ ln with
    | lineInstruction => match assemble_line cfg c ln with
                         | AOk i => assemble_all cfg c t (acc ++ [i])
                         | e => inl e
                         end
    | _ => assemble_all cfg c t acc
    end
  end.

Definition compile (cfg : config) (lines : list sline) (meta : pmeta) : cres :=
  if negb (validate cfg) then CErr else
  let m := Z.of_N (c_size cfg) in
  let c0 := load_symbols cfg lines in
  let g := build_graph (c_values c0) in
  match graph_has_cycle g with
  | None => COutOfFuel
  | Some true => CErr
  | Some false =>
    match eval_assertions m c0 lines with
    | None => COutOfFuel
    | Some EErr => CErr
    | Some EUnmodelled => CUnmodelled
    | Some (EOk _) =>
      match expand_expressions (c_values c0) g with
      | None => COutOfFuel
      | Some None => CErr
      | Some (Some resolved) =>
        let c := mkC resolved (c_labels c0) (c_startexpr c0) in
        match assemble_all cfg c lines [] with
        | inl AFuel => COutOfFuel
        | inl AUnmodelled => CUnmodelled
        | inl _ => CErr
        | inr code =>
          if c_len cfg <? N.of_nat (length code) then CErr else
          match expand_expression (expand_fuel c) m c 0 (c_startexpr c) with
          | None => COutOfFuel
          | Some None => CErr
          | Some (Some se) =>
            match evaluate_expression se with
            | EErr => CErr
            | EUnmodelled => CUnmodelled
            | EOk sv =>
              if ((sv <? 0) || (negb (sv =? 0) && (Z.of_nat (length code) <=? sv)))%Z then CErr
              else COk code sv meta
            end
          end
        end
      end
    end
  end.

(* CompileWarrior: lex, then scan / expand one FOR block per pass, parse, compile *)
Definition max_for_passes : nat := 1000.
(* loadConstants(symbols, config): the four predefined names are (re)defined in the symbols
   handed to the expander, so that FOR counts may use them *)
Definition with_constants (cfg : config) (syms : symtab) : symtab :=
  fold_left (fun m kv => sym_set (fst kv) (snd kv) m) (load_constants cfg) syms.
Fixpoint pass_loop (cfg : config) (n : nat) (toks : list token) : option (option (list token)) :=   (* Some None = error *)
  match n with
  | O => Some None
  | S n' =>
    match scan_input toks with
    | None => None
    | Some None => Some None
    | Some (Some (syms, for_seen)) =>
      if for_seen then
        match for_expand toks (with_constants cfg syms) with
        | None => None
        | Some None => None                      (* consumer would wait forever *)
        | Some (Some r) => pass_loop cfg n' (fr_tokens r)
        end
      else Some (Some toks)
    end
  end.

(* FOR counts are evaluated by go/types.Eval like operands; the model's evaluator covers a fragment of it
   and says so for operands (EUnmodelled -> CUnmodelled).  The expander has no such outcome, so a program
   whose FOR or EQU lines step outside the fragment - a token the fragment lacks, or two operands with
   nothing between them, which Go reads as one number ("71 189" is 71189) - is declared unmodelled as a
   whole, before the passes: the correspondence does not compare it. *)
Definition count_tok_ok (t : token) : bool :=
  match t_typ t with
  | tokText | tokComment => true
  | _ => match to_etok t with Some _ => true | None => false end
  end.
Definition is_operand (t : token) : bool := match t_typ t with tokNumber | tokText => true | _ => false end.
Fixpoint operand_adjacent (l : list token) : bool :=
  match l with
  | a :: ((b :: _) as r) => (is_operand a && is_operand b) || operand_adjacent r
  | _ => false
  end.
Definition count_line_ok (st : option (list token)) : bool :=
  match st with
  | Some acc => forallb count_tok_ok acc && negb (operand_adjacent acc)
  | None => true
  end.
Fixpoint counts_modelled (toks : list token) (st : option (list token)) : bool :=
  match toks with
  | [] => count_line_ok st
  | t :: r =>
    match t_typ t with
    | tokNewline | tokEOF | tokError => count_line_ok st && counts_modelled r None
    | _ =>
      match st with
      | Some acc => counts_modelled r (Some (acc ++ [t]))
      | None =>
        match t_typ t with
        | tokText => if lower_is (t_val t) "for" || lower_is (t_val t) "equ" then counts_modelled r (Some []) else counts_modelled r None
        | _ => counts_modelled r None
        end
      end
    end
  end.

Definition compile_warrior (cfg : config) (inp : text) : cres :=
  match lex_ascii inp with
  | None => COutOfFuel
  | Some toks =>
    if negb (counts_modelled toks None) then CUnmodelled else
    match pass_loop cfg (S max_for_passes) toks with
    | None => COutOfFuel
    | Some None => CErr
    | Some (Some toks') =>
      match parse toks' with
      | None => COutOfFuel
      | Some None => CErr
      | Some (Some (lines, meta)) => compile cfg lines meta
      end
    end
  end.
