(* Sim.v — literal model of the simulator object: config.go Validate,
   sim.go newReportSim / addWarrior / spawnWarrior / GetWarrior / RunCycle /
   Run / GetMem / Reset and the Warrior queries of warrior.go.
   Every Go panic site is an explicit Panic.  Definitions only. *)
From GM Require Export Exec.
Open Scope N_scope.

Inductive res (A : Type) := Ok (a : A) | Panic.
Arguments Ok {A} a.
Arguments Panic {A}.

(* ---------- config.go ---------- *)
Record config := mkCfg {
  c_mode : N;                 (* 0 ICWS88, 1 NOP94, 2 ICWS94 *)
  c_size : N; c_procs : N; c_cycles : N; c_rl : N; c_wl : N; c_len : N; c_dist : N }.
Definition validate (c : config) : bool :=
  negb (c_size c <? 3) && negb (c_procs c <? 1) && negb (c_rl c <? 1) &&
  negb (c_wl c <? 1) && negb (c_cycles c <? 1) && negb (c_size c <? c_len c) &&
  negb (c_size c <? add64 (c_len c) (c_dist c)).

(* ---------- warriors ---------- *)
Inductive wstate := WAdded | WAlive | WDead.
Record warrior := mkW {
  w_code : list instr; w_start : Z; w_state : wstate; w_pq : option rq }.

Record sim := mkS {
  s_m : N; s_procs : N; s_cycles : N; s_rl : N; s_wl : N; s_legacy : bool;
  s_mem : core; s_ws : list warrior; s_living : Z; s_cycle : N }.

Definition new_sim (c : config) : option sim :=
  if validate c
  then Some (mkS (c_size c) (c_procs c) (c_cycles c) (c_rl c) (c_wl c) (c_mode c =? 0)
                 empty_core [] 0%Z 0)
  else None.

Definition with_mem (s : sim) (c : core) : sim :=
  mkS (s_m s) (s_procs s) (s_cycles s) (s_rl s) (s_wl s) (s_legacy s) c (s_ws s) (s_living s) (s_cycle s).
Definition with_ws (s : sim) (ws : list warrior) : sim :=
  mkS (s_m s) (s_procs s) (s_cycles s) (s_rl s) (s_wl s) (s_legacy s) (s_mem s) ws (s_living s) (s_cycle s).
Definition with_living (s : sim) (l : Z) : sim :=
  mkS (s_m s) (s_procs s) (s_cycles s) (s_rl s) (s_wl s) (s_legacy s) (s_mem s) (s_ws s) l (s_cycle s).
Definition with_cycle (s : sim) (n : N) : sim :=
  mkS (s_m s) (s_procs s) (s_cycles s) (s_rl s) (s_wl s) (s_legacy s) (s_mem s) (s_ws s) (s_living s) n.

Fixpoint list_set {A} (l : list A) (i : nat) (x : A) : list A :=
  match l, i with
  | [], _ => []
  | _ :: t, O => x :: t
  | h :: t, S i' => h :: list_set t i' x
  end.
Definition set_w (s : sim) (i : nat) (w : warrior) : sim := with_ws s (list_set (s_ws s) i w).

Definition wcount (s : sim) : Z := Z.of_nat (length (s_ws s)).

(* addWarrior: never fails, deep-copies the data *)
Definition add_warrior (s : sim) (code : list instr) (start : Z) : sim :=
  with_ws s (s_ws s ++ [mkW code start WAdded None]).

(* s.warriors[wi] with Go's bounds check *)
Definition windex (s : sim) (wi : Z) : res (nat * warrior) :=
  if (wi <? 0)%Z then Panic
  else match nth_error (s_ws s) (Z.to_nat wi) with
       | Some w => Ok (Z.to_nat wi, w)
       | None => Panic
       end.

(* GetWarrior: nil (None) when wi < 0 || wi >= count *)
Definition get_warrior (s : sim) (wi : Z) : res (option (nat * warrior)) :=
  if ((wi <? 0) || (wcount s <=? wi))%Z then Ok None
  else match windex s wi with Ok x => Ok (Some x) | Panic => Panic end.

Fixpoint load_code (m : N) (c : core) (off : N) (i : N) (code : list instr) : core :=
  match code with
  | [] => c
  | x :: t => load_code m (set c ((add64 off i) mod m) x) off (i + 1) t
  end.

(* spawnWarrior: Ok (inl s') on success, Ok (inr tt) on a returned error *)
Definition spawn_warrior (s : sim) (wi : Z) (off : N) : res (sim * list report + unit) :=
  if ((wi <? 0) || (wcount s <=? wi))%Z then Ok (inr tt)
  else match windex s wi with
       | Panic => Panic
       | Ok (i, w) =>
         match w_state w with
         | WAlive => Ok (inr tt)
         | _ =>
           let off := off mod s_m s in      (* startOffset = startOffset % s.m *)
           let c := load_code (s_m s) (s_mem s) off 0 (w_code w) in
           let q := rq_push (rq_new (s_procs s)) ((add64 off (z2u64 (w_start w))) mod s_m s) in
           let w' := mkW (w_code w) (w_start w) WAlive (Some q) in
           let s1 := set_w (with_mem s c) i w' in
           Ok (inl (with_living s1 (s_living s + 1)%Z,
                    [mkR WarriorSpawn 0 (Z.of_nat i) (off mod s_m s)]))
         end
       end.

(* ---------- RunCycle ---------- *)
Fixpoint cycle_loop (k : nat) (i : nat) (s : sim) (reps : list report)
  : res (sim * option Z * list report) :=
  match k with
  | O => Ok (s, None, reps)
  | S k' =>
    match nth_error (s_ws s) i with
    | None => Ok (s, None, reps)
    | Some w =>
      match w_state w with
      | WAlive =>
        match w_pq w with
        | None => Panic                         (* nil queue dereference *)
        | Some q =>
          match rq_pop q with
          | None =>                              (* "zombie": marked dead, count untouched *)
            cycle_loop k' (S i)
              (set_w s i (mkW (w_code w) (w_start w) WDead (Some q))) reps
          | Some (pc, q1) =>
            if s_m s <=? pc then Panic           (* s.mem[PC] out of range *)
            else
              let cyc := Z.of_N (s_cycle s) in
              let wiz := Z.of_nat i in
              let '(c', pushes, ereps) := exec (s_m s) (s_rl s) (s_wl s) wiz (s_mem s) pc in
              let q2 := fold_left rq_push pushes q1 in
              let reps1 := reps ++ [mkR WarriorTaskPop cyc wiz pc] ++ ereps in
              if q_len q2 =? 0 then
                let s1 := set_w (with_mem s c') i (mkW (w_code w) (w_start w) WDead (Some q2)) in
                let l' := (s_living s - 1)%Z in
                let s2 := with_living s1 l' in
                let reps2 := reps1 ++ [mkR WarriorTerminate cyc wiz pc] in
                if ((1 <? wcount s)%Z && (l' =? 1)%Z)%bool then Ok (s2, Some l', reps2)
                else cycle_loop k' (S i) s2 reps2
              else
                cycle_loop k' (S i)
                  (set_w (with_mem s c') i (mkW (w_code w) (w_start w) WAlive (Some q2))) reps1
          end
        end
      | _ => cycle_loop k' (S i) s reps
      end
    end
  end.

(* RunCycle: new state, return value, reports *)
Definition run_cycle (s : sim) : res (sim * Z * list report) :=
  if ((s_cycles s <=? s_cycle s) || (s_living s <? 1)%Z)%bool then Ok (s, 0%Z, [])
  else if ((1 <? wcount s)%Z && (s_living s <? 2)%Z)%bool then Ok (s, 0%Z, [])
  else
    let cyc := Z.of_N (s_cycle s) in
    match cycle_loop (length (s_ws s)) 0 s [mkR CycleStart cyc 0 0] with
    | Panic => Panic
    | Ok (s', Some r, reps) => Ok (s', r, reps)
    | Ok (s', None, reps) =>
        Ok (with_cycle s' (add64 (s_cycle s') 1), s_living s', reps ++ [mkR CycleEnd cyc 0 0])
    end.

Definition alive (w : warrior) : bool := match w_state w with WAlive => true | _ => false end.

(* Run: None = the loop is still going when the fuel is exhausted.
   Result: state, the []bool (None = nil), and whether any cycle panicked. *)
Inductive run_res := RunOk (s : sim) (r : option (list bool)) | RunPanic | RunOutOfFuel.
Fixpoint run_loop (fuel : nat) (s : sim) : run_res :=
  if s_cycles s <=? s_cycle s then RunOk s (Some (map alive (s_ws s)))
  else match fuel with
       | O => RunOutOfFuel
       | S f =>
         match run_cycle s with
         | Panic => RunPanic
         | Ok (s', a, _) =>
           let n := length (s_ws s) in
           if ((a =? 0)%Z || ((1 <? n)%nat && (a =? 1)%Z))%bool
           then RunOk s' (Some (map alive (s_ws s')))
           else run_loop f s'
         end
       end.
Definition run (fuel : nat) (s : sim) : run_res :=
  match s_ws s with
  | [] => RunOk s None
  | _ => run_loop fuel s
  end.

Definition get_mem (s : sim) (a : N) : instr := get (s_mem s) (a mod s_m s).

Definition reset (s : sim) : sim * list report :=
  (mkS (s_m s) (s_procs s) (s_cycles s) (s_rl s) (s_wl s) (s_legacy s) empty_core
       (map (fun w => mkW (w_code w) (w_start w) WAdded (w_pq w)) (s_ws s)) 0%Z 0,
   [mkR SimReset 0 0 0]).

(* ---------- warrior.go queries ---------- *)
Definition w_queue (w : warrior) : list N :=
  match w_pq w with None => [] | Some q => rq_values q end.
(* NextPC: Ok None for the error return (also for a nil queue) *)
Definition w_next_pc (w : warrior) : res (option N) :=
  match w_pq w with
  | None => Ok None
  | Some q => if q_len q =? 0 then Ok None
              else Ok (Some (arr_get (q_arr q) ((q_start q + 0) mod q_size q)))
  end.
