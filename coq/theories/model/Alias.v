(* Alias.v — the part of Go's memory model that C14's copy isolation is about:
   slices are references to backing arrays in a store, WarriorData.Copy
   allocates a fresh array (warrior.go), addWarrior keeps only the copy
   (sim.go), spawn copies instruction values into the core.  Definitions only. *)
From GM Require Export Base.
Open Scope N_scope.

(* backing arrays by address; next free address *)
Record store := mkSt { st_arrays : list (N * list instr); st_next : N }.
Fixpoint arr_find (a : N) (l : list (N * list instr)) : option (list instr) :=
  match l with
  | [] => None
  | (a', v) :: t => if a =? a' then Some v else arr_find a t
  end.
Definition read (s : store) (a : N) : list instr :=
  match arr_find a (st_arrays s) with Some v => v | None => [] end.
(* make([]Instruction, n) + copy: a fresh array holding v *)
Definition alloc (s : store) (v : list instr) : store * N :=
  (mkSt ((st_next s, v) :: st_arrays s) (st_next s + 1), st_next s).
(* code[i] = x through a slice header pointing at array a (no-op out of range, where Go panics) *)
Fixpoint set_nth (l : list instr) (i : nat) (x : instr) : list instr :=
  match l, i with
  | [], _ => []
  | _ :: t, O => x :: t
  | h :: t, S i' => h :: set_nth t i' x
  end.
Fixpoint arr_set (a : N) (i : nat) (x : instr) (l : list (N * list instr)) : list (N * list instr) :=
  match l with
  | [] => []
  | (a', v) :: t => if a =? a' then (a', set_nth v i x) :: t else (a', v) :: arr_set a i x t
  end.
Definition write (s : store) (a : N) (i : nat) (x : instr) : store :=
  mkSt (arr_set a i x (st_arrays s)) (st_next s).

(* WarriorData as the caller holds it: the slice header (address of the backing array) and Start *)
Record wdata := mkWD { wd_code : N; wd_start : Z }.
(* WarriorData.Copy *)
Definition wd_copy (s : store) (w : wdata) : store * wdata :=
  let '(s', a) := alloc s (read s (wd_code w)) in (s', mkWD a (wd_start w)).
(* the simulator side: the warriors it holds (their private copies) *)
Definition sim_add (s : store) (held : list wdata) (w : wdata) : store * list wdata :=
  let '(s', c) := wd_copy s w in (s', held ++ [c]).
(* what spawn loads into the core for held warrior k *)
Definition sim_code (s : store) (held : list wdata) (k : nat) : list instr :=
  match nth_error held k with Some w => read s (wd_code w) | None => [] end.

(* the store is well-formed when every allocated address is below st_next *)
Definition store_wf (s : store) : Prop := Forall (fun av => fst av < st_next s) (st_arrays s).
