(* Listing.v — warrior.go LoadCode and sim.go addressSigned: the pMARS-style
   load listing as text.  Definitions only. *)
From GM Require Export Load.
Open Scope N_scope.

Definition address_signed (m a : N) : Z :=
  if m / 2 <? a then (- (Z.of_N m - Z.of_N a))%Z else Z.of_N a.

Definition pad_left (w : nat) (s : text) : text := repeat 32 (w - length s) ++ s.
Definition pad_right (w : nat) (s : text) : text := s ++ repeat 32 (w - length s).

(* "%s  %3s%-3s %1s %5d, %1s %5d     \n" *)
Definition listing_line (m : N) (legacy : bool) (is_start : bool) (i : instr) : text :=
  (if is_start then s2t "START" else s2t "     ") ++ s2t "  "
  ++ pad_left 3 (opcode_name (i_op i))
  ++ pad_right 3 (if legacy then [] else 46 :: opmode_name (i_md i))
  ++ [32] ++ [amode_char (i_am i)] ++ [32] ++ pad_left 5 (dec_of_Z (address_signed m (i_a i)))
  ++ [44; 32] ++ [amode_char (i_bm i)] ++ [32] ++ pad_left 5 (dec_of_Z (address_signed m (i_b i)))
  ++ s2t "     " ++ [10].

Fixpoint listing_lines (m : N) (legacy : bool) (start : Z) (k : Z) (code : list instr) : text :=
  match code with
  | [] => []
  | i :: t => listing_line m legacy (k =? start)%Z i ++ listing_lines m legacy start (k + 1) t
  end.

Definition load_code_text (m : N) (legacy : bool) (code : list instr) (start : Z) : text :=
  match code with
  | [] => []
  | _ =>
    (if legacy then [] else s2t "       ORG      START" ++ [10])
    ++ listing_lines m legacy start 0 code
    ++ (if legacy then s2t "       END      START" ++ [10] else [])
  end.
