(* AsmCodec.v — case kinds for the assembler side of the harness protocol:
     10  CompileWarrior(text)      11  ParseLoadFile(text)      12  LoadCode listing
     20  lexer tokens (hook)       21  token stream after the FOR passes (hook)
     22  evaluateExpression on the lexed text (hook)
   Configuration prefix: mode M P C R W Len Dist.  Definitions only. *)
From GM Require Export Codec Listing.
Open Scope Z_scope.

Definition rd_cfg (l : list Z) : option (config * list Z) :=
  match l with
  | md :: M :: P :: C :: R :: W :: Ln :: Ds :: t =>
      Some (mkCfg (Z.to_N md) (Z.to_N M) (Z.to_N P) (Z.to_N C) (Z.to_N R) (Z.to_N W) (Z.to_N Ln) (Z.to_N Ds), t)
  | _ => None
  end.
Definition to_text (l : list Z) : text := map Z.to_N l.
Definition of_text (t : text) : list Z := map Z.of_N t.

Definition enc_code (code : list instr) (start : Z) : list Z :=
  [71; start; Z.of_nat (length code)] ++ flat_map enc_instr code.

Definition enc_cres (r : cres) : list (list Z) :=
  match r with
  | COk code start meta =>
      [[70; 0]; enc_code code start; 72 :: of_text (pm_name meta); 73 :: of_text (pm_author meta);
       74 :: of_text (pm_strategy meta)]
  | CErr => [[70; 1]]
  | CUnmodelled => [[70; 5]]
  | COutOfFuel => [[99]]
  end.

Definition enc_tokens (ts : list token) : list Z :=
  flat_map (fun t => [Z.of_N (ttype_num (t_typ t)); Z.of_nat (length (t_val t))] ++ of_text (t_val t)) ts.

Fixpoint pass_work (cfg : config) (n : nat) (toks : list token) (acc : Z) : Z :=
  let acc' := (acc + Z.of_nat (length toks))%Z in
  match n with
  | O => acc
  | S n' =>
    match scan_input toks with
    | Some (Some (syms, true)) =>
      match for_expand toks (with_constants cfg syms) with
      | Some (Some r) => pass_work cfg n' (fr_tokens r) acc'
      | _ => acc'
      end
    | _ => acc'
    end
  end.

Definition run_asm (kind : Z) (l : list Z) : list (list Z) :=
  match kind with
  | 10 => match rd_cfg l with
          | Some (cfg, t) => enc_cres (compile_warrior cfg (to_text t))
          | None => [[0]]
          end
  | 11 => match rd_cfg l with
          | Some (cfg, t) =>
            match parse_load_file cfg (to_text t) with
            | LOk code start => [[70; 0]; enc_code code start]
            | LErr => [[70; 1]]
            end
          | None => [[0]]
          end
  | 12 => match l with
          | md :: M :: start :: n :: t =>
            match rd_many rd_instr (Z.to_nat n) t with
            | Some (code, _) => [75 :: of_text (load_code_text (Z.to_N M) (md =? 0) code start)]
            | None => [[0]]
            end
          | _ => [[0]]
          end
  | 20 => match lex_ascii (to_text l) with
          | Some ts => [80 :: enc_tokens ts]
          | None => [[99]]
          end
  | 21 => match lex_ascii (to_text l) with
          | Some ts => match pass_loop (mkCfg 2 8000 8000 80000 8000 8000 100 100) (S max_for_passes) ts with
                       | Some (Some ts') => [[81; 0]; 80 :: enc_tokens ts']
                       | Some None => [[81; 1]]
                       | None => [[99]]
                       end
          | None => [[99]]
          end
  | 23 => (* harness support: the work of the FOR pass driver on a text - the sum over the passes of the
             number of tokens handed to a pass - used to tell inputs whose FOR counts go beyond the bound
             the time clause of C05 quantifies over *)
          match rd_cfg l with
          | Some (cfg, t) =>
            match lex_ascii (to_text t) with
            | Some ts => [[83; pass_work cfg (S max_for_passes) ts 0]]
            | None => [[99]]
            end
          | None => [[0]]
          end
  | 22 => match lex_ascii (to_text l) with
          | Some ts => match evaluate_expression (removelast ts) with
                       | EOk v => [[82; 0; v]]
                       | EErr => [[82; 1]]
                       | EUnmodelled => [[82; 5]]
                       end
          | None => [[99]]
          end
  | _ => [[0]]
  end.

Definition run_case4 (l : list Z) : list (list Z) :=
  match l with
  | k :: t => if (10 <=? k) && (k <=? 29) then run_asm k t else run_case3 l
  | [] => [[0]]
  end.

(* ---------- kind 13: the gmars command ----------
   [use88; s; p; c; l; F; r; preset; nfiles; (len; bytes...)*nfiles] -> [90; exit; stdout...] *)
From GM Require Import Cli.
Open Scope Z_scope.
Definition rd_flags_m (l : list Z) : option (flags * list Z) :=
  match l with
  | u88 :: s :: p :: c :: ln :: F :: r :: pre :: t => Some (mkFl (u88 =? 1) s p c ln F r (Z.to_N pre), t)
  | _ => None
  end.
Definition rd_blob (l : list Z) : option (text * list Z) :=
  match l with
  | n :: t => let k := Z.to_nat n in Some (to_text (firstn k t), skipn k t)
  | [] => None
  end.
Definition run_cli (l : list Z) : list (list Z) :=
  match rd_flags_m l with
  | Some (f, nf :: t) =>
    match rd_blob t with
    | Some (t1, rest) =>
      let t2 := if nf =? 2 then match rd_blob rest with Some (x, _) => Some x | None => None end else None in
      if (fl_F f =? 0) && (nf =? 2) then [[90; 5]]      (* random placement: outside the model *)
      else match cli_main f t1 t2 (fixed_positions f) with
           | CliOut e out => [[90; e] ++ of_text out]
           | CliHang => [[99]]
           end
    | None => [[0]]
    end
  | _ => [[0]]
  end.

Definition run_case5 (l : list Z) : list (list Z) :=
  match l with
  | 13 :: t => run_cli t
  | _ => run_case4 l
  end.

(* kind 14: [threads; reps; inner case...]: jobs are pure functions of their input, so
   however many run at once there is exactly one distinct result: the sequential one *)
Definition run_conc (l : list Z) : list (list Z) :=
  match l with
  | _ :: _ :: inner => [93; 1] :: [94; 1] :: run_case5 inner
  | _ => [[0]]
  end.
Definition run_case6 (l : list Z) : list (list Z) :=
  match l with
  | 14 :: t => run_conc t
  | _ => run_case5 l
  end.
