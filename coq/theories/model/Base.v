(* Base.v — shared definitions of the gmars models: Go's uint64 arithmetic,
   instructions, and the core memory.  Definitions only (plus the handful of
   one-line facts every other file needs about get/set). *)
From Coq Require Export List NArith ZArith Bool Lia.
From Coq Require Import FMapPositive.
Export ListNotations.
Open Scope N_scope.

(* ---------- Go uint64 arithmetic (Address = uint64) ---------- *)
Definition two64 : N := 18446744073709551616.
Definition w64 (x : N) : N := x mod two64.
Definition add64 (a b : N) : N := w64 (a + b).
(* a - b on uint64, for a, b < 2^64 *)
Definition sub64 (a b : N) : N := w64 (a + (two64 - b mod two64)).
Definition mul64 (a b : N) : N := w64 (a * b).
(* Address(int): conversion of a Go int (64-bit two's complement) to uint64 *)
Definition z2u64 (z : Z) : N := Z.to_N (z mod 18446744073709551616)%Z.

(* ---------- instructions (asm.go) ---------- *)
Inductive opcode :=
  DAT | MOV | ADD | SUB | MUL | DIV | MOD | CMP | SEQ | SNE | SLT
| JMP | JMZ | JMN | DJN | SPL | NOP.
Inductive opmode := mF | mA | mB | mAB | mBA | mX | mI.
Inductive amode :=
  DIRECT | IMMEDIATE | A_INDIRECT | B_INDIRECT
| A_DECREMENT | B_DECREMENT | A_INCREMENT | B_INCREMENT.

Record instr := mkI {
  i_op : opcode; i_md : opmode;
  i_a : N; i_am : amode; i_b : N; i_bm : amode }.

(* Go's zero value Instruction{} *)
Definition zero_instr : instr := mkI DAT mF 0 DIRECT 0 DIRECT.

Definition setA (i : instr) (v : N) : instr :=
  mkI (i_op i) (i_md i) v (i_am i) (i_b i) (i_bm i).
Definition setB (i : instr) (v : N) : instr :=
  mkI (i_op i) (i_md i) (i_a i) (i_am i) v (i_bm i).

Definition opcode_eqb (a b : opcode) : bool :=
  match a, b with
  | DAT,DAT | MOV,MOV | ADD,ADD | SUB,SUB | MUL,MUL | DIV,DIV | MOD,MOD
  | CMP,CMP | SEQ,SEQ | SNE,SNE | SLT,SLT | JMP,JMP | JMZ,JMZ | JMN,JMN
  | DJN,DJN | SPL,SPL | NOP,NOP => true
  | _, _ => false
  end.
Definition opmode_eqb (a b : opmode) : bool :=
  match a, b with
  | mF,mF | mA,mA | mB,mB | mAB,mAB | mBA,mBA | mX,mX | mI,mI => true
  | _, _ => false
  end.
Definition amode_eqb (a b : amode) : bool :=
  match a, b with
  | DIRECT,DIRECT | IMMEDIATE,IMMEDIATE | A_INDIRECT,A_INDIRECT
  | B_INDIRECT,B_INDIRECT | A_DECREMENT,A_DECREMENT | B_DECREMENT,B_DECREMENT
  | A_INCREMENT,A_INCREMENT | B_INCREMENT,B_INCREMENT => true
  | _, _ => false
  end.
Definition instr_eqb (x y : instr) : bool :=
  opcode_eqb (i_op x) (i_op y) && opmode_eqb (i_md x) (i_md y) &&
  (i_a x =? i_a y) && amode_eqb (i_am x) (i_am y) &&
  (i_b x =? i_b y) && amode_eqb (i_bm x) (i_bm y).

(* numbering = Go's iota order *)
Definition opcode_num (o : opcode) : N :=
  match o with
  | DAT => 0 | MOV => 1 | ADD => 2 | SUB => 3 | MUL => 4 | DIV => 5 | MOD => 6
  | CMP => 7 | SEQ => 8 | SNE => 9 | SLT => 10 | JMP => 11 | JMZ => 12
  | JMN => 13 | DJN => 14 | SPL => 15 | NOP => 16
  end.
Definition opcode_of (n : N) : option opcode :=
  match n with
  | 0 => Some DAT | 1 => Some MOV | 2 => Some ADD | 3 => Some SUB
  | 4 => Some MUL | 5 => Some DIV | 6 => Some MOD | 7 => Some CMP
  | 8 => Some SEQ | 9 => Some SNE | 10 => Some SLT | 11 => Some JMP
  | 12 => Some JMZ | 13 => Some JMN | 14 => Some DJN | 15 => Some SPL
  | 16 => Some NOP | _ => None
  end.
Definition opmode_num (o : opmode) : N :=
  match o with mF => 0 | mA => 1 | mB => 2 | mAB => 3 | mBA => 4 | mX => 5 | mI => 6 end.
Definition opmode_of (n : N) : option opmode :=
  match n with
  | 0 => Some mF | 1 => Some mA | 2 => Some mB | 3 => Some mAB
  | 4 => Some mBA | 5 => Some mX | 6 => Some mI | _ => None
  end.
Definition amode_num (o : amode) : N :=
  match o with
  | DIRECT => 0 | IMMEDIATE => 1 | A_INDIRECT => 2 | B_INDIRECT => 3
  | A_DECREMENT => 4 | B_DECREMENT => 5 | A_INCREMENT => 6 | B_INCREMENT => 7
  end.
Definition amode_of (n : N) : option amode :=
  match n with
  | 0 => Some DIRECT | 1 => Some IMMEDIATE | 2 => Some A_INDIRECT
  | 3 => Some B_INDIRECT | 4 => Some A_DECREMENT | 5 => Some B_DECREMENT
  | 6 => Some A_INCREMENT | 7 => Some B_INCREMENT | _ => None
  end.

Definition all_opcodes : list opcode :=
  [DAT;MOV;ADD;SUB;MUL;DIV;MOD;CMP;SEQ;SNE;SLT;JMP;JMZ;JMN;DJN;SPL;NOP].
Definition all_opmodes : list opmode := [mF;mA;mB;mAB;mBA;mX;mI].
Definition all_amodes : list amode :=
  [DIRECT;IMMEDIATE;A_INDIRECT;B_INDIRECT;A_DECREMENT;B_DECREMENT;A_INCREMENT;B_INCREMENT].

(* ---------- core memory: []Instruction indexed by Address ---------- *)
Definition core := PositiveMap.t instr.
Definition empty_core : core := PositiveMap.empty instr.
Definition get (c : core) (a : N) : instr :=
  match PositiveMap.find (N.succ_pos a) c with Some i => i | None => zero_instr end.
Definition set (c : core) (a : N) (i : instr) : core :=
  PositiveMap.add (N.succ_pos a) i c.
(* mem[a].A = f(mem[a].A) style read-modify-write of one cell *)
Definition upd (c : core) (a : N) (f : instr -> instr) : core := set c a (f (get c a)).

Lemma get_set_eq c a i : get (set c a i) a = i.
Proof. unfold get, set. now rewrite PositiveMap.gss. Qed.
Lemma get_set_ne c a b i : a <> b -> get (set c a i) b = get c b.
Proof.
  intros H. unfold get, set. rewrite PositiveMap.gso; [reflexivity|].
  intros E. apply H. apply (f_equal Pos.pred_N) in E.
  now rewrite !N.pos_pred_succ in E.
Qed.
Lemma get_set c a b i : get (set c a i) b = if b =? a then i else get c b.
Proof.
  destruct (N.eqb_spec b a) as [->|H]; [apply get_set_eq|].
  apply get_set_ne; congruence.
Qed.
Lemma get_upd c a b f : get (upd c a f) b = if b =? a then f (get c a) else get c b.
Proof. unfold upd. apply get_set. Qed.
Lemma get_empty a : get empty_core a = zero_instr.
Proof. unfold get, empty_core. now rewrite PositiveMap.gempty. Qed.

Global Opaque get set.

(* generic helpers *)
Fixpoint list_eqb {A} (eqb : A -> A -> bool) (x y : list A) : bool :=
  match x, y with
  | [], [] => true
  | a :: x', b :: y' => eqb a b && list_eqb eqb x' y'
  | _, _ => false
  end.
