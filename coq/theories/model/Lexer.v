(* Lexer.v — lex.go: the lexer goroutine as the list of tokens it sends on its
   channel, in order.  The input is the list of runes bufio.ReadRune yields.
   Classification of runes is a parameter (ASCII instance below).
   Definitions only. *)
From GM Require Export Token.
Open Scope N_scope.

Record lexer := mkL { l_inp : list N; l_nr : N; l_eof : bool }.

(* next(): returns (rune, eof) and the new lexer state *)
Definition lnext (l : lexer) : N * bool * lexer :=
  if l_eof l then (0, true, l)
  else match l_inp l with
       | [] => (l_nr l, true, mkL [] (l_nr l) true)
       | r :: t => (l_nr l, false, mkL t r false)
       end.

(* newLexer: one next() before the goroutine starts *)
Definition lex_init (inp : list N) : lexer := snd (lnext (mkL inp 0 false)).

Inductive lstate := LInput | LText | LNumber | LComment | LEquals | LPipe | LAnd | LGt | LLt.

Definition tEOF := mkT tokEOF [].
Definition sym (s : text) := mkT tokSymbol s.

Section Lex.
Variables is_space is_letter is_digit : N -> bool.

(* consume(nextState) *)
Definition consume (l : lexer) (nxt : lstate) : list token * option lstate * lexer :=
  let '(_, eof, l') := lnext l in
  if eof then ([tEOF], None, l') else ([], Some nxt, l').
(* emitConsume(tok, nextState) *)
Definition emit_consume (l : lexer) (t : token) (nxt : lstate) : list token * option lstate * lexer :=
  let '(_, eof, l') := lnext l in
  if eof then ([t; tEOF], None, l') else ([t], Some nxt, l').

(* the space-skipping loop of lexInput *)
Fixpoint space_loop (f : nat) (l : lexer) (out : list token) : list token * option lstate * lexer :=
  match f with
  | O => (out, None, l)
  | S f' =>
    if is_space (l_nr l) then
      let out1 := if l_nr l =? 10 then out ++ [mkT tokNewline []] else out in
      let '(_, eof, l') := lnext l in
      if eof then (out1 ++ [tEOF], None, l')
      else space_loop f' l' out1
    else (out, Some LInput, l)
  end.

Definition text_char (c : N) : bool := is_letter c || is_digit c || (c =? 46) || (c =? 95).
Fixpoint text_loop (f : nat) (l : lexer) (buf : text) : list token * option lstate * lexer :=
  match f with
  | O => ([], None, l)
  | S f' =>
    if text_char (l_nr l) then
      let '(r, eof, l') := lnext l in
      let buf' := buf ++ [r] in
      if eof then ([mkT tokText buf'; tEOF], None, l')
      else text_loop f' l' buf'
    else ((match buf with [] => [] | _ => [mkT tokText buf] end), Some LInput, l)
  end.

Fixpoint zero_loop (f : nat) (l : lexer) : option lexer :=   (* None: hit the end of input *)
  match f with
  | O => Some l
  | S f' =>
    if l_nr l =? 48 then
      let '(_, eof, l') := lnext l in
      if eof then None else zero_loop f' l'
    else Some l
  end.
Fixpoint digit_loop (f : nat) (l : lexer) (buf : text) : list token * option lstate * lexer :=
  match f with
  | O => ([], None, l)
  | S f' =>
    if is_digit (l_nr l) then
      let '(r, eof, l') := lnext l in
      let buf' := buf ++ [r] in
      if eof then ([mkT tokNumber buf'; tEOF], None, l')
      else digit_loop f' l' buf'
    else ([mkT tokNumber (match buf with [] => [48] | _ => buf end)], Some LInput, l)
  end.

Fixpoint comment_loop (f : nat) (l : lexer) (buf : text) : list token * option lstate * lexer :=
  match f with
  | O => ([], None, l)
  | S f' =>
    if l_nr l =? 10 then ([mkT tokComment buf], Some LInput, l)
    else
      let buf' := buf ++ [l_nr l] in
      let '(_, eof, l') := lnext l in
      if eof then ([mkT tokComment buf'; tEOF], None, l')
      else comment_loop f' l' buf'
  end.

Definition err_tok := mkT tokError [].   (* the message text is not modelled *)

(* one state function: tokens sent, next state (None = goroutine ends), lexer *)
Definition lex_step (st : lstate) (l : lexer) : list token * option lstate * lexer :=
  let n := S (S (length (l_inp l))) in
  let c := l_nr l in
  match st with
  | LInput =>
    if is_space c then space_loop n l []
    else if is_letter c || (c =? 95) then ([], Some LText, l)
    else if is_digit c then ([], Some LNumber, l)
    else if c =? 0 then ([tEOF], None, l)
    else if c =? 59 then ([], Some LComment, l)
    else if c =? 44 then emit_consume l (mkT tokComma [44]) LInput
    else if c =? 40 then emit_consume l (mkT tokParenL [40]) LInput
    else if c =? 41 then emit_consume l (mkT tokParenR [41]) LInput
    else if (c =? 43) || (c =? 45) || (c =? 42) || (c =? 47) || (c =? 37)
            || (c =? 36) || (c =? 35) || (c =? 64) || (c =? 123) || (c =? 125)
         then emit_consume l (sym [c]) LInput
    else if c =? 60 then consume l LLt
    else if c =? 62 then consume l LGt
    else if c =? 58 then emit_consume l (mkT tokColon [58]) LInput
    else if c =? 61 then consume l LEquals
    else if c =? 124 then consume l LPipe
    else if c =? 38 then consume l LAnd
    else if c =? 26 then consume l LInput
    else ([mkT tokInvalid [c]; tEOF], None, l)
  | LText => text_loop n l []
  | LNumber =>
    match zero_loop n l with
    | None => ([mkT tokNumber [48]; tEOF], None, l)
    | Some l1 => digit_loop n l1 []
    end
  | LComment => comment_loop n l []
  | LEquals => if c =? 61 then emit_consume l (sym [61; 61]) LInput else ([err_tok], None, l)
  | LPipe => if c =? 124 then emit_consume l (sym [124; 124]) LInput else ([err_tok], None, l)
  | LAnd => if c =? 38 then emit_consume l (sym [38; 38]) LInput else ([err_tok], None, l)
  | LGt => if c =? 61 then emit_consume l (sym [62; 61]) LInput else ([sym [62]], Some LInput, l)
  | LLt => if c =? 61 then emit_consume l (sym [60; 61]) LInput else ([sym [60]], Some LInput, l)
  end.

(* run(): the send list; None = fuel exhausted (never, see C05) *)
Fixpoint lex_run (f : nat) (st : lstate) (l : lexer) (out : list token) : option (list token) :=
  match f with
  | O => None
  | S f' =>
    let '(sent, nxt, l') := lex_step st l in
    match nxt with
    | None => Some (out ++ sent)
    | Some st' => lex_run f' st' l' (out ++ sent)
    end
  end.

Definition lex_sends (inp : list N) : option (list token) :=
  lex_run (2 * length inp + 4) LInput (lex_init inp) [].

(* Tokens(): receive until the first EOF / Error token (received from a closed
   channel the zero token has type tokError) *)
Fixpoint recv_until_terminal (l : list token) : list token :=
  match l with
  | [] => [mkT tokError []]
  | t :: r => match t_typ t with
              | tokEOF | tokError => [t]
              | _ => t :: recv_until_terminal r
              end
  end.
End Lex.

(* ASCII instance used for the correspondence *)
Definition lex_ascii (inp : list N) : option (list token) :=
  match lex_sends is_space_a is_letter_a is_digit_a inp with
  | Some s => Some (recv_until_terminal s)
  | None => None
  end.
