(* Codec.v — the case protocol shared with the Go harness: a case is a list of
   integers, the output a list of tagged integer records.  This file decodes
   VM cases, drives the model (Sim.v) exactly as the harness drives gmars, and
   encodes the observables.  Definitions only. *)
From GM Require Export Sim Recorder.
Open Scope Z_scope.

Definition rd (A : Type) := list Z -> option (A * list Z).
Definition rd_z : rd Z := fun l => match l with x :: t => Some (x, t) | [] => None end.
Definition rd_n : rd N := fun l => match l with x :: t => Some (Z.to_N x, t) | [] => None end.

Definition rd_instr : rd instr := fun l =>
  match l with
  | o :: md :: a :: am :: b :: bm :: t =>
    match opcode_of (Z.to_N o), opmode_of (Z.to_N md), amode_of (Z.to_N am), amode_of (Z.to_N bm) with
    | Some o', Some md', Some am', Some bm' =>
        if (o <? 0) || (md <? 0) || (am <? 0) || (bm <? 0) || (a <? 0) || (b <? 0) then None
        else Some (mkI o' md' (Z.to_N a) am' (Z.to_N b) bm', t)
    | _, _, _, _ => None
    end
  | _ => None
  end.

Fixpoint rd_many {A} (r : rd A) (n : nat) : rd (list A) := fun l =>
  match n with
  | O => Some ([], l)
  | S n' => match r l with
            | None => None
            | Some (x, l1) => match rd_many r n' l1 with
                              | None => None
                              | Some (xs, l2) => Some (x :: xs, l2)
                              end
            end
  end.

Definition enc_instr (i : instr) : list Z :=
  [Z.of_N (opcode_num (i_op i)); Z.of_N (opmode_num (i_md i)); Z.of_N (i_a i);
   Z.of_N (amode_num (i_am i)); Z.of_N (i_b i); Z.of_N (amode_num (i_bm i))].

Definition nseq (n : N) : list N := map N.of_nat (seq 0 (N.to_nat n)).

Definition dump_core (s : sim) : list Z :=
  flat_map (fun a => enc_instr (get_mem s a)) (nseq (s_m s)).

Definition sum_p : Z := 1000000007.
Definition core_sum (s : sim) : Z :=
  fold_left (fun h v => (h * 31 + v + 1) mod sum_p) (dump_core s) 0.

Definition enc_state (st : wstate) : Z := match st with WAdded => 0 | WAlive => 1 | WDead => 2 end.
Definition enc_queue (w : warrior) : list Z :=
  let q := w_queue w in Z.of_nat (length q) :: map Z.of_N q.
Definition enc_reports (rs : list report) : list Z :=
  flat_map (fun r => [Z.of_N (rtype_num (r_type r)); r_cycle r; r_wi r; Z.of_N (r_addr r)]) rs.

(* what the harness reads off a simulator between calls *)
Definition observe (withsum : bool) (s : sim) : list Z :=
  [Z.of_N (s_cycle s); s_living s; wcount s]
  ++ map (fun w => if alive w then 1 else 0) (s_ws s)
  ++ flat_map enc_queue (s_ws s)
  ++ [if withsum then core_sum s else 0].

(* the battle is over by the documented rule; the stepping driver stops here *)
Definition finished (s : sim) : bool :=
  let n := wcount s in
  ((n =? 1) && (s_living s =? 0)) || ((1 <? n) && (s_living s <=? 1))
  || (s_cycles s <=? s_cycle s)%N || (n =? 0).

(* ---------- battle case ----------
   [M; R; W; P; C; flags; maxsteps; nw; (len; start; off; 6*len numbers)*nw]
   flags: bit0 reports, bit1 also Run() on a fresh simulator, bit2 per-cycle core sums,
          bit3 full core dumps, bit4 core dump after every cycle,
          bit5 (harness only) attach a StateRecorder, bit6 a second battle after Reset on the same simulator *)
Record bwarrior := mkBW { bw_code : list instr; bw_start : Z; bw_off : N }.
Definition rd_bwarrior : rd bwarrior := fun l =>
  match l with
  | len :: start :: off :: t =>
    match rd_many rd_instr (Z.to_nat len) t with
    | Some (code, t') => Some (mkBW code start (Z.to_N off), t')
    | None => None
    end
  | _ => None
  end.

Record bcase := mkBC {
  bc_cfg : config; bc_flags : Z; bc_maxsteps : nat; bc_ws : list bwarrior }.
Definition rd_bcase : rd bcase := fun l =>
  match l with
  | M :: R :: W :: P :: C :: fl :: ms :: nw :: t =>
    match rd_many rd_bwarrior (Z.to_nat nw) t with
    | Some (ws, t') =>
        Some (mkBC (mkCfg 2 (Z.to_N M) (Z.to_N P) (Z.to_N C) (Z.to_N R) (Z.to_N W) 0 0)
                   fl (Z.to_nat ms) ws, t')
    | None => None
    end
  | _ => None
  end.

Definition flag (fl : Z) (b : Z) : bool := Z.testbit fl b.

(* add every warrior, then spawn them in order; emits one record per spawn *)
Fixpoint spawn_all (s : sim) (i : Z) (ws : list bwarrior) (out : list (list Z))
  : option sim * list (list Z) :=
  match ws with
  | [] => (Some s, out)
  | w :: t =>
    match spawn_warrior s i (bw_off w) with
    | Panic => (None, out ++ [[2; i; 2]])
    | Ok (inr _) => spawn_all s (i + 1) t (out ++ [[2; i; 1]])
    | Ok (inl (s', reps)) => spawn_all s' (i + 1) t (out ++ [[2; i; 0] ++ enc_reports reps])
    end
  end.

Definition setup (bc : bcase) : option sim * list (list Z) :=
  match new_sim (bc_cfg bc) with
  | None => (None, [[1; 0]])
  | Some s0 =>
    let s1 := fold_left (fun s w => add_warrior s (bw_code w) (bw_start w)) (bc_ws bc) s0 in
    spawn_all s1 0 (bc_ws bc) [[1; 1]]
  end.

Fixpoint step_loop (fl : Z) (k : nat) (s : sim) (out : list (list Z)) : sim * list (list Z) :=
  match k with
  | O => (s, out)
  | S k' =>
    if finished s then (s, out)
    else match run_cycle s with
         | Panic => (s, out ++ [[9; 1]])
         | Ok (s', r, reps) =>
           let o1 := [3; r] ++ observe (flag fl 2) s' in
           let o2 := if flag fl 0 then [[4] ++ enc_reports reps] else [] in
           let o3 := if flag fl 4 then [[11] ++ dump_core s'] else [] in
           step_loop fl k' s' (out ++ [o1] ++ o2 ++ o3)
         end
  end.

Definition enc_bools (l : list bool) : list Z := map (fun b : bool => if b then 1 else 0) l.

Definition rtype_of (n : Z) : option rtype :=
  match n with
  | 0 => Some SimReset | 1 => Some CycleStart | 2 => Some CycleEnd | 3 => Some WarriorSpawn
  | 4 => Some WarriorTaskPop | 5 => Some WarriorTaskPush | 6 => Some WarriorTaskTerminate
  | 7 => Some WarriorTerminate | 8 => Some WarriorRead | 9 => Some WarriorWrite
  | 10 => Some WarriorDecrement | 11 => Some WarriorIncrement | _ => None
  end.
Fixpoint dec_reports (l : list Z) : list report :=
  match l with
  | t :: c :: w :: a :: rest =>
    match rtype_of t with
    | Some ty => mkR ty c w (Z.to_N a) :: dec_reports rest
    | None => dec_reports rest
    end
  | _ => []
  end.
(* the report stream the attached StateRecorder saw, read back from the records *)
Definition stream_of (out : list (list Z)) : list report :=
  flat_map (fun r => match r with
                     | 2 :: _ :: 0 :: reps => dec_reports reps
                     | 4 :: reps => dec_reports reps
                     | _ => []
                     end) out.
Definition recorder_rec (bc : bcase) (out : list (list Z)) : list (list Z) :=
  let M := c_size (bc_cfg bc) in
  (* bit8: SetRecordRead(true) *)
  match rec_fold M (map (fun w => length (bw_code w)) (bc_ws bc)) (flag (bc_flags bc) 8) rec_empty (stream_of out) with
  | None => []
  | Some r => [[13] ++ flat_map (fun a => let x := rec_get r a in [Z.of_N (fst x); snd x]) (nseq M)]
  end.

(* one stepped battle on simulator s: per-cycle records, final observables, optional dump *)
Definition stepped (bc : bcase) (s : sim) (out : list (list Z)) : option sim * list (list Z) :=
  let fl := bc_flags bc in
  let '(s1, out1) := step_loop fl (bc_maxsteps bc) s out in
  if existsb (fun r => match r with [9; 1] => true | _ => false end) out1 then (None, out1)
  else (Some s1, out1 ++ [[5] ++ observe (flag fl 2) s1]
                      ++ (if flag fl 3 then [[6] ++ dump_core s1] else [])).

(* spawn again on a simulator that already holds the warriors (after Reset) *)
Definition respawn (bc : bcase) (s : sim) : option sim * list (list Z) :=
  spawn_all s 0 (bc_ws bc) [].

Definition run_bcase (bc : bcase) : list (list Z) :=
    let fl := bc_flags bc in
    match setup bc with
    | (None, out) => out
    | (Some s, out) =>
      match stepped bc s out with
      | (None, out1) => out1
      | (Some s1, out1a) =>
        let out1 := if flag fl 5 then out1a ++ recorder_rec bc out1a else out1a in
        (* bit6: a second battle on the same simulator after Reset and re-spawn *)
        let again :=
            if flag fl 6 then
              match respawn bc (fst (reset s1)) with
              | (None, o) => (false, [[12]] ++ o)
              | (Some s3, o) =>
                match stepped bc s3 ([[12]] ++ o) with
                | (None, o2) => (false, o2)
                | (Some _, o2) => (true, o2)
                end
              end
            else (true, []) in
        let out2 := out1 ++ snd again in
        if negb (fst again) then out2 else
        if flag fl 1 then
          match run (S (S (N.to_nat (s_cycles s)))) s with
          | RunPanic => out2 ++ [[7; 2]]
          | RunOutOfFuel => out2 ++ [[99]]
          | RunOk s2 None => out2 ++ [[7; 1]]
          | RunOk s2 (Some bs) =>
              out2 ++ [[7; 0] ++ enc_bools bs] ++ [[8] ++ observe (flag fl 2) s2]
                   ++ (if flag fl 3 then [[10] ++ dump_core s2] else [])
          end
        else out2
      end
    end.

Definition run_battle (l : list Z) : list (list Z) :=
  match rd_bcase l with
  | None => [[0]]
  | Some (bc, _) => run_bcase bc
  end.

(* kind 4: the battle, the marker [50], the battle with every offset moved by k + j*M *)
Definition shift_bcase (k j : Z) (bc : bcase) : bcase :=
  mkBC (bc_cfg bc) (bc_flags bc) (bc_maxsteps bc)
       (map (fun w => mkBW (bw_code w) (bw_start w)
                           (Z.to_N (Z.of_N (bw_off w) + k + j * Z.of_N (c_size (bc_cfg bc)))))
            (bc_ws bc)).
Definition run_rot (l : list Z) : list (list Z) :=
  match l with
  | k :: j :: t =>
    match rd_bcase t with
    | None => [[0]]
    | Some (bc, _) => run_bcase bc ++ [[50]] ++ run_bcase (shift_bcase k j bc)
    end
  | _ => [[0]]
  end.

(* ---------- entry point: first number selects the case kind ---------- *)
Definition run_case (l : list Z) : list (list Z) :=
  match l with
  | 1 :: t => run_battle t
  | _ => [[0]]
  end.

(* ---------- API history case (kind 2) ----------
   [M; R; W; P; C; Len; Dist; nd; (len; start; 6*len numbers)*nd; nops; ops...]
   ops: 1 k        AddWarrior(data k)
        2 i off    SpawnWarrior(i, off)
        3          RunCycle
        4          Run
        5          Reset
        6 i        GetWarrior(i)
        7 a        GetMem(a)
        8 h        handle h: Alive      9 h  Queue     10 h  NextPC     11 h  Length
   After every call: [30; status; results...] then [31; observables...].
   status 0 ok, 1 error/nil returned, 2 panic, 3 no such handle (harness level). *)
Record wdata := mkWD { wd_code : list instr; wd_start : Z }.
Definition rd_wdata : rd wdata := fun l =>
  match l with
  | len :: start :: t =>
    match rd_many rd_instr (Z.to_nat len) t with
    | Some (code, t') => Some (mkWD code start, t')
    | None => None
    end
  | _ => None
  end.

Inductive aop :=
| OAdd (k : nat) | OSpawn (i : Z) (off : N) | OCycle | ORun | OReset
| OGetW (i : Z) | OGetMem (a : N) | OAlive (h : nat) | OQueue (h : nat)
| ONextPC (h : nat) | OLength (h : nat).
Definition rd_aop : rd aop := fun l =>
  match l with
  | 1 :: k :: t => Some (OAdd (Z.to_nat k), t)
  | 2 :: i :: off :: t => Some (OSpawn i (Z.to_N off), t)
  | 3 :: t => Some (OCycle, t)
  | 4 :: t => Some (ORun, t)
  | 5 :: t => Some (OReset, t)
  | 6 :: i :: t => Some (OGetW i, t)
  | 7 :: a :: t => Some (OGetMem (Z.to_N a), t)
  | 8 :: h :: t => Some (OAlive (Z.to_nat h), t)
  | 9 :: h :: t => Some (OQueue (Z.to_nat h), t)
  | 10 :: h :: t => Some (ONextPC (Z.to_nat h), t)
  | 11 :: h :: t => Some (OLength (Z.to_nat h), t)
  | _ => None
  end.

Record acase := mkAC { ac_cfg : config; ac_data : list wdata; ac_ops : list aop }.
Definition rd_acase : rd acase := fun l =>
  match l with
  | M :: R :: W :: P :: C :: Ln :: Ds :: nd :: t =>
    match rd_many rd_wdata (Z.to_nat nd) t with
    | Some (ds, nops :: t1) =>
      match rd_many rd_aop (Z.to_nat nops) t1 with
      | Some (ops, t2) =>
          Some (mkAC (mkCfg 2 (Z.to_N M) (Z.to_N P) (Z.to_N C) (Z.to_N R) (Z.to_N W)
                            (Z.to_N Ln) (Z.to_N Ds)) ds ops, t2)
      | None => None
      end
    | _ => None
    end
  | _ => None
  end.

Definition obs_rec (s : sim) : list Z := [31] ++ observe true s.

(* one call on the model: None = panic (the history stops) *)
Definition api_call (ds : list wdata) (s : sim) (o : aop) : option sim * list (list Z) :=
  match o with
  | OAdd k =>
    match nth_error ds k with
    | None => (Some s, [[30; 3]; obs_rec s])
    | Some d => let s' := add_warrior s (wd_code d) (wd_start d) in (Some s', [[30; 0]; obs_rec s'])
    end
  | OSpawn i off =>
    match spawn_warrior s i off with
    | Panic => (None, [[30; 2]])
    | Ok (inr _) => (Some s, [[30; 1]; obs_rec s])
    | Ok (inl (s', _)) => (Some s', [[30; 0]; obs_rec s'])
    end
  | OCycle =>
    match run_cycle s with
    | Panic => (None, [[30; 2]])
    | Ok (s', r, _) => (Some s', [[30; 0; r]; obs_rec s'])
    end
  | ORun =>
    match run (S (S (N.to_nat (s_cycles s)))) s with
    | RunPanic => (None, [[30; 2]])
    | RunOutOfFuel => (None, [[99]])
    | RunOk s' None => (Some s', [[30; 1]; obs_rec s'])
    | RunOk s' (Some bs) => (Some s', [[30; 0] ++ enc_bools bs; obs_rec s'])
    end
  | OReset => let s' := fst (reset s) in (Some s', [[30; 0]; obs_rec s'])
  | OGetW i =>
    match get_warrior s i with
    | Panic => (None, [[30; 2]])
    | Ok None => (Some s, [[30; 1]; obs_rec s])
    | Ok (Some _) => (Some s, [[30; 0]; obs_rec s])
    end
  | OGetMem a => (Some s, [[30; 0] ++ enc_instr (get_mem s a); obs_rec s])
  | OAlive h =>
    match nth_error (s_ws s) h with
    | None => (Some s, [[30; 3]; obs_rec s])
    | Some w => (Some s, [[30; 0; if alive w then 1 else 0]; obs_rec s])
    end
  | OQueue h =>
    match nth_error (s_ws s) h with
    | None => (Some s, [[30; 3]; obs_rec s])
    | Some w => (Some s, [[30; 0] ++ enc_queue w; obs_rec s])
    end
  | ONextPC h =>
    match nth_error (s_ws s) h with
    | None => (Some s, [[30; 3]; obs_rec s])
    | Some w =>
      match w_next_pc w with
      | Panic => (None, [[30; 2]])
      | Ok None => (Some s, [[30; 1]; obs_rec s])
      | Ok (Some pc) => (Some s, [[30; 0; Z.of_N pc]; obs_rec s])
      end
    end
  | OLength h =>
    match nth_error (s_ws s) h with
    | None => (Some s, [[30; 3]; obs_rec s])
    | Some w => (Some s, [[30; 0; Z.of_nat (length (w_code w))]; obs_rec s])
    end
  end.

Fixpoint api_loop (ds : list wdata) (s : sim) (ops : list aop) (out : list (list Z)) : list (list Z) :=
  match ops with
  | [] => out
  | o :: t =>
    match api_call ds s o with
    | (None, recs) => out ++ recs
    | (Some s', recs) => api_loop ds s' t (out ++ recs)
    end
  end.

Definition run_api (l : list Z) : list (list Z) :=
  match rd_acase l with
  | None => [[0]]
  | Some (ac, _) =>
    match new_sim (ac_cfg ac) with
    | None => [[1; 0]]
    | Some s => api_loop (ac_data ac) s (ac_ops ac) [[1; 1]]
    end
  end.

Definition run_case2 (l : list Z) : list (list Z) :=
  match l with
  | 2 :: t => run_api t
  | 4 :: t => run_rot t
  | _ => run_case l
  end.

(* ---------- kind 3: configuration [mode; M; P; C; R; W; Len; Dist] ---------- *)
Definition run_config (l : list Z) : list (list Z) :=
  match l with
  | md :: M :: P :: C :: R :: W :: Ln :: Ds :: _ =>
    let cfg := mkCfg (Z.to_N md) (Z.to_N M) (Z.to_N P) (Z.to_N C) (Z.to_N R) (Z.to_N W) (Z.to_N Ln) (Z.to_N Ds) in
    match new_sim cfg with
    | None => [[1; 0]]
    | Some s0 =>
      let code := [mkI SPL mB 1 DIRECT 0 DIRECT; mkI MOV mI 0 DIRECT 1 DIRECT] in
      match spawn_warrior (add_warrior s0 code 0) 0 0 with
      | Ok (inl (s1, _)) =>
        (fix go (k : nat) (s : sim) (out : list (list Z)) : list (list Z) :=
           match k with
           | O => out
           | S k' => match run_cycle s with
                     | Panic => out ++ [[9; 1]]
                     | Ok (s', _, _) => go k' s' (out ++ [[3; 0] ++ observe false s'])
                     end
           end) 4%nat s1 [[1; 1]]
      | _ => [[1; 1]; [9; 0]]
      end
    end
  | _ => [[0]]
  end.

Definition run_case3 (l : list Z) : list (list Z) :=
  match l with
  | 3 :: t => run_config t
  | _ => run_case2 l
  end.
