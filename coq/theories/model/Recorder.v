(* Recorder.v — literal model of staterecorder.go: StateRecorder.Report as a
   fold over the report stream.  None = a Go panic (index out of range, or a
   spawn report for a warrior that does not exist).  Definitions only. *)
From GM Require Export Exec.
From Coq Require Import FMapPositive.
Open Scope N_scope.

(* CoreState: 0 Empty, 1 Executed, 2 Written, 3 Incremented, 4 Decremented, 5 Read, 6 Terminated *)
Definition recmap := PositiveMap.t (N * Z).
Definition rec_empty : recmap := PositiveMap.empty (N * Z).
Definition rec_get (r : recmap) (a : N) : N * Z :=
  match PositiveMap.find (N.succ_pos a) r with Some x => x | None => (0, (-1)%Z) end.
Definition rec_set (r : recmap) (a : N) (x : N * Z) : recmap := PositiveMap.add (N.succ_pos a) x r.

(* for i := Address; i < Address+Length; i++ { color[i%coresize] = wi; state[...] = CoreWritten } *)
Fixpoint rec_spawn (M : N) (r : recmap) (addr : N) (wi : Z) (n : nat) (i : N) : recmap :=
  match n with
  | O => r
  | S n' => rec_spawn M (rec_set r ((addr + i) mod M) (2, wi)) addr wi n' (i + 1)
  end.

Definition rec_mark (M : N) (r : recmap) (a : N) (st : N) (wi : Z) : option recmap :=
  if a <? M then Some (rec_set r a (st, wi)) else None.

Definition rec_report (M : N) (lens : list nat) (reads : bool) (r : recmap) (rp : report) : option recmap :=
  match r_type rp with
  | SimReset => Some rec_empty
  | WarriorSpawn =>
      if (r_wi rp <? 0)%Z then None
      else match nth_error lens (Z.to_nat (r_wi rp)) with
           | None => None
           | Some len => Some (rec_spawn M r (r_addr rp) (r_wi rp) len 0)
           end
  | WarriorTaskTerminate => rec_mark M r (r_addr rp) 6 (r_wi rp)
  | WarriorTaskPop => rec_mark M r (r_addr rp) 1 (r_wi rp)
  | WarriorWrite => rec_mark M r (r_addr rp) 2 (r_wi rp)
  | WarriorRead => if reads then rec_mark M r (r_addr rp) 5 (r_wi rp) else Some r
  | WarriorIncrement => rec_mark M r (r_addr rp) 3 (r_wi rp)
  | WarriorDecrement => rec_mark M r (r_addr rp) 4 (r_wi rp)
  | _ => Some r
  end.

Fixpoint rec_fold (M : N) (lens : list nat) (reads : bool) (r : recmap) (evs : list report) : option recmap :=
  match evs with
  | [] => Some r
  | e :: t => match rec_report M lens reads r e with
              | None => None
              | Some r' => rec_fold M lens reads r' t
              end
  end.
