(* Text.v — text as lists of code points; the ASCII part of Go's unicode
   classification, strings.ToLower, decimal printing and parsing.  Definitions
   only (plus nothing else). *)
From Coq Require Export Ascii String.
From Coq Require Export List NArith ZArith Bool.
Export ListNotations.
Open Scope N_scope.

Definition text := list N.

Fixpoint s2t (s : string) : text :=
  match s with
  | EmptyString => []
  | String c r => N_of_ascii c :: s2t r
  end.

Arguments s2t s%string.

Definition text_eqb (a b : text) : bool :=
  (fix go (a b : text) : bool :=
     match a, b with
     | [], [] => true
     | x :: a', y :: b' => (x =? y) && go a' b'
     | _, _ => false
     end) a b.

(* ASCII classification; runes >= 128 are classified by the oracle the lexer model takes *)
Definition is_digit_a (c : N) : bool := (48 <=? c) && (c <=? 57).
Definition is_upper_a (c : N) : bool := (65 <=? c) && (c <=? 90).
Definition is_lower_a (c : N) : bool := (97 <=? c) && (c <=? 122).
Definition is_letter_a (c : N) : bool := is_upper_a c || is_lower_a c.
(* unicode.IsSpace on Latin-1: \t \n \v \f \r space, U+0085, U+00A0 *)
Definition is_space_a (c : N) : bool :=
  ((9 <=? c) && (c <=? 13)) || (c =? 32) || (c =? 133) || (c =? 160).

Definition lower_c (c : N) : N := if is_upper_a c then c + 32 else c.
Definition lower (s : text) : text := map lower_c s.

(* decimal digits of a natural number, most significant first (fmt %d of a non-negative value) *)
Fixpoint digits_fuel (f : nat) (n : N) (acc : text) : text :=
  match f with
  | O => acc
  | S f' => let acc' := (48 + n mod 10) :: acc in
            if n <? 10 then acc' else digits_fuel f' (n / 10) acc'
  end.
Definition dec_of_N (n : N) : text := digits_fuel (S (N.to_nat (N.log2 n))) n [].
Definition dec_of_Z (z : Z) : text :=
  match z with
  | Zneg p => 45 :: dec_of_N (Npos p)
  | _ => dec_of_N (Z.to_N z)
  end.

(* value of a string of digits; None if empty or not all digits *)
Definition parse_digits (s : text) : option N :=
  match s with
  | [] => None
  | _ => fold_left (fun acc c => match acc with
                                 | Some v => if is_digit_a c then Some (v * 10 + (c - 48)) else None
                                 | None => None end) s (Some 0)
  end.
(* strconv.ParseInt(s, 10, bits): optional sign, digits, range check *)
Definition parse_int (bits : N) (s : text) : option Z :=
  let '(neg, body) := match s with
                      | 45 :: r => (true, r)
                      | 43 :: r => (false, r)
                      | _ => (false, s) end in
  match parse_digits body with
  | None => None
  | Some v =>
    let z := if neg then (- Z.of_N v)%Z else Z.of_N v in
    let lim := (2 ^ Z.of_N (bits - 1))%Z in
    if ((- lim <=? z) && (z <? lim))%Z%bool then Some z else None
  end.
