(* ForExpand.v — forexpand.go: the FOR expander goroutine as the list of tokens
   it sends, whether it ends by closing its channel, and whether it is left
   blocked forever on a send nobody will receive.  One (outermost, first) FOR
   block is expanded per pass; the rest of the stream is copied.
   Definitions only. *)
From GM Require Export ExprEval.
Open Scope N_scope.

Inductive fstate :=
  FLine | FConsumeLabels | FWriteLabelsEmitConsumeLine | FConsumeEmitLine
| FConsumeExpression | FFor | FInnerLine | FInnerLabels | FInnerEmitLabels
| FInnerEmitConsumeLine | FRof | FEmitConsumeStream.

Record fexp := mkF {
  f_rd : reader; f_labels : list text; f_expr : list token;
  f_count_label : text; f_line_labels : list text; f_labels_at : option nat;
  f_count : Z; f_content : list token; f_depth : nat;
  f_out : list token;      (* sends so far *)
  f_stuck : bool }.        (* blocked forever re-sending a terminal token *)

Definition f_set_rd (f : fexp) (r : reader) : fexp :=
  mkF r (f_labels f) (f_expr f) (f_count_label f) (f_line_labels f) (f_labels_at f)
      (f_count f) (f_content f) (f_depth f) (f_out f) (f_stuck f).
Definition f_send (f : fexp) (ts : list token) : fexp :=
  mkF (f_rd f) (f_labels f) (f_expr f) (f_count_label f) (f_line_labels f) (f_labels_at f)
      (f_count f) (f_content f) (f_depth f) (f_out f ++ ts) (f_stuck f).
Definition f_set_labels (f : fexp) (l : list text) : fexp :=
  mkF (f_rd f) l (f_expr f) (f_count_label f) (f_line_labels f) (f_labels_at f)
      (f_count f) (f_content f) (f_depth f) (f_out f) (f_stuck f).
Definition f_set_expr (f : fexp) (e : list token) : fexp :=
  mkF (f_rd f) (f_labels f) e (f_count_label f) (f_line_labels f) (f_labels_at f)
      (f_count f) (f_content f) (f_depth f) (f_out f) (f_stuck f).
Definition f_set_content (f : fexp) (c : list token) : fexp :=
  mkF (f_rd f) (f_labels f) (f_expr f) (f_count_label f) (f_line_labels f) (f_labels_at f)
      (f_count f) c (f_depth f) (f_out f) (f_stuck f).
Definition f_set_depth (f : fexp) (d : nat) : fexp :=
  mkF (f_rd f) (f_labels f) (f_expr f) (f_count_label f) (f_line_labels f) (f_labels_at f)
      (f_count f) (f_content f) d (f_out f) (f_stuck f).
Definition f_set_labels_at (f : fexp) (w : option nat) : fexp :=
  mkF (f_rd f) (f_labels f) (f_expr f) (f_count_label f) (f_line_labels f) w
      (f_count f) (f_content f) (f_depth f) (f_out f) (f_stuck f).
(* markLineLabels: the first line of the body itself (depth 0) that is an instruction or the header
   of a nested block is where the labels in front of the counter go *)
Definition f_mark (f : fexp) : fexp :=
  match f_depth f, f_labels_at f with
  | O, None => f_set_labels_at f (Some (length (f_content f)))
  | _, _ => f
  end.

Definition f_next (f : fexp) : fexp := f_set_rd f (rnext (f_rd f)).
Definition f_nt (f : fexp) : token := r_next (f_rd f).
(* emitConsume *)
Definition f_emit_consume (f : fexp) : fexp := f_next (f_send f [f_nt f]).

(* the token a body token becomes in iteration i: the counter becomes the iteration number;
   block labels (the names in front of the counter) are ordinary labels and keep their names *)
Definition subst_body (count_label : text) (line_labels : list text) (i : N) (t : token) : token :=
  match t_typ t with
  | tokText => if text_eqb (t_val t) count_label then mkT tokNumber (dec_of_N i) else t
  | _ => t
  end.
Fixpoint repeat_body (n : nat) (i : N) (count_label : text) (line_labels : list text)
         (body : list token) : list token :=
  match n with
  | O => []
  | S n' => map (subst_body count_label line_labels i) body
            ++ repeat_body n' (i + 1) count_label line_labels body
  end.

(* the first iteration: the block labels are written in front of the token at index [at] *)
Fixpoint emit_first (j : nat) (at_ : option nat) (labs : list token) (count_label : text)
         (line_labels : list text) (body : list token) : list token :=
  match body with
  | [] => []
  | t :: r =>
    (match at_ with Some a => if Nat.eqb a j then labs else [] | None => [] end)
    ++ subst_body count_label line_labels 1 t :: emit_first (S j) at_ labs count_label line_labels r
  end.
(* what forRof sends for the block: with a count below one only the labels (they fall onto what follows the block,
   whatever the body holds), otherwise the first iteration with the labels in place, then iterations 2 .. count *)
Definition emit_body (n : nat) (at_ : option nat) (count_label : text) (line_labels : list text)
           (body : list token) : list token :=
  let labs := map (mkT tokText) line_labels in
  match n with
  | O => labs
  | S n' => emit_first 0 at_ labs count_label line_labels body
            ++ repeat_body n' 2 count_label line_labels body
  end.

Fixpoint init_list {A} (l : list A) : list A :=
  match l with [] => [] | [_] => [] | x :: t => x :: init_list t end.

Section Exp.
Variable symbols : symtab.

(* skip the rest of the rof line (its newline included); the line may be the last one and lack a newline *)
Fixpoint rof_skip (n : nat) (f : fexp) : fexp * bool :=      (* bool: the line ended (newline or EOF) *)
  match n with
  | O => (f, false)
  | S n' =>
    match t_typ (f_nt f) with
    | tokNewline => (f_next f, true)
    | tokEOF => (f, true)
    | tokError => (f_send f [f_nt f], false)
    | _ => rof_skip n' (f_next f)
    end
  end.

(* forEmitConsumeStream: copy until EOF; an error token is copied and ends the loop *)
Fixpoint stream_loop (n : nat) (f : fexp) : fexp :=
  match n with
  | O => f
  | S n' =>
    match t_typ (f_nt f) with
    | tokEOF => f
    | tokError => f_send f [f_nt f]
    | _ => stream_loop n' (f_emit_consume f)
    end
  end.

(* one state function; None = the state machine ends; Some None inside = out of fuel in forFor *)
Definition for_step (st : fstate) (f : fexp) : option (fexp * option fstate) :=
  let nt := f_nt f in
  match st with
  | FLine =>
    match t_typ nt with
    | tokText => Some (f_set_labels f [], Some FConsumeLabels)
    | _ => Some (f, Some FConsumeEmitLine)
    end
  | FConsumeLabels =>
    match t_typ nt with
    | tokText =>
      if tok_is_pseudo nt then
        if lower_is (t_val nt) "for" then Some (f_set_expr (f_next f) [], Some FConsumeExpression)
        else Some (f, Some FWriteLabelsEmitConsumeLine)
      else if tok_is_op nt then Some (f, Some FWriteLabelsEmitConsumeLine)
      else Some (f_next (f_set_labels f (f_labels f ++ [t_val nt])), Some FConsumeLabels)
    | tokNewline | tokComment | tokColon => Some (f_next f, Some FConsumeLabels)
    | _ => Some (f_send f [mkT tokError []], None)
    end
  | FWriteLabelsEmitConsumeLine =>
    let f1 := f_send f (map (mkT tokText) (f_labels f)) in
    Some (f_emit_consume (f_set_labels f1 []), Some FConsumeEmitLine)
  | FConsumeEmitLine =>
    match t_typ nt with
    | tokNewline => Some (f_emit_consume f, Some FLine)
    | tokError | tokEOF => Some (f_emit_consume f, None)
    | _ => Some (f_emit_consume f, Some FConsumeEmitLine)
    end
  | FConsumeExpression =>
    match t_typ nt with
    | tokNewline => Some (f_next f, Some FFor)
    | tokComment => Some (f_next f, Some FConsumeExpression)
    | tokError => Some (f_emit_consume f, None)
    | tokEOF => Some (f, None)
    | _ => Some (f_next (f_set_expr f (f_expr f ++ [nt])), Some FConsumeExpression)
    end
  | FFor =>
    match expand_and_evaluate (f_expr f) symbols with
    | None => None
    | Some (EOk v) =>
      let labels := f_labels f in
      let cl := last labels [] in
      let ll := init_list labels in
      Some (mkF (f_rd f) [] (f_expr f) cl ll None v [] (f_depth f)
                (f_out f) (f_stuck f), Some FInnerLine)
    | Some _ => Some (f_send f [mkT tokError []], None)
    end
  | FInnerLine =>
    match t_typ nt with
    | tokText => Some (f_set_labels f [], Some FInnerLabels)
    | _ => Some (f, Some FInnerEmitConsumeLine)
    end
  | FInnerLabels =>
    match t_typ nt with
    | tokText =>
      if tok_is_pseudo nt then
        if lower_is (t_val nt) "for" then Some (f_set_depth (f_mark f) (S (f_depth f)), Some FInnerEmitLabels)
        else if lower_is (t_val nt) "rof" then
          match f_depth f with
          | S d => Some (f_set_depth f d, Some FInnerEmitConsumeLine)
          | O => Some (f, Some FRof)
          end
        else Some (f, Some FInnerEmitLabels)
      else if tok_is_op nt then Some (f_mark f, Some FInnerEmitLabels)
      else Some (f_next (f_set_labels f (f_labels f ++ [t_val nt])), Some FInnerLabels)
    | tokColon => Some (f_next f, Some FInnerLabels)
    | _ => Some (f, Some FInnerEmitLabels)
    end
  | FInnerEmitLabels =>
    Some (f_set_content f (f_content f ++ map (mkT tokText) (f_labels f)), Some FInnerEmitConsumeLine)
  | FInnerEmitConsumeLine =>
    match t_typ nt with
    | tokError => Some (f_send f [nt], None)
    | tokEOF => Some (f, None)
    | tokNewline => Some (f_next (f_set_content f (f_content f ++ [nt])), Some FInnerLine)
    | _ => Some (f_next (f_set_content f (f_content f ++ [nt])), Some FInnerEmitConsumeLine)
    end
  | FRof =>
    match rof_skip (S (S (length (r_toks (f_rd f))))) f with
    | (f1, false) => Some (f1, None)
    | (f2, true) =>
      let body := emit_body (Z.to_nat (f_count f2)) (f_labels_at f2) (f_count_label f2) (f_line_labels f2) (f_content f2) in
      Some (f_send f2 body, Some FEmitConsumeStream)
    end
  | FEmitConsumeStream =>
    Some (stream_loop (S (S (length (r_toks (f_rd f))))) f, None)
  end.

Fixpoint for_run (n : nat) (st : fstate) (f : fexp) : option fexp :=
  match n with
  | O => None
  | S n' => match for_step st f with
            | None => None
            | Some (f', None) => Some f'
            | Some (f', Some st') => for_run n' st' f'
            end
  end.
End Exp.

(* what the consumer (Tokens) ends up with: the tokens up to the first terminal;
   EOF when the channel is closed before any terminal *)
Fixpoint recv_until_closed (l : list token) : list token :=
  match l with
  | [] => [mkT tokEOF []]
  | t :: r => if is_terminal t then [t] else t :: recv_until_closed r
  end.

Record for_result := mkFR {
  fr_sends : list token;    (* everything the goroutine sends or tries to send *)
  fr_stuck : bool;          (* left blocked forever *)
  fr_tokens : list token }. (* what ForExpand returns *)

(* ForExpand: None = out of fuel.  (run() returns at once, without closing, when the
   reader is already at EOF; Tokens() would then wait forever: stuck consumer.) *)
Definition for_expand (toks : list token) (symbols : symtab) : option (option for_result) :=
  let rd := reader_init toks in
  if r_eof rd then Some None
  else
    let f0 := mkF rd [] [] [] [] None 0%Z [] O [] false in
    match for_run symbols (4 * length toks + 8) FLine f0 with
    | None => None
    | Some f =>
      (* a second terminal send is never received: the goroutine stays blocked on it *)
      let got := recv_until_closed (f_out f) in
      Some (Some (mkFR (f_out f) (f_stuck f || (length got <? length (f_out f))%nat) got))
    end.
